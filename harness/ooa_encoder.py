"""Class diagrams <-> ooaofooa populations: shared test infrastructure of C14 and C20 (trusted base).

A *diagram* is the JSON-able Python mirror of lean/PyxModel/Extract/Diagram.lean:

  {'containers': [{'comp': bool, 'id': int, 'name': str, 'parent': P}],
   'dts':        [{'id': int, 'name': str, 'kind': ['core', n] | ['enum', name...] | ['user', id] | ['other'],
                   'parent': P, 'predef': bool}],
   'classes':    [{'id': int, 'kl': str, 'parent': P,
                   'attrs':  [{'id': int, 'name': str, 'kind': ['base', dt] | ['derived', dt] | ['ref', cls, attr]}],
                   'idents': [{'num': int, 'attrs': [attr id...]}]}],
   'rels':       [{'id': int, 'numb': int, 'parent': P,
                   'kind': ['simple', END, END, [REF...]] | ['linked', END, END, linkcls, [REF...], [REF...]]
                         | ['subsup', supercls, [[subcls, [REF...]]...]] | ['derived']}]}
  P = None | ['pkg', id] | ['comp', id];  END = [cls, mult, cond, phrase];  REF = [rattr, iattr]
  optional  'loose': [[cls, attr]...]   attributes related across R102 that are off the R103 chain
            'rows':  [{'id', 'numb', 'parent', 'rows': ROWS}]   relationships given row by row (lean: RelRows), for
                     everything 'rels' cannot express (unformalised simple relationships, missing end rows, no / two
                     R206 subtype rows);  ROWS = {'simp','assoc','subsup','comp': bool, 'form': END|None, 'parts': [END],
                     'refs': [REF], 'aone','aoth': END|None, 'assr': cls|None, 'refs_one','refs_oth': [REF],
                     'super': cls|None, 'subs': [[cls, [REF]]]}

Identifiers are the raw UNIQUE_ID integers of the population (so `decode(load(encode(d))) == d`);
generated diagrams draw all identifiers from one counter, real models keep their uuids.

  encode(diagram, rng)      rows (INSERT statements of an .xtuml file), written against the table
                            definitions in bridgepoint/schema.py, emitted in an order permuted by `rng`
  decode(m)                 the diagram a loaded ooaofooa population denotes (plain row reading)
  check_population(m)       the ooaofooa consistency check (association integrity + uniqueness)
                            restricted to the classes the encoder populates
  gen_diagram(rng, ...)     random well-formed diagrams with every relationship shape
  py_extract / py_xsd       the specification in Python (independent oracle for the predicate D)
  canon_* / edit helpers    canonical observations, edits on a loaded population
"""
import re
import uuid

from sexp import Sym

GLOBAL_DT_BASE = 0xba5eda7adef500000000000000000000
SAME_AS = GLOBAL_DT_BASE + 7
POPULATED = ['PE_PE', 'EP_PKG', 'EP_PKGREF', 'C_C', 'S_DT', 'S_CDT', 'S_EDT', 'S_ENUM', 'S_UDT', 'S_SDT', 'S_IRDT',
             'O_OBJ', 'O_ATTR', 'O_BATTR', 'O_NBATTR', 'O_DBATTR', 'O_RATTR', 'O_REF', 'O_RTIDA', 'O_OIDA', 'O_ID',
             'R_REL', 'R_SIMP', 'R_FORM', 'R_PART', 'R_ASSOC', 'R_AONE', 'R_AOTH', 'R_ASSR', 'R_SUBSUP', 'R_SUPER',
             'R_SUB', 'R_COMP', 'R_OIR', 'R_RGO', 'R_RTO']

_TABLES = None        # table name -> [(column, TYPE)]
_PREDEF = None        # the data types of bridgepoint.schema.globals as diagram dts


# --------------------------------------------------------------------------- schema text

def tables():
    """column names and types of every ooaofooa class, parsed from the text in bridgepoint/schema.py"""
    global _TABLES
    if _TABLES is None:
        from bridgepoint import schema
        _TABLES = {}
        for m in re.finditer(r'CREATE TABLE (\w+) \((.*?)\);', schema.classes, re.S):
            cols = []
            for part in m.group(2).split(','):
                name, ty = part.split()
                cols.append((name, ty.upper()))
            _TABLES[m.group(1)] = cols
    return _TABLES


class RawRow(object):
    """one INSERT statement as written: attribute = column value (uuids as integers)"""

    def __init__(self, table, values):
        cols = tables()[table]
        # a row written for another version of the schema (fewer / more values than columns): what is there, in order
        for i, (name, _) in enumerate(cols):
            setattr(self, name, values[i] if i < len(values) else None)


class RawPopulation(object):
    """the rows of .xtuml text, read by the harness's own statement reader (no pyxtuml loader, no links: a referential
    column holds what the file says).  Offers `select_many(kind)` in file order, which is all `decode` uses - so the
    diagram of a real model is computed from the INPUT FILE, not from the population the library loaded."""
    _STMT = re.compile(r"INSERT\s+INTO\s+(\w+)\s+VALUES\s*\(", re.I)
    _VALUE = re.compile(r"""\s*(?:'((?:[^']|'')*)'|"([0-9a-fA-F-]{36})"|(-?\d+\.\d+)|(-?\d+))\s*([,)])""", re.S)

    def __init__(self, *texts):
        self.rows = {}
        for text in texts:
            pos = 0
            while True:
                m = self._STMT.search(text, pos)
                if not m:
                    break
                pos, values = m.end(), []
                while True:
                    v = self._VALUE.match(text, pos)
                    if not v:
                        raise ValueError('unreadable value in an INSERT INTO %s near %r' % (m.group(1), text[pos:pos + 40]))
                    if v.group(1) is not None:
                        values.append(v.group(1).replace("''", "'"))
                    elif v.group(2) is not None:
                        values.append(uuid.UUID(v.group(2)).int)
                    elif v.group(3) is not None:
                        values.append(float(v.group(3)))
                    else:
                        values.append(int(v.group(4)))
                    pos = v.end()
                    if v.group(5) == ')':
                        break
                if m.group(1) in tables():
                    self.rows.setdefault(m.group(1), []).append(RawRow(m.group(1), values))

    def select_many(self, kind):
        return list(self.rows.get(kind, []))


def predefined_dts():
    """the S_DT rows of bridgepoint.schema.globals (always loaded by gen_sql_schema / gen_xsd_schema), read from the
    text of the globals by the harness's own statement reader"""
    global _PREDEF
    if _PREDEF is None:
        from bridgepoint import schema
        d = decode(RawPopulation(schema.globals))
        _PREDEF = [dict(t, predef=True) for t in d['dts']]
        assert len(_PREDEF) >= 6 and not d['classes'] and not d['containers']
    return [dict(t) for t in _PREDEF]


def _sql_value(v, ty):
    if ty == 'UNIQUE_ID':
        return '"%s"' % uuid.UUID(int=v)
    if ty == 'STRING':
        return "'%s'" % v.replace("'", "''")
    if ty in ('INTEGER', 'BOOLEAN'):
        return '%d' % int(v)
    raise ValueError(ty)


def _row_text(table, values):
    cols = tables()[table]
    if len(cols) != len(values):
        raise ValueError('%s takes %d values, got %d' % (table, len(cols), len(values)))
    return 'INSERT INTO %s\n\tVALUES (%s);\n' % (table, ',\n\t'.join(_sql_value(v, ty) for v, (_, ty) in zip(values, cols)))


# --------------------------------------------------------------------------- diagram -> rows

def _parent_ids(p):
    if p is None:
        return 0, 0
    return (p[1], 0) if p[0] == 'pkg' else (0, p[1])


def rows_of(d):
    """the rows of a diagram, in a fixed order (see `encode` for the permuted text)"""
    rows = []
    fresh = [1 << 48]

    def new_id():
        fresh[0] += 1
        return fresh[0]

    def pe(elem, ty, parent):
        pk, cm = _parent_ids(parent)
        rows.append(('PE_PE', [elem, 1, pk, cm, ty]))

    for k in d['containers']:
        if k['comp']:
            rows.append(('C_C', [k['id'], 0, 0, k['name'], '', 0, 0, 0, '', '']))
            pe(k['id'], 2, k['parent'])
        else:
            rows.append(('EP_PKG', [k['id'], 0, 0, k['name'], '', 0]))
            pe(k['id'], 7, k['parent'])
    for referring, referred in d.get('pkgrefs', []):
        rows.append(('EP_PKGREF', [referring, referred]))
    for t in d['dts']:
        if t.get('predef'):
            continue
        rows.append(('S_DT', [t['id'], 0, t['name'], '', '']))
        pe(t['id'], 3, t['parent'])
        kind = t['kind']
        if kind[0] == 'core':
            rows.append(('S_CDT', [t['id'], kind[1]]))
        elif kind[0] == 'enum':
            rows.append(('S_EDT', [t['id']]))
            prev = 0
            for name in kind[1:]:
                eid = new_id()
                rows.append(('S_ENUM', [eid, name, '', t['id'], prev]))
                prev = eid
        elif kind[0] == 'user':
            rows.append(('S_UDT', [t['id'], kind[1], 0, '']))
        elif t.get('flavour') == 'irdt' and d['classes']:
            # an instance reference type (inst_ref<X> / inst_ref_set<X>): S_IRDT, R123 to some class
            rows.append(('S_IRDT', [t['id'], int(t['name'].startswith('inst_ref_set')), d['classes'][0]['id']]))
        elif t.get('flavour') == 'none':
            pass                                    # an S_DT without any R17 subtype row
        else:
            rows.append(('S_SDT', [t['id']]))
    classes = {c['id']: c for c in d['classes']}
    for c in d['classes']:
        rows.append(('O_OBJ', [c['id'], c['kl'] + ' (class)', 0, c['kl'], '', 0]))
        pe(c['id'], 4, c['parent'])
        prev = 0
        for a in c['attrs']:
            kind = a['kind']
            dt = kind[1] if kind[0] in ('base', 'derived') else SAME_AS
            rows.append(('O_ATTR', [a['id'], c['id'], prev, a['name'], '', '', a['name'], 0, dt, '', '']))
            prev = a['id']
            if kind[0] == 'base':
                rows.append(('O_BATTR', [a['id'], c['id']]))
                rows.append(('O_NBATTR', [a['id'], c['id']]))
            elif kind[0] == 'derived':
                rows.append(('O_BATTR', [a['id'], c['id']]))
                rows.append(('O_DBATTR', [a['id'], c['id'], '', 0, 0]))
            else:
                bk = classes.get(kind[1])
                ba = _find(bk['attrs'], 'id', kind[2]) if bk else None
                # BaseAttrName: one of the redundant name columns BridgePoint keeps (never read by the extractor)
                rows.append(('O_RATTR', [a['id'], c['id'], kind[2], kind[1], 1, ba['name'] if ba else '']))
        for i in c['idents']:
            rows.append(('O_ID', [i['num'], c['id']]))
            for a in i['attrs']:
                rows.append(('O_OIDA', [a, c['id'], i['num'], '']))
        # attributes off the R103 chain: related across R102 only (base / derived, never referred to)
        for cls, a in d.get('loose', []):
            if cls != c['id']:
                continue
            rows.append(('O_ATTR', [a['id'], c['id'], 0, a['name'], '', '', a['name'], 0, a['kind'][1], '', '']))
            rows.append(('O_BATTR', [a['id'], c['id']]))
            rows.append(('O_NBATTR', [a['id'], c['id']]) if a['kind'][0] == 'base' else
                        ('O_DBATTR', [a['id'], c['id'], '', 0, 0]))

    def oid_for(cls, iattrs):
        """the identifier of the referred class that holds the identifying attributes"""
        if cls not in classes:
            return 0                    # a relationship naming a class that does not exist (unresolved diagrams)
        for i in classes[cls]['idents']:
            if iattrs and all(a in i['attrs'] for a in iattrs):
                return i['num']
        for i in classes[cls]['idents']:
            if any(a in i['attrs'] for a in iattrs):
                return i['num']
        return 0

    numb_of = {r['id']: r['numb'] for r in d['rels'] + d.get('rows', [])}

    def cached(rel, rto_cls, iattr):
        """the redundant name columns BridgePoint keeps on O_REF (RObj_Name, RAttr_Name, Rel_Name); they go stale
        when the model is edited and must never be read by the extractor"""
        k = classes.get(rto_cls)
        a = _find(k['attrs'], 'id', iattr) if k else None
        return [k['kl'] + ' (class)' if k else '', a['name'] if a else '', 'R%d' % numb_of.get(rel, 0)]

    def refs(rel, rgo_cls, rgo_oir, rto_cls, rto_oir, oid, rs):
        seen = set()
        for rattr, iattr in rs:
            if iattr not in seen:
                seen.add(iattr)
                rows.append(('O_RTIDA', [iattr, rto_cls, oid, rel, rto_oir]))
            rows.append(('O_REF', [rgo_cls, rto_cls, oid, iattr, rel, rgo_oir, rto_oir, rattr, new_id(), 0, 0, ''] +
                         cached(rel, rto_cls, iattr)))

    for r in d['rels']:
        rid = r['id']
        rows.append(('R_REL', [rid, r['numb'], '', 0]))
        pe(rid, 9, r['parent'])
        kind = r['kind']
        if kind[0] == 'simple':
            _, form, part, rs = kind
            rows.append(('R_SIMP', [rid]))
            foir, poir = new_id(), new_id()
            oid = oid_for(part[0], [x[1] for x in rs])
            rows.append(('R_OIR', [form[0], rid, foir, 0]))
            rows.append(('R_RGO', [form[0], rid, foir]))
            rows.append(('R_FORM', [form[0], rid, foir, int(form[1]), int(form[2]), form[3]]))
            rows.append(('R_OIR', [part[0], rid, poir, 0]))
            rows.append(('R_RTO', [part[0], rid, poir, oid]))
            rows.append(('R_PART', [part[0], rid, poir, int(part[1]), int(part[2]), part[3]]))
            refs(rid, form[0], foir, part[0], poir, oid, rs)
        elif kind[0] == 'linked':
            _, one, oth, link, r1, r2 = kind
            rows.append(('R_ASSOC', [rid]))
            ooir, toir, loir = new_id(), new_id(), new_id()
            oid1 = oid_for(one[0], [x[1] for x in r1])
            oid2 = oid_for(oth[0], [x[1] for x in r2])
            rows.append(('R_OIR', [one[0], rid, ooir, 0]))
            rows.append(('R_RTO', [one[0], rid, ooir, oid1]))
            rows.append(('R_AONE', [one[0], rid, ooir, int(one[1]), int(one[2]), one[3]]))
            rows.append(('R_OIR', [oth[0], rid, toir, 0]))
            rows.append(('R_RTO', [oth[0], rid, toir, oid2]))
            rows.append(('R_AOTH', [oth[0], rid, toir, int(oth[1]), int(oth[2]), oth[3]]))
            rows.append(('R_OIR', [link, rid, loir, 0]))
            rows.append(('R_RGO', [link, rid, loir]))
            rows.append(('R_ASSR', [link, rid, loir, 0]))
            refs(rid, link, loir, one[0], ooir, oid1, r1)
            refs(rid, link, loir, oth[0], toir, oid2, r2)
        elif kind[0] == 'subsup':
            _, sup, subs = kind
            rows.append(('R_SUBSUP', [rid]))
            soir = new_id()
            allrefs = [x[1] for s in subs for x in s[1]]
            oid = oid_for(sup, allrefs)
            rows.append(('R_OIR', [sup, rid, soir, 0]))
            rows.append(('R_RTO', [sup, rid, soir, oid]))
            rows.append(('R_SUPER', [sup, rid, soir]))
            seen = set()
            for sub, rs in subs:
                boir = new_id()
                rows.append(('R_OIR', [sub, rid, boir, 0]))
                rows.append(('R_RGO', [sub, rid, boir]))
                rows.append(('R_SUB', [sub, rid, boir]))
                for rattr, iattr in rs:
                    if iattr not in seen:
                        seen.add(iattr)
                        rows.append(('O_RTIDA', [iattr, sup, oid, rid, soir]))
                    rows.append(('O_REF', [sub, sup, oid, iattr, rid, boir, soir, rattr, new_id(), 0, 0, ''] +
                                 cached(rid, sup, iattr)))
        else:
            rows.append(('R_COMP', [rid, '']))
    for r in d.get('rows', []):
        rid, w = r['id'], r['rows']
        rows.append(('R_REL', [rid, r['numb'], '', 0]))
        pe(rid, 9, r['parent'])
        for flag, table, vals in (('simp', 'R_SIMP', [rid]), ('assoc', 'R_ASSOC', [rid]), ('subsup', 'R_SUBSUP', [rid]),
                                  ('comp', 'R_COMP', [rid, ''])):
            if w[flag]:
                rows.append((table, vals))
        foir = None
        if w['form']:
            f = w['form']
            foir = new_id()
            rows.append(('R_OIR', [f[0], rid, foir, 0]))
            rows.append(('R_RGO', [f[0], rid, foir]))
            rows.append(('R_FORM', [f[0], rid, foir, int(f[1]), int(f[2]), f[3]]))
        poirs = []
        for j, p in enumerate(w['parts']):
            poir = new_id()
            poirs.append(poir)
            oid = oid_for(p[0], [x[1] for x in w['refs']]) if j == 0 else 0
            rows.append(('R_OIR', [p[0], rid, poir, 0]))
            rows.append(('R_RTO', [p[0], rid, poir, oid]))
            rows.append(('R_PART', [p[0], rid, poir, int(p[1]), int(p[2]), p[3]]))
        if w['refs'] and w['parts']:
            # the referring end: R_FORM, without one the second participant
            src = (w['form'][0], foir) if w['form'] else (w['parts'][1][0], poirs[1]) if len(w['parts']) > 1 else None
            if src is not None:
                refs(rid, src[0], src[1], w['parts'][0][0], poirs[0], oid_for(w['parts'][0][0], [x[1] for x in w['refs']]),
                     w['refs'])
        loir = None
        if w['assr'] is not None:
            loir = new_id()
            rows.append(('R_OIR', [w['assr'], rid, loir, 0]))
            rows.append(('R_RGO', [w['assr'], rid, loir]))
            rows.append(('R_ASSR', [w['assr'], rid, loir, 0]))
        for key, table, rkey in (('aone', 'R_AONE', 'refs_one'), ('aoth', 'R_AOTH', 'refs_oth')):
            e = w[key]
            if e is None:
                continue
            eoir = new_id()
            oid = oid_for(e[0], [x[1] for x in w[rkey]])
            rows.append(('R_OIR', [e[0], rid, eoir, 0]))
            rows.append(('R_RTO', [e[0], rid, eoir, oid]))
            rows.append((table, [e[0], rid, eoir, int(e[1]), int(e[2]), e[3]]))
            if w[rkey] and loir is not None:
                refs(rid, w['assr'], loir, e[0], eoir, oid, w[rkey])
        soir = None
        if w['super'] is not None:
            soir = new_id()
            soid = oid_for(w['super'], [x[1] for sb in w['subs'] for x in sb[1]])
            rows.append(('R_OIR', [w['super'], rid, soir, 0]))
            rows.append(('R_RTO', [w['super'], rid, soir, soid]))
            rows.append(('R_SUPER', [w['super'], rid, soir]))
        seen = set()
        for sub, rs in w['subs']:
            boir = new_id()
            rows.append(('R_OIR', [sub, rid, boir, 0]))
            rows.append(('R_RGO', [sub, rid, boir]))
            rows.append(('R_SUB', [sub, rid, boir]))
            if soir is not None:
                for rattr, iattr in rs:
                    if iattr not in seen:
                        seen.add(iattr)
                        rows.append(('O_RTIDA', [iattr, w['super'], soid, rid, soir]))
                    rows.append(('O_REF', [sub, w['super'], soid, iattr, rid, boir, soir, rattr, new_id(), 0, 0, ''] +
                                 cached(rid, w['super'], iattr)))
    return rows


DESCRIPTIONS = [' -- ', '-----', 'use --retries 3', 'ends with a dash -', '--', 'a --> b', '<!-- not a comment -->', 'a < b & c > d',
                'say "hi" to \'them\'', 'first line\nsecond line -- with dashes\n', '\tindented', ']]>', '&amp; &#10; &lt;', 'Ünï — long dash',
                'plain words', '<xs:element name="fake"/>', '?> <?pi', '- - -']


def _with_descriptions(rows, seed):
    """the same rows with NON-EMPTY description texts (Descrip of C_C, EP_PKG, S_DT, S_ENUM, O_OBJ, O_ATTR, R_REL, O_REF):
    descriptions are no part of the diagram - nothing a component or schema mirrors may depend on them"""
    import random
    rnd = random.Random(seed)
    out = []
    for t, v in rows:
        cols = [c[0] for c in tables()[t]]
        if 'Descrip' in cols and rnd.random() < 0.85:
            v = list(v)
            v[cols.index('Descrip')] = rnd.choice(DESCRIPTIONS)
        out.append((t, v))
    return out


def _with_ref_types(rows, d, seed):
    """the same rows, but the referential attributes carry a data type OF THEIR OWN across R114 (any type of the model:
    string, an enumeration, a user type, an unsupported one) instead of same_as<Base_Attribute>, as after an import or a
    retype of the referential attribute.  The own type of a referential attribute is no part of the diagram: it is typed
    by the attribute it refers to."""
    import random
    rnd = random.Random(seed)
    ids = [t['id'] for t in d['dts']]
    col = [c[0] for c in tables()['O_ATTR']].index('DT_ID')
    refs = {(a['id'], c['id']) for c in d['classes'] for a in c['attrs'] if a['kind'][0] == 'ref'}
    out = []
    for t, v in rows:
        if t == 'O_ATTR' and (v[0], v[1]) in refs and rnd.random() < 0.8:
            v = list(v)
            v[col] = rnd.choice(ids)
        out.append((t, v))
    return out


# --- owner-C20 round 8: array / defaulted attributes --------------------------------------------------------------
# What BridgePoint stores for `samples : real[4] = 0.0`: O_ATTR.Dimensions = '[4]', one S_DIM row per dimension related
# across R120 (elementCount 0 = unbounded), O_ATTR.DefaultValue.  Older model files carry the Dimensions string only,
# hand-made ones S_DIM rows only.  None of this is part of the diagram: an array attribute of a supported type is still
# an attribute of that type, named as modeled.
DIMENSIONS = [[4], [2, 3], [0], [1], [16, 0], [3, 3, 3]]
DEFAULT_VALUES = ['0', '4', '0.0', '"text"', 'true', 'Colour::red', ' ', '-1']


def _dims_text(counts):
    return ''.join('[%s]' % (n if n else '') for n in counts)


def _s_dim_values(obj_id, attr_id, count, idx, dim_id):
    cols = [c[0] for c in tables()['S_DIM']]
    v = [0] * len(cols)
    for k, x in (('elementCount', count), ('dimensionCount', idx), ('Obj_ID', obj_id), ('Attr_ID', attr_id),
                 ('DIM_ID', dim_id)):
        v[cols.index(k)] = x
    return v


def _array_choice(rnd):
    """(Dimensions string, S_DIM counts, DefaultValue) of one attribute: string and rows, string only, rows only, none"""
    x = rnd.random()
    counts = rnd.choice(DIMENSIONS) if x < 0.6 else []
    text = _dims_text(counts) if x < 0.45 else ''
    rows = counts if (x < 0.3 or 0.45 <= x < 0.6) else []
    return text, rows, (rnd.choice(DEFAULT_VALUES) if rnd.random() < 0.3 else '')


def _with_arrays(rows, seed):
    """the same rows, but attributes are dimensioned (Dimensions string and / or S_DIM rows across R120) and carry default
    values; data types carry default values"""
    import random
    rnd = random.Random(seed)
    cols = [c[0] for c in tables()['O_ATTR']]
    out, dim_id = [], (1 << 52)
    for t, v in rows:
        if t == 'O_ATTR':
            text, counts, dv = _array_choice(rnd)
            v = list(v)
            v[cols.index('Dimensions')], v[cols.index('DefaultValue')] = text, dv
            out.append((t, v))
            for idx, n in enumerate(counts):
                dim_id += 1
                out.append(('S_DIM', _s_dim_values(v[1], v[0], n, idx, dim_id)))
            continue
        if t == 'S_DT' and rnd.random() < 0.3:
            v = list(v)
            v[[c[0] for c in tables()['S_DT']].index('DefaultValue')] = rnd.choice(DEFAULT_VALUES)
        out.append((t, v))
    return out


def pop_dimension(m, o_attr, text, counts, dv=None):
    """dimension one attribute of a LOADED population (rows already related to it across R120 are removed first)"""
    import xtuml
    for s_dim in list(xtuml.navigate_many(o_attr).S_DIM[120]()):
        xtuml.delete(s_dim)
    o_attr.Dimensions = text
    if dv is not None:
        o_attr.DefaultValue = dv
    for idx, n in enumerate(counts):
        xtuml.relate(m.new('S_DIM', elementCount=n, dimensionCount=idx), o_attr, 120)


def pop_set_arrays(m, seed):
    """dimensions and default values on a LOADED population (real models)"""
    import random
    rnd = random.Random(seed)
    for o_attr in m.select_many('O_ATTR'):
        text, counts, dv = _array_choice(rnd)
        pop_dimension(m, o_attr, text, counts, dv)
# --- end owner-C20 round 8 -----------------------------------------------------------------------------------------


# --- owner-C14 round 8: the columns of the populated ooaofooa classes that are NO part of the class diagram -------------
# (no identifier, no referential attribute, not read by `decode`): a BridgePoint model holds any value there - the
# multiplicity of the associative class of a linked relationship (R_ASSR.Mult: the `{*}` on the link class; the
# multiplicities an association mirrors are those of the ENDS R_AONE / R_AOTH), the multiplicity of a component
# (C_C.Mult), class names and numbers beside the key letters, prefix / root of an attribute name (kept consistent with the
# persisted O_ATTR.Name), default values, parse status and dialect of a derived attribute's action, the name columns
# BridgePoint caches on O_REF / O_RATTR / O_OIDA (stale after an edit), visibility, number ranges.  Nothing a component
# mirrors may depend on them.  Every cell is a function of (seed, table, the leading id columns, column), so a diagram
# that shrinks keeps the values of the rows that remain.
UNMIRRORED = {
    'PE_PE': {'Visibility': [0, 1, 2]},
    'EP_PKG': {'Num_Rng': [0, 1, 100]},
    'C_C': {'Mult': [0, 1], 'isRealized': [0, 1], 'Realized_Class_Path': 'text', 'Key_Lett': 'name'},
    'S_DT': {'DefaultValue': 'text'},
    'S_UDT': {'Gen_Type': [0, 1, 2], 'Definition': 'text'},
    'O_OBJ': {'Name': 'name', 'Numb': [0, 1, 2, 3, 7, 100]},
    'O_ATTR': {'Prefix': 'prefix', 'DefaultValue': 'text'},
    'O_DBATTR': {'Action_Semantics_internal': 'action', 'Suc_Pars': [0, 1, 2, 3], 'Dialect': [-1, 0, 1, 2, 3]},
    'O_RATTR': {'Ref_Mode': [0, 1], 'BaseAttrName': 'name'},
    'O_REF': {'Is_Cstrd': [0, 1], 'RObj_Name': 'name', 'RAttr_Name': 'name', 'Rel_Name': 'name'},
    'O_OIDA': {'localAttributeName': 'name'},
    'R_ASSR': {'Mult': [0, 1]},
    'R_COMP': {'Rel_Chn': 'text'},
}
_UNMIRRORED_TEXT = ['', '0', '1', 'true', 'a.b::c', 'R1->R2', 'many', 'Zz']
_UNMIRRORED_ACTION = ['', 'self.Zz = 1;', 'return 1;', 'select many zs from instances of Zz;']


def _cell(seed, table, key, col, n):
    import hashlib
    h = hashlib.sha1(('%s|%s|%s|%s' % (seed, table, key, col)).encode()).digest()
    return int.from_bytes(h[:6], 'big') % n


def _unmirrored_values(seed, table, get, pool):
    """{column: value} for one row; `get(column)` reads the row as it is"""
    cols = tables()[table]
    key = ','.join(str(get(name)) for name, ty in cols[:2] if ty == 'UNIQUE_ID')
    out = {}
    for col, spec in sorted(UNMIRRORED.get(table, {}).items()):
        if _cell(seed, table, key, col + '?', 4) == 0:
            continue                                    # one cell in four stays as it is
        if isinstance(spec, list):
            out[col] = spec[_cell(seed, table, key, col, len(spec))]
        elif spec == 'text':
            out[col] = _UNMIRRORED_TEXT[_cell(seed, table, key, col, len(_UNMIRRORED_TEXT))]
        elif spec == 'action':
            out[col] = _UNMIRRORED_ACTION[_cell(seed, table, key, col, len(_UNMIRRORED_ACTION))]
        elif spec == 'name':
            out[col] = pool[_cell(seed, table, key, col, len(pool))]
        elif spec == 'prefix':
            # Pfx_Mode 0: no prefix (the Prefix column is not used: any text), 1: Name = Prefix + Root_Nam
            name = get('Name') or ''
            cut = _cell(seed, table, key, 'cut', max(1, len(name)))
            if cut == 0:
                out.update(Pfx_Mode=0, Prefix=pool[_cell(seed, table, key, col, len(pool))], Root_Nam=name)
            else:
                out.update(Pfx_Mode=1, Prefix=name[:cut], Root_Nam=name[cut:])
    return out


def _name_pool(names):
    return sorted({n for n in names if isinstance(n, str)}) + ['Zz_other', '']


def _with_unmirrored(rows, seed):
    """the same rows with other values in the columns that are no part of the diagram (see UNMIRRORED)"""
    pool = _name_pool(v[[c[0] for c in tables()[t]].index(col)] for t, v in rows for col in ('Name', 'Key_Lett')
                      if col in [c[0] for c in tables()[t]])
    out = []
    for t, v in rows:
        if t in UNMIRRORED:
            names = [c[0] for c in tables()[t]]
            v = list(v)
            for col, val in _unmirrored_values(seed, t, lambda c: v[names.index(c)], pool).items():
                v[names.index(col)] = val
        out.append((t, v))
    return out


def pop_set_unmirrored(m, seed):
    """the same on a LOADED population (real models): plain attribute assignments"""
    pool = _name_pool([x.Key_Lett for x in m.select_many('O_OBJ')] + [x.Name for x in m.select_many('O_ATTR')] +
                      [x.Name for x in m.select_many('C_C')])
    for t in sorted(UNMIRRORED):
        types = dict(tables()[t])
        for inst in m.select_many(t):
            for col, val in _unmirrored_values(seed, t, lambda c: getattr(inst, c), pool).items():
                setattr(inst, col, bool(val) if types[col] == 'BOOLEAN' else val)
# --- end owner-C14 round 8 -----------------------------------------------------------------------------------------


def encode(d, rng=None):
    """the .xtuml text of a diagram; the INSERT statements are shuffled when an rng is given"""
    rows = rows_of(d)
    if d.get('unmirrored') is not None:                 # --- owner-C14 round 8
        rows = _with_unmirrored(rows, d['unmirrored'])
    if d.get('arrays') is not None:                     # --- owner-C20 round 8
        rows = _with_arrays(rows, d['arrays'])
    if d.get('descr') is not None:
        rows = _with_descriptions(rows, d['descr'])
    if d.get('ref_types') is not None:
        rows = _with_ref_types(rows, d, d['ref_types'])
    texts = [_row_text(t, v) for t, v in rows]
    if rng is not None:
        # the order of the R_PART rows of ONE relationship is part of the diagram ('rows': an unformalised simple
        # relationship is directed from its second participant row to the first); everything else is shuffled
        group = {}
        for i, (t, v) in enumerate(rows):
            if t == 'R_PART':
                group.setdefault(v[1], []).append(texts[i])
        order = list(range(len(texts)))
        rng.shuffle(order)
        shuffled = [texts[i] for i in order]
        cursor = {k: 0 for k in group}
        for pos, i in enumerate(order):
            t, v = rows[i]
            if t == 'R_PART' and len(group[v[1]]) > 1:
                shuffled[pos] = group[v[1]][cursor[v[1]]]
                cursor[v[1]] += 1
        texts = shuffled
    return '-- generated by harness/ooa_encoder.py\n' + ''.join(texts)


# --------------------------------------------------------------------------- population -> diagram

def _parent_of(m, elem_id, pe_by_id):
    pe = pe_by_id.get(elem_id)
    if pe is None:
        return None
    if pe.Package_ID:
        return ['pkg', pe.Package_ID]
    if pe.Component_ID:
        return ['comp', pe.Component_ID]
    return None


def _chain(items, key, prev_key):
    """rows of a 'succeeds/precedes' chain in modeled order (first = the row without predecessor)"""
    by_prev = {}
    for it in items:
        by_prev.setdefault(prev_key(it) or 0, []).append(it)
    out, cur, seen = [], 0, set()
    while cur in by_prev and cur not in seen:
        seen.add(cur)
        nxt = by_prev[cur][0]
        out.append(nxt)
        cur = key(nxt)
    return out


def decode(m):
    """read the diagram off a loaded ooaofooa population, row by row (attribute values only, no navigation)"""
    sel = m.select_many
    pe_by_id = {p.Element_ID: p for p in sel('PE_PE')}
    d = {'containers': [], 'dts': [], 'classes': [], 'rels': []}
    for k in sel('EP_PKG'):
        d['containers'].append({'comp': False, 'id': k.Package_ID, 'name': k.Name,
                                'parent': _parent_of(m, k.Package_ID, pe_by_id)})
    for k in sel('C_C'):
        d['containers'].append({'comp': True, 'id': k.Id, 'name': k.Name, 'parent': _parent_of(m, k.Id, pe_by_id)})
    for x in sel('EP_PKGREF'):
        d.setdefault('pkgrefs', []).append([x.Referring_Package_ID, x.Referred_Package_ID])
    cdt = {x.DT_ID: x for x in sel('S_CDT')}
    edt = {x.DT_ID: x for x in sel('S_EDT')}
    udt = {x.DT_ID: x for x in sel('S_UDT')}
    irdt = {x.DT_ID for x in sel('S_IRDT')}
    sdt = {x.DT_ID for x in sel('S_SDT')}
    enums = {}
    for e in sel('S_ENUM'):
        enums.setdefault(e.EDT_DT_ID, []).append(e)
    for t in sel('S_DT'):
        if t.DT_ID in cdt:
            kind = ['core', cdt[t.DT_ID].Core_Typ]
        elif t.DT_ID in edt:
            es = _chain(enums.get(t.DT_ID, []), lambda e: e.Enum_ID, lambda e: e.Previous_Enum_ID)
            kind = ['enum'] + [e.Name for e in es]
        elif t.DT_ID in udt:
            kind = ['user', udt[t.DT_ID].CDT_DT_ID or 0]
        else:
            kind = ['other']
        d['dts'].append({'id': t.DT_ID, 'name': t.Name, 'kind': kind, 'parent': _parent_of(m, t.DT_ID, pe_by_id),
                         'predef': GLOBAL_DT_BASE <= t.DT_ID < GLOBAL_DT_BASE + 0x100})
        if kind == ['other']:
            d['dts'][-1]['flavour'] = 'irdt' if t.DT_ID in irdt else 'sdt' if t.DT_ID in sdt else 'none'
    battr = {(x.Attr_ID, x.Obj_ID) for x in sel('O_BATTR')}
    dbattr = {(x.Attr_ID, x.Obj_ID) for x in sel('O_DBATTR')}
    rattr = {(x.Attr_ID, x.Obj_ID): x for x in sel('O_RATTR')}
    attrs = {}
    for a in sel('O_ATTR'):
        attrs.setdefault(a.Obj_ID, []).append(a)
    oids = {}
    for i in sel('O_ID'):
        oids.setdefault(i.Obj_ID, []).append(i)
    oidas = {}
    for x in sel('O_OIDA'):
        oidas.setdefault((x.Obj_ID, x.Oid_ID), []).append(x.Attr_ID)
    for c in sel('O_OBJ'):
        al = []
        for a in _chain(attrs.get(c.Obj_ID, []), lambda a: a.Attr_ID, lambda a: a.PAttr_ID):
            key = (a.Attr_ID, a.Obj_ID)
            if key in rattr:
                kind = ['ref', rattr[key].BObj_ID or 0, rattr[key].BAttr_ID or 0]
            elif key in dbattr:
                kind = ['derived', a.DT_ID or 0]
            else:
                kind = ['base', a.DT_ID or 0]
            al.append({'id': a.Attr_ID, 'name': a.Name, 'kind': kind})
        on_chain = {a['id'] for a in al}
        for a in attrs.get(c.Obj_ID, []):
            if a.Attr_ID not in on_chain:           # related across R102 but not on the chain of the first attribute
                key = (a.Attr_ID, a.Obj_ID)
                d.setdefault('loose', []).append([c.Obj_ID, {
                    'id': a.Attr_ID, 'name': a.Name,
                    'kind': ['ref', rattr[key].BObj_ID or 0, rattr[key].BAttr_ID or 0] if key in rattr else
                            ['derived', a.DT_ID or 0] if key in dbattr else ['base', a.DT_ID or 0]}])
        il = [{'num': i.Oid_ID, 'attrs': list(oidas.get((c.Obj_ID, i.Oid_ID), []))} for i in oids.get(c.Obj_ID, [])]
        d['classes'].append({'id': c.Obj_ID, 'kl': c.Key_Lett, 'attrs': al, 'idents': il,
                             'parent': _parent_of(m, c.Obj_ID, pe_by_id)})
    first_by_rel = lambda kind: {x.Rel_ID: x for x in reversed(list(sel(kind)))}        # first row wins
    simp, assoc, subsup, comp = (first_by_rel(k) for k in ('R_SIMP', 'R_ASSOC', 'R_SUBSUP', 'R_COMP'))
    form, aone, aoth, assr, sup = (first_by_rel(k) for k in ('R_FORM', 'R_AONE', 'R_AOTH', 'R_ASSR', 'R_SUPER'))
    parts, subs, nform = {}, {}, {}
    for x in sel('R_PART'):
        parts.setdefault(x.Rel_ID, []).append(x)
    for x in sel('R_SUB'):
        subs.setdefault(x.Rel_ID, []).append(x)
    for x in sel('R_FORM'):
        nform[x.Rel_ID] = nform.get(x.Rel_ID, 0) + 1
    orefs = {}
    for x in sel('O_REF'):
        orefs.setdefault((x.Rel_ID, x.OIR_ID, x.ROIR_ID), []).append([x.Attr_ID, x.RAttr_ID])
    end = lambda x: [x.Obj_ID, bool(x.Mult), bool(x.Cond), x.Txt_Phrs]
    for r in sel('R_REL'):
        rid = r.Rel_ID
        nsub = sum(1 for t in (simp, assoc, subsup, comp) if rid in t)
        ps = parts.get(rid, [])
        kind = None
        if nsub == 1 and rid in simp and rid in form and len(ps) == 1 and nform[rid] == 1:
            f, p = form[rid], ps[0]
            kind = ['simple', end(f), end(p), orefs.get((rid, f.OIR_ID, p.OIR_ID), [])]
        elif nsub == 1 and rid in assoc and rid in aone and rid in aoth and rid in assr:
            o, t, l = aone[rid], aoth[rid], assr[rid]
            kind = ['linked', end(o), end(t), l.Obj_ID, orefs.get((rid, l.OIR_ID, o.OIR_ID), []),
                    orefs.get((rid, l.OIR_ID, t.OIR_ID), [])]
        elif nsub == 1 and rid in subsup and rid in sup:
            s = sup[rid]
            kind = ['subsup', s.Obj_ID, [[b.Obj_ID, orefs.get((rid, b.OIR_ID, s.OIR_ID), [])]
                                        for b in subs.get(rid, [])]]
        elif nsub == 1 and rid in comp:
            kind = ['derived']
        if kind is not None:
            d['rels'].append({'id': rid, 'numb': r.Numb, 'kind': kind, 'parent': _parent_of(m, rid, pe_by_id)})
            continue
        # anything else: row by row
        f = form.get(rid)
        src = f if f is not None else ps[1] if len(ps) > 1 else None
        l, o, t, s = assr.get(rid), aone.get(rid), aoth.get(rid), sup.get(rid)
        w = {'simp': rid in simp, 'assoc': rid in assoc, 'subsup': rid in subsup, 'comp': rid in comp,
             'form': end(f) if f is not None else None, 'parts': [end(p) for p in ps],
             'refs': orefs.get((rid, src.OIR_ID, ps[0].OIR_ID), []) if (src is not None and ps) else [],
             'aone': end(o) if o is not None else None, 'aoth': end(t) if t is not None else None,
             'assr': l.Obj_ID if l is not None else None,
             'refs_one': orefs.get((rid, l.OIR_ID, o.OIR_ID), []) if (l is not None and o is not None) else [],
             'refs_oth': orefs.get((rid, l.OIR_ID, t.OIR_ID), []) if (l is not None and t is not None) else [],
             'super': s.Obj_ID if s is not None else None,
             'subs': [[b.Obj_ID, orefs.get((rid, b.OIR_ID, s.OIR_ID), []) if s is not None else []]
                      for b in subs.get(rid, [])]}
        d.setdefault('rows', []).append({'id': rid, 'numb': r.Numb, 'rows': w, 'parent': _parent_of(m, rid, pe_by_id)})
    return d


def normal_diagram(d):
    """order-insensitive form of a diagram for comparing `decode(load(encode(d)))` with `d`"""
    known = {(k['comp'], k['id']) for k in d['containers']}

    def par(p):
        # a Package_ID / Component_ID that names no row reads back as no parent at all
        return list(p) if p and (p[0] == 'comp', p[1]) in known else None
    loose_cls = {x[0] for x in d.get('loose', [])}
    out = {
        'containers': sorted(([k['comp'], k['id'], k['name'], par(k['parent'])] for k in d['containers']), key=repr),
        'dts': sorted(([t['id'], t['name'], list(t['kind']), par(t['parent'])] for t in d['dts']), key=repr),
        # a class with attributes off the R103 chain: which unchained attribute heads "the" chain is a matter of row
        # order, so all its attributes are compared as a set
        'classes': sorted(([c['id'], c['kl'],
                            [[a['id'], a['name'], list(a['kind'])] for a in c['attrs']] if c['id'] not in loose_cls else
                            ['unordered'] + sorted([a['id'], a['name'], list(a['kind'])] for a in
                                                   c['attrs'] + [x[1] for x in d.get('loose', []) if x[0] == c['id']]),
                            sorted([i['num'], sorted(i['attrs'])] for i in c['idents']), par(c['parent'])]
                           for c in d['classes']), key=repr),
        'rels': [],
        'pkgrefs': sorted(map(list, d.get('pkgrefs', []))),
    }
    # every relationship row by row (a regular relationship and the same one given by its rows compare equal); the
    # Obj_ID of an end is read through R_OIR -> O_OBJ: an end of a class that does not exist reads None
    out['rows'] = []
    have = {c['id'] for c in d['classes']}
    cid = lambda c: c if c in have else None
    end = lambda e: e and [cid(e[0])] + list(e[1:])
    for r in [dict(x, rows=rows_of_kind(x['kind'])) for x in d['rels']] + list(d.get('rows', [])):
        w = r['rows']
        out['rows'].append([r['id'], r['numb'], par(r['parent']),
                            [w['simp'], w['assoc'], w['subsup'], w['comp']], end(w['form']),
                            [end(p) for p in w['parts']], sorted(map(list, w['refs'])),
                            end(w['aone']), end(w['aoth']), w['assr'] and cid(w['assr']),
                            sorted(map(list, w['refs_one'])), sorted(map(list, w['refs_oth'])), w['super'] and cid(w['super']),
                            sorted([cid(sb[0]), sorted(map(list, sb[1]))] for sb in w['subs'])])
    out['rows'].sort(key=repr)
    return out


# --------------------------------------------------------------------------- consistency cross-check

def check_population(m, kinds=None):
    """association integrity and uniqueness of the ooaofooa population, restricted to associations
    whose two classes are both populated by the encoder; returns a list of complaints"""
    import xtuml.consistency_check as cc
    kinds = set(kinds or POPULATED)
    bad = []
    n_comp = len(m.select_many('R_COMP'))
    for ass in m.associations:
        a, b = ass.source_link.to_metaclass.kind, ass.target_link.to_metaclass.kind
        if a in kinds and b in kinds:
            for link in (ass.source_link, ass.target_link):
                n = cc.check_link_integrity(m, link)
                if ass.rel_id == 'R201' and link.from_metaclass.kind == 'R_REL' and link.to_metaclass.kind == 'R_OIR':
                    n -= n_comp     # a derived relationship (R_COMP) is encoded without its R_CONE / R_COTH ends
                if n:
                    bad.append('%s: %d integrity violation(s) %s -> %s' % (ass.rel_id, n, link.from_metaclass.kind,
                                                                          link.to_metaclass.kind))
    for k in sorted(kinds):
        n = cc.check_uniqueness_constraint(m, k)
        if n:
            bad.append('%s: %d uniqueness violation(s)' % (k, n))
    return bad


# --------------------------------------------------------------------------- wire format (Lean side)

def _p_sexp(p):
    return Sym('none') if not p else [Sym(p[0]), p[1]]


def diagram_sexp(d):
    def kind_dt(k):
        if k[0] == 'core':
            return [Sym('core'), k[1]]
        if k[0] == 'enum':
            return [Sym('enum')] + list(k[1:])
        if k[0] == 'user':
            return [Sym('user'), k[1]]
        return Sym('other')

    def end(e):
        return [e[0], bool(e[1]), bool(e[2]), e[3]]

    def kind_rel(k):
        if k[0] == 'simple':
            return [Sym('simple'), end(k[1]), end(k[2]), [list(x) for x in k[3]]]
        if k[0] == 'linked':
            return [Sym('linked'), end(k[1]), end(k[2]), k[3], [list(x) for x in k[4]], [list(x) for x in k[5]]]
        if k[0] == 'subsup':
            return [Sym('subsup'), k[1], [[s[0], [list(x) for x in s[1]]] for s in k[2]]]
        if k[0] == 'derived':
            return Sym('derived')
        raise ValueError('relationship kind %r has no model counterpart' % (k[0],))

    return [
        [[Sym('C' if k['comp'] else 'P'), k['id'], k['name'], _p_sexp(k['parent'])] for k in d['containers']],
        [[t['id'], t['name'], kind_dt(t['kind']), _p_sexp(t['parent'])] for t in d['dts']],
        [[c['id'], c['kl'], [[a['id'], a['name'], [Sym(a['kind'][0])] + list(a['kind'][1:])] for a in c['attrs']],
          [[i['num'], list(i['attrs'])] for i in c['idents']], _p_sexp(c['parent'])] for c in d['classes']],
        [[r['id'], r['numb'], kind_rel(r['kind']), _p_sexp(r['parent'])] for r in d['rels']],
    ] + ([[[x[0], [x[1]['id'], x[1]['name'], [Sym(x[1]['kind'][0])] + list(x[1]['kind'][1:])]] for x in d.get('loose', [])]]
         if (d.get('loose') or d.get('rows') or d.get('pkgrefs')) else []) + (
        [[_rowrel_sexp(r) for r in d.get('rows') or []]] if (d.get('rows') or d.get('pkgrefs')) else []) + (
        # --- pkgref-in-model: the EP_PKGREF rows (referring, referred) as the optional 7th element
        [[[x[0], x[1]] for x in d['pkgrefs']]] if d.get('pkgrefs') else [])


def _rowrel_sexp(r):
    w = r['rows']
    end = lambda e: Sym('none') if e is None else [e[0], bool(e[1]), bool(e[2]), e[3]]
    opt = lambda x: Sym('none') if x is None else x
    refs = lambda rs: [list(x) for x in rs]
    return [r['id'], r['numb'],
            [[bool(w['simp']), bool(w['assoc']), bool(w['subsup']), bool(w['comp'])], end(w['form']),
             [end(p) for p in w['parts']], refs(w['refs']), end(w['aone']), end(w['aoth']), opt(w['assr']),
             refs(w['refs_one']), refs(w['refs_oth']), opt(w['super']), [[sb[0], refs(sb[1])] for sb in w['subs']]],
            _p_sexp(r['parent'])]


# --------------------------------------------------------------------------- the specification in Python (oracle)

def _find(items, key, val):
    for it in items:
        if it[key] == val:
            return it
    return None


def py_contained(d, root, parent, depth=0):
    """is a PE_PE with this parent inside the component `root`: walk up the containment; the elements of a package are
    also inside wherever a package REFERRING to it (EP_PKGREF, R1402) lies.  Bounded (acyclic populations only)."""
    if not parent or depth > 2 * len(d['containers']) + 2:
        return False
    k = next((k for k in d['containers'] if k['comp'] == (parent[0] == 'comp') and k['id'] == parent[1]), None)
    if k is None:
        return False                    # a Package_ID / Component_ID that names no row is no container
    if parent[0] == 'comp':
        return parent[1] == root or py_contained(d, root, k['parent'], depth + 1)
    if py_contained(d, root, k['parent'], depth + 1):
        return True
    for referring, referred in d.get('pkgrefs', []):
        if referred == parent[1]:
            q = next((c for c in d['containers'] if not c['comp'] and c['id'] == referring), None)
            if q is not None and py_contained(d, root, q['parent'], depth + 1):
                return True
    return False


def py_global(d, parent):
    for _ in range(len(d['containers']) + 2):
        if not parent:
            return True
        if parent[0] == 'comp':
            return not any(k['comp'] and k['id'] == parent[1] for k in d['containers'])
        k = next((k for k in d['containers'] if not k['comp'] and k['id'] == parent[1]), None)
        if k is None:
            return True
        parent = k['parent']
    return True


def py_select_comp(d, name):
    """-> ('ok', comp id | None) | ('error',)"""
    if name is None:
        return ('ok', None)
    for k in d['containers']:
        if k['comp'] and k['name'] == name:
            return ('ok', k['id'])
    return ('ok', None) if name == '' else ('error',)


def py_in_scope(d, comp, parent):
    return True if comp is None else py_contained(d, comp, parent)


def py_dt_type(d, dt):
    """the pyxtuml type of a data type: core 1..5 -> NAME, enumeration -> INTEGER, user type -> its base's"""
    for _ in range(len(d['dts']) + 2):
        t = _find(d['dts'], 'id', dt)
        if t is None:
            return None
        k = t['kind']
        if k[0] == 'core':
            return t['name'].upper() if 1 <= k[1] <= 5 else None
        if k[0] == 'enum':
            return 'INTEGER'
        if k[0] == 'user':
            dt = k[1]
            continue
        return None
    return None


def py_attr_dt(d, a):
    k = a['kind']
    if k[0] in ('base', 'derived'):
        return k[1]
    c = _find(d['classes'], 'id', k[1])
    b = _find(c['attrs'], 'id', k[2]) if c else None
    if b is not None and b['kind'][0] in ('base', 'derived'):
        return b['kind'][1]
    return None


def py_extract(d, comp, drv):
    """the schema a component must define, in canonical form (see canon_metamodel)"""
    classes = []
    for c in d['classes']:
        if not py_in_scope(d, comp, c['parent']):
            continue
        attrs = []
        for a in c['attrs']:
            if a['kind'][0] == 'derived' and not drv:
                continue
            dt = py_attr_dt(d, a)
            ty = py_dt_type(d, dt) if dt is not None else None
            if ty:
                attrs.append([a['name'], ty])
        idents = []
        for i in c['idents']:
            al = [_find(c['attrs'], 'id', x) for x in i['attrs']]
            al = [a for a in al if a is not None]
            if not al or (not drv and any(a['kind'][0] == 'derived' for a in al)):
                continue
            idents.append([i['num'] + 1, sorted(a['name'] for a in al)])
        classes.append([c['kl'], attrs, sorted(idents)])
    groups = []

    def cls(i):
        return _find(d['classes'], 'id', i)

    def names(c, ids):
        return [_find(c['attrs'], 'id', i)['name'] for i in ids]

    def assoc(sc, tc, rs, smany, scond, sphrase, tmany, tcond, tphrase):
        pairs = sorted(zip(names(sc, [x[0] for x in rs]), names(tc, [x[1] for x in rs])))
        return [[sc['kl'], [p[0] for p in pairs], bool(smany), bool(scond), sphrase],
                [tc['kl'], [p[1] for p in pairs], bool(tmany), bool(tcond), tphrase]]

    for r in d['rels']:
        if not py_in_scope(d, comp, r['parent']):
            continue
        k = r['kind']
        items = []
        if k[0] == 'simple':
            f, p = k[1], k[2]
            refl = f[0] == p[0]
            items.append(assoc(cls(f[0]), cls(p[0]), k[3], f[1], f[2], p[3] if refl else '',
                               p[1], p[2], f[3] if refl else ''))
        elif k[0] == 'linked':
            o, t, l = k[1], k[2], cls(k[3])
            refl = o[0] == t[0]
            items.append(assoc(l, cls(o[0]), k[4], t[1], t[2], o[3] if refl else '', False, False, t[3] if refl else ''))
            items.append(assoc(l, cls(t[0]), k[5], o[1], o[2], t[3] if refl else '', False, False, o[3] if refl else ''))
        elif k[0] == 'subsup':
            for sub, rs in k[2]:
                items.append(assoc(cls(sub), cls(k[1]), rs, False, True, '', False, False, ''))
        if items:
            groups.append([r['numb'], _stable_by_src(items)])
    return [sorted(classes, key=lambda c: c[0]), sorted(groups, key=lambda g: g[0])]


def py_sql_text(d, comp, drv):
    """the text gen_sql_schema.main must write for a diagram whose rows are in modeled order
    (xtuml.persist_database of the component): per class, sorted by upper-cased key letters, CREATE TABLE and its
    CREATE UNIQUE INDEX lines; then the CREATE ROP lines, stably sorted by 'R<n>' as text"""
    out = []
    scoped = [c for c in d['classes'] if py_in_scope(d, comp, c['parent'])]
    for c in sorted(scoped, key=lambda c: c['kl'].upper()):
        cols = []
        for a in c['attrs']:
            if a['kind'][0] == 'derived' and not drv:
                continue
            dt = py_attr_dt(d, a)
            ty = py_dt_type(d, dt) if dt is not None else None
            if ty:
                cols.append('%s %s' % (a['name'], ty.upper()))
        out.append('CREATE TABLE %s (\n    %s\n);\n' % (c['kl'], ',\n    '.join(cols)))
        seen = {}
        for i in c['idents']:
            al = [x for x in (_find(c['attrs'], 'id', y) for y in i['attrs']) if x is not None]
            if not al or (not drv and any(a['kind'][0] == 'derived' for a in al)):
                continue
            seen['I%d' % (i['num'] + 1)] = [a['name'] for a in al]       # a dict: a repeated number overwrites
        for name, names in seen.items():
            out.append('CREATE UNIQUE INDEX %s ON %s (%s);\n' % (name, c['kl'], ', '.join(names)))

    def cls(i):
        return _find(d['classes'], 'id', i)

    def end(many, cond, c, keys, phrase):
        s = '%s%s %s (%s)' % ('M' if many else '1', 'C' if cond else '', c['kl'], ', '.join(keys))
        return s + (" PHRASE '%s'" % phrase.replace("'", "''") if phrase else '')

    def names(c, ids):
        return [_find(c['attrs'], 'id', i)['name'] for i in ids]

    rops = []

    def rop(numb, sc, tc, rs, smany, scond, sphrase, tmany, tcond, tphrase):
        rops.append(('R%d' % numb, 'CREATE ROP REF_ID R%d FROM %s TO %s;\n' % (
            numb, end(smany, scond, sc, names(sc, [x[0] for x in rs]), sphrase),
            end(tmany, tcond, tc, names(tc, [x[1] for x in rs]), tphrase))))

    for r in d['rels']:
        if not py_in_scope(d, comp, r['parent']):
            continue
        k = r['kind']
        if k[0] == 'simple':
            f, p = k[1], k[2]
            refl = f[0] == p[0]
            rop(r['numb'], cls(f[0]), cls(p[0]), k[3], f[1], f[2], p[3] if refl else '', p[1], p[2], f[3] if refl else '')
        elif k[0] == 'linked':
            o, t, l = k[1], k[2], cls(k[3])
            refl = o[0] == t[0]
            rop(r['numb'], l, cls(o[0]), k[4], t[1], t[2], o[3] if refl else '', False, False, t[3] if refl else '')
            rop(r['numb'], l, cls(t[0]), k[5], o[1], o[2], t[3] if refl else '', False, False, o[3] if refl else '')
        elif k[0] == 'subsup':
            for sub, rs in k[2]:
                rop(r['numb'], cls(sub), cls(k[1]), rs, False, True, '', False, False, '')
    for _, line in sorted(rops, key=lambda x: x[0]):
        out.append(line)
    return ''.join(out)


def py_resolved(d, comp):
    """every class and attribute a relationship in scope refers to exists (otherwise the extractor dereferences None)"""
    def pair(rgo, rto, rs):
        rc, tc = _find(d['classes'], 'id', rgo), _find(d['classes'], 'id', rto)
        return rc is not None and tc is not None and all(
            _find(rc['attrs'], 'id', x[0]) is not None and _find(tc['attrs'], 'id', x[1]) is not None for x in rs)
    for r in d['rels']:
        if not py_in_scope(d, comp, r['parent']):
            continue
        k = r['kind']
        if k[0] == 'simple' and not pair(k[1][0], k[2][0], k[3]):
            return False
        if k[0] == 'linked' and not (pair(k[3], k[1][0], k[4]) and pair(k[3], k[2][0], k[5])):
            return False
        if k[0] == 'subsup' and not (_find(d['classes'], 'id', k[1]) is not None and all(pair(s[0], k[1], s[1]) for s in k[2])):
            return False
    return True


def break_resolution(rng, d, fresh):
    """a copy of `d` in which one relationship names a class or an attribute that does not exist; None if `d` has no
    relationship with classes"""
    import copy
    cands = [i for i, r in enumerate(d['rels']) if r['kind'][0] in ('simple', 'linked', 'subsup')]
    if not cands:
        return None
    d = copy.deepcopy(d)
    r = d['rels'][rng.choice(cands)]
    k = r['kind']
    ghost = fresh()
    lists = [k[3]] if k[0] == 'simple' else [k[4], k[5]] if k[0] == 'linked' else [s[1] for s in k[2]]
    refs = [x for l in lists for x in l]
    if refs and rng.random() < 0.5:
        x = rng.choice(refs)
        x[rng.choice([0, 1])] = ghost                   # an O_REF whose attribute row is missing
    elif k[0] == 'simple':
        k[rng.choice([1, 2])][0] = ghost                # R_FORM / R_PART of a class that is missing
    elif k[0] == 'linked':
        j = rng.choice([1, 2, 3])
        if j == 3:
            k[3] = ghost
        else:
            k[j][0] = ghost
    else:
        if rng.random() < 0.5:
            k[1] = ghost
        else:
            rng.choice(k[2])[0] = ghost
    return d


def empty_rows():
    return {'simp': False, 'assoc': False, 'subsup': False, 'comp': False, 'form': None, 'parts': [], 'refs': [],
            'aone': None, 'aoth': None, 'assr': None, 'refs_one': [], 'refs_oth': [], 'super': None, 'subs': []}


def rows_of_kind(k):
    """the rows of a relationship of one of the four regular shapes"""
    w = empty_rows()
    if k[0] == 'simple':
        w.update(simp=True, form=list(k[1]), parts=[list(k[2])], refs=[list(x) for x in k[3]])
    elif k[0] == 'linked':
        w.update(assoc=True, aone=list(k[1]), aoth=list(k[2]), assr=k[3], refs_one=[list(x) for x in k[4]],
                 refs_oth=[list(x) for x in k[5]])
    elif k[0] == 'subsup':
        w.update(subsup=True, super=k[1], subs=[[s[0], [list(x) for x in s[1]]] for s in k[2]])
    else:
        w.update(comp=True)
    return w


def py_rows_class(d, w):
    """what a row-given relationship is, read off the rows alone (the table of lean/Props/C14.lean):
         'no-subtype'                 no R206 subtype row                       (mk_association: TypeError)
         'silent'                     R_COMP, or a subtype relationship without subtypes
         'incomplete'                 an end row is missing                     (AttributeError)
         'unresolved'                 a class / attribute row it names is missing (AttributeError)
         'formalised' | 'unformalised' | 'partly-formalised'   all rows there: does every association have O_REFs"""
    kind = 'linked' if w['assoc'] else 'comp' if w['comp'] else 'simple' if w['simp'] else 'subsup' if w['subsup'] else None
    if kind is None:
        return 'no-subtype'
    if kind == 'comp' or (kind == 'subsup' and not w['subs']):
        return 'silent'

    def pair(rgo, rto, rs):
        rc, tc = _find(d['classes'], 'id', rgo), _find(d['classes'], 'id', rto)
        return rc is not None and tc is not None and all(
            _find(rc['attrs'], 'id', x[0]) is not None and _find(tc['attrs'], 'id', x[1]) is not None for x in rs)
    if kind == 'linked':
        if w['aone'] is None or w['aoth'] is None or w['assr'] is None:
            return 'incomplete'
        ok = pair(w['assr'], w['aone'][0], w['refs_one']) and pair(w['assr'], w['aoth'][0], w['refs_oth'])
        lists = [w['refs_one'], w['refs_oth']]
    elif kind == 'simple':
        src = w['form'] if w['form'] else (w['parts'][1] if len(w['parts']) > 1 else None)
        if src is None or not w['parts']:
            return 'incomplete'
        ok = pair(src[0], w['parts'][0][0], w['refs'])
        lists = [w['refs'] if w['form'] else []]          # without R_FORM a simple relationship is not formalised
    else:
        if w['super'] is None:
            return 'incomplete'
        ok = all(pair(sb[0], w['super'], sb[1]) for sb in w['subs'])
        lists = [sb[1] for sb in w['subs']]
    if not ok:
        return 'unresolved'
    n = sum(1 for l in lists if l)
    return 'formalised' if n == len(lists) else 'unformalised' if n == 0 else 'partly-formalised'


def gen_row_rels(rng, d, fresh, want=None):
    """add relationships outside the formalised shapes to a copy of diagram `d`: returns (diagram, [labels]).
    Regular shapes with EMPTY O_REF lists stay in 'rels' (the regular model covers them), everything else goes to 'rows'.
    At most one relationship that makes mk_association raise."""
    import copy
    d = copy.deepcopy(d)
    d.setdefault('rows', [])
    cl = [c for c in d['classes']]
    used = {r['numb'] for r in d['rels']}
    numbs = [n for n in range(40, 70) if n not in used]
    rng.shuffle(numbs)
    labels = []

    def end(c):
        return [c['id'], rng.random() < 0.5, rng.random() < 0.5, rng.choice(PHRASES) + (' %d' % rng.randint(1, 99))]

    def parent_of(c):
        return c['parent']

    formal = [r for r in d['rels'] if r['kind'][0] in ('simple', 'linked', 'subsup')]
    benign = ['unformal', 'unformal', 'unformal-reflexive', 'linked-unformal', 'linked-unformal-rows', 'sub-unformal',
              'zero-subs', 'zero-subs-no-super', 'comp-rows', 'unformal', 'form-two-parts', 'two-subtypes-comp',
              'linked-half', 'two-subtypes-simp']
    faulty = ['no-subtype', 'one-part', 'form-only', 'simp-bare', 'linked-no-aone', 'linked-no-aoth', 'linked-no-assr',
              'linked-bare', 'subs-no-super', 'two-subtypes-assoc', 'unformal-ghost']
    picks = [rng.choice(benign) for _ in range(rng.randint(1, 3))]
    if rng.random() < 0.45:
        picks.insert(rng.randint(0, len(picks)), rng.choice(faulty))
    if want:
        picks = list(want)
    for what in picks:
        if not numbs or not cl:
            break
        a, b, c = rng.choice(cl), rng.choice(cl), rng.choice(cl)
        w = empty_rows()
        rid, numb = fresh(), numbs.pop()
        as_rel = None
        par = parent_of(a)
        if what in ('unformal', 'unformal-reflexive', 'unformal-ghost'):
            if what == 'unformal-reflexive':
                b = a
            w.update(simp=True, parts=[end(a), end(b)])
            if what == 'unformal-ghost':
                w['parts'][rng.choice([0, 1])][0] = fresh()         # a participant whose class row is missing
        elif what == 'form-two-parts':
            # (an unformalised relationship never has O_REF rows that count: O_REF.OIR_ID is read through R111 to an
            # R_RGO row, which a participant does not have)
            src = [r for r in formal if r['kind'][0] == 'simple']
            if not src:
                continue
            r0 = rng.choice(src)
            k = r0['kind']
            w.update(simp=True, form=list(k[1]), parts=[list(k[2]), end(c)], refs=[list(x) for x in k[3]])
            par = r0['parent']
        elif what in ('linked-unformal', 'linked-unformal-rows', 'linked-half'):
            if what == 'linked-half':
                src = [r for r in formal if r['kind'][0] == 'linked']
                if not src:
                    continue
                r0 = rng.choice(src)
                k = copy.deepcopy(r0['kind'])
                k[rng.choice([4, 5])] = []
                as_rel, par = k, r0['parent']
            else:
                k = ['linked', end(a), end(b if rng.random() < 0.7 else a), c['id'], [], []]
                if what == 'linked-unformal':
                    as_rel = k
                else:
                    w = rows_of_kind(k)
                    w['comp'] = rng.random() < 0.3          # R_ASSOC is looked up before R_COMP
        elif what == 'sub-unformal':
            others = [x for x in cl if x is not a]
            if not others:
                continue
            as_rel = ['subsup', a['id'], [[x['id'], []] for x in rng.sample(others, rng.randint(1, min(2, len(others))))]]
        elif what == 'zero-subs':
            as_rel = ['subsup', a['id'], []]
        elif what == 'zero-subs-no-super':
            w.update(subsup=True)
        elif what == 'comp-rows':
            w.update(comp=True, simp=rng.random() < 0.5, subsup=rng.random() < 0.3)
            if w['simp'] and rng.random() < 0.5:
                w['parts'] = [end(a)]           # (end rows are reachable only through their own subtype row)
        elif what == 'two-subtypes-comp':
            w.update(comp=True, simp=True, parts=[end(a), end(b)])
        elif what == 'two-subtypes-simp':
            w.update(simp=True, subsup=True, parts=[end(a), end(b)], subs=[[c['id'], []]])      # R_SIMP before R_SUBSUP
        elif what == 'two-subtypes-assoc':
            w.update(assoc=True, simp=True, parts=[end(a), end(b)])         # R_ASSOC wins, and has no rows
        elif what == 'no-subtype':
            pass
        elif what == 'one-part':
            w.update(simp=True, parts=[end(a)])
        elif what == 'form-only':
            w.update(simp=True, form=end(a))
        elif what == 'simp-bare':
            w.update(simp=True)
        elif what.startswith('linked-'):
            w.update(assoc=True, aone=end(a), aoth=end(b), assr=c['id'])
            drop = {'linked-no-aone': ['aone'], 'linked-no-aoth': ['aoth'], 'linked-no-assr': ['assr'],
                    'linked-bare': ['aone', 'aoth', 'assr']}[what]
            for key in drop:
                w[key] = None
        elif what == 'subs-no-super':
            w.update(subsup=True, subs=[[b['id'], []]])
        else:
            raise ValueError(what)
        if rng.random() < 0.15:
            k0 = rng.choice(d['containers'])
            par = ['comp' if k0['comp'] else 'pkg', k0['id']]
        if as_rel is not None:
            d['rels'].append({'id': rid, 'numb': numb, 'kind': as_rel, 'parent': par})
        else:
            d['rows'].append({'id': rid, 'numb': numb, 'rows': w, 'parent': par})
        labels.append(what)
    return d, labels


def py_definable(schema):
    """can every define_class / define_association call for this (canonical) schema succeed: class names distinct
    when upper-cased, both classes of every association defined, every target key an attribute of the target"""
    kls = [c[0].upper() for c in schema[0]]
    if len(set(kls)) != len(kls):
        return False
    attrs = {c[0].upper(): {a[0].upper() for a in c[1]} for c in schema[0]}
    for g in schema[1]:
        for src, tgt in g[1]:
            if src[0].upper() not in attrs or tgt[0].upper() not in attrs:
                return False
            if len(src[1]) != len(tgt[1]):
                return False
            if any(k.upper() not in attrs[tgt[0].upper()] for k in tgt[1]):
                return False
    return True


def _relkey(x):
    return (0, x, '') if isinstance(x, int) else (1, 0, str(x))


def _stable_by_src(items):
    """the associations defined for one relationship, in an order that does not depend on the order of the
    define_association calls (R_SUB rows are unordered; the order of the two calls for a linked relationship
    is not part of the property): sorted by content"""
    import json
    return sorted(items, key=lambda a: json.dumps(a, sort_keys=True))


# --------------------------------------------------------------------------- canonical observations

def canon_metamodel(c):
    """canonical form of the definitions held by a built pyxtuml metamodel:
       [[kl, [[attr, TYPE]...], [[num, [sorted names]]...]] sorted by kl,
        [[rel number, [[[src kind, keys, many, cond, phrase], [tgt ...]]...]] sorted by number]]
    key pairs are sorted as pairs; the associations of one relationship are sorted by content"""
    classes = []
    for kind in c.metaclasses:
        mc = c.metaclasses[kind]
        idents = []
        for name, names in mc.indices.items():
            num = int(name[1:]) if re.match(r'^I\d+$', name) else name
            idents.append([num, sorted(names)])
        classes.append([mc.kind, [[n, t.upper()] for n, t in mc.attributes], sorted(idents, key=repr)])
    groups = []
    for ass in c.associations:
        pairs = sorted(zip(ass.source_keys, ass.target_keys))
        src = [ass.source_link.to_metaclass.kind, [p[0] for p in pairs], bool(ass.source_link.many),
               bool(ass.source_link.conditional), ass.target_link.phrase]
        tgt = [ass.target_link.to_metaclass.kind, [p[1] for p in pairs], bool(ass.target_link.many),
               bool(ass.target_link.conditional), ass.source_link.phrase]
        m = re.match(r'^R(\d+)$', str(ass.rel_id))
        rel = int(m.group(1)) if m else str(ass.rel_id)
        if groups and groups[-1][0] == rel:
            groups[-1][1].append([src, tgt])
        else:
            groups.append([rel, [[src, tgt]]])
    groups = [[g[0], _stable_by_src(g[1])] for g in groups]
    return [sorted(classes, key=lambda k: k[0]), sorted(groups, key=lambda g: _relkey(g[0]))]


def canon_schema_sexp(s):
    """the same canonical form from the Lean driver's schema s-expression"""
    classes = []
    for kl, attrs, idents in s[0]:
        classes.append([kl, [[a[0], a[1]] for a in attrs], sorted([i[0], sorted(i[1:])] for i in idents)])
    groups = []
    for g in s[1]:
        items = []
        for src, tgt in g[1:]:
            pairs = sorted(zip(src[1], tgt[1]))
            items.append([[src[0], [p[0] for p in pairs], src[2] == 'T', src[3] == 'T', src[4]],
                          [tgt[0], [p[1] for p in pairs], tgt[2] == 'T', tgt[3] == 'T', tgt[4]]])
        if items:
            groups.append([g[0], _stable_by_src(items)])
    return [sorted(classes, key=lambda k: k[0]), sorted(groups, key=lambda g: _relkey(g[0]))]


# --------------------------------------------------------------------------- edits (diagram level and population level)
#   ['rename', cls, attr, new] ['retype', cls, attr, dt] ['reorder', cls, [attr...]]
#   ['mult'|'cond', rel, 'form'|'part'|'one'|'oth', bool] ['phrase', rel, end, text]
#   ['move-class', cls, P] ['move-rel', rel, P]

END_TABLE = {'form': 'R_FORM', 'part': 'R_PART', 'one': 'R_AONE', 'oth': 'R_AOTH'}
END_INDEX = {'simple': {'form': 1, 'part': 2}, 'linked': {'one': 1, 'oth': 2}}


def edit_sexp(e):
    k = e[0]
    if k in ('rename', 'retype'):
        return [Sym(k), e[1], e[2], e[3]]
    if k == 'reorder':
        return [Sym(k), e[1], list(e[2])]
    if k in ('mult', 'cond'):
        return [Sym(k), e[1], Sym(e[2]), bool(e[3])]
    if k == 'phrase':
        return [Sym(k), e[1], Sym(e[2]), e[3]]
    if k in ('move-class', 'move-rel'):
        return [Sym(k), e[1], _p_sexp(e[2])]
    raise ValueError(k)


def py_apply_edit(d, e):
    """the edit on the Python diagram (deep-copied)"""
    import copy
    d = copy.deepcopy(d)
    k = e[0]
    if k in ('rename', 'retype', 'reorder', 'move-class'):
        for c in d['classes']:
            if c['id'] != e[1]:
                continue
            if k == 'move-class':
                c['parent'] = list(e[2]) if e[2] else None
            elif k == 'reorder':
                c['attrs'] = [a for i in e[2] for a in [_find(c['attrs'], 'id', i)] if a is not None]
            else:
                for a in c['attrs']:
                    if a['id'] == e[2]:
                        if k == 'rename':
                            a['name'] = e[3]
                        elif a['kind'][0] in ('base', 'derived'):
                            a['kind'] = [a['kind'][0], e[3]]
    else:
        for r in d['rels']:
            if r['id'] != e[1]:
                continue
            if k == 'move-rel':
                r['parent'] = list(e[2]) if e[2] else None
            else:
                idx = END_INDEX.get(r['kind'][0], {}).get(e[2])
                if idx is not None:
                    end = list(r['kind'][idx])
                    end[{'mult': 1, 'cond': 2, 'phrase': 3}[k]] = e[3]
                    r['kind'][idx] = end
    return d


def pop_apply_edit(m, e):
    """the edit on a loaded ooaofooa population: setattr / relate / unrelate"""
    import xtuml
    from xtuml import navigate_one as one, navigate_many as many, where_eq as where
    k = e[0]
    if k == 'rename':
        m.select_any('O_ATTR', where(Attr_ID=e[2], Obj_ID=e[1])).Name = e[3]
    elif k == 'retype':
        o_attr = m.select_any('O_ATTR', where(Attr_ID=e[2], Obj_ID=e[1]))
        new = m.select_any('S_DT', where(DT_ID=e[3]))
        old = one(o_attr).S_DT[114]()
        if old is not None:
            xtuml.unrelate(o_attr, old, 114)
        xtuml.relate(o_attr, new, 114)
    elif k == 'reorder':
        o_obj = m.select_any('O_OBJ', where(Obj_ID=e[1]))
        for a in list(many(o_obj).O_ATTR[102]()):
            nxt = one(a).O_ATTR[103, 'precedes']()
            if nxt is not None:
                xtuml.unrelate(a, nxt, 103, 'precedes')
        order = [m.select_any('O_ATTR', where(Attr_ID=i, Obj_ID=e[1])) for i in e[2]]
        for a, b in zip(order, order[1:]):
            xtuml.relate(a, b, 103, 'precedes')
    elif k in ('mult', 'cond', 'phrase'):
        inst = m.select_any(END_TABLE[e[2]], where(Rel_ID=e[1]))
        if k == 'phrase':
            inst.Txt_Phrs = e[3]
        else:
            setattr(inst, 'Mult' if k == 'mult' else 'Cond', int(bool(e[3])))
    elif k in ('move-class', 'move-rel'):
        pe = m.select_any('PE_PE', where(Element_ID=e[1]))
        pkg, comp = one(pe).EP_PKG[8000](), one(pe).C_C[8003]()
        if pkg is not None:
            xtuml.unrelate(pe, pkg, 8000)
        if comp is not None:
            xtuml.unrelate(pe, comp, 8003)
        if e[2]:
            if e[2][0] == 'pkg':
                xtuml.relate(pe, m.select_any('EP_PKG', where(Package_ID=e[2][1])), 8000)
            else:
                xtuml.relate(pe, m.select_any('C_C', where(Id=e[2][1])), 8003)
    else:
        raise ValueError(k)


def rel_classes(r):
    k = r['kind']
    if k[0] == 'simple':
        return [k[1][0], k[2][0]]
    if k[0] == 'linked':
        return [k[1][0], k[2][0], k[3]]
    if k[0] == 'subsup':
        return [k[1]] + [s[0] for s in k[2]]
    return []


def scope_valid(d, comp):
    """every relationship in scope has all its classes in scope (otherwise define_association raises)"""
    if comp is None:
        return True
    inside = {c['id'] for c in d['classes'] if py_contained(d, comp, c['parent'])}
    for r in d['rels']:
        if py_contained(d, comp, r['parent']) and any(c not in inside for c in rel_classes(r)):
            return False
    return True


# --------------------------------------------------------------------------- generator

WORDS = ['id', 'name', 'kind', 'val', 'count', 'flag', 'size', 'code', 'tag', 'key', 'x', 'y', 'level', 'Owner',
         'Part_no', 'amount', 'state_n', 'label', 'Serial', 'weight', 'Rank', 'mode', 'begin_t', 'Until']
PHRASES = ['is above', 'is below', 'owns', 'is owned by', 'precedes', 'follows', 'has', 'is part of', 'leads', 'reports to',
           'one', 'other', 'refers to', 'is referenced by']
KLS = ['A', 'B', 'C', 'D', 'E', 'F', 'G', 'H', 'Dog', 'Cat', 'Owner', 'Leash', 'Node', 'Edge', 'Item', 'Order_Line', 'X_1',
       'Sub1', 'Sub2', 'Sup', 'Link', 'Acct']


def gen_diagram(rng, max_classes=5, special_names=False, ensure_bare=False, ensure_unsupported=False,
                ensure_empty_name=False, ensure_dangling_parent=False, empty_enum=False, loose_attrs=False,
                dup_type_names=False, twin_idents=False, dup_key_letters=False, dup_rel_numbers=False,
                core_named_types=False):
    """a random well-formed class diagram; returns the diagram.  Every identifier is fresh (one counter)."""
    counter = [0]

    def nid():
        counter[0] += 1
        return counter[0]

    special = ['a&b', 'x<y', 'q"t', "o'k", 'p>q', 'Ünï', 'sp ace', '&amp;', ']]>', '&#10;'] if special_names else []
    d = {'containers': [], 'dts': predefined_dts(), 'classes': [], 'rels': []}
    # containers
    d['containers'].append({'comp': False, 'id': nid(), 'name': 'Top', 'parent': None})
    ncont = rng.randint(1, 6)
    ncomp = 0
    for i in range(ncont):
        is_comp = rng.random() < 0.45
        parents = [k for k in d['containers']]
        par = rng.choice(parents) if (is_comp or rng.random() < 0.85) else None
        p = None if par is None else ['comp' if par['comp'] else 'pkg', par['id']]
        if is_comp:
            ncomp += 1
            name = 'Comp%d' % ncomp if not (special and rng.random() < 0.4) else rng.choice(special) + str(ncomp)
        else:
            name = 'Pkg%d' % (i + 1)
        d['containers'].append({'comp': is_comp, 'id': nid(), 'name': name, 'parent': p})

    def some_parent(p_none=0.1):
        if rng.random() < p_none:
            return None
        k = rng.choice(d['containers'])
        return ['comp' if k['comp'] else 'pkg', k['id']]

    # data types
    for i in range(rng.randint(0, 2)):
        n = rng.randint(0, 4)
        pool = ['E%d_%d' % (i, j) for j in range(6)] + special
        names = rng.sample(pool, n)
        nm = 'Enum%d' % i if not (special and rng.random() < 0.5) else rng.choice(special) + 'E%d' % i
        d['dts'].append({'id': nid(), 'name': nm, 'kind': ['enum'] + names, 'parent': some_parent(0.2), 'predef': False})
    for i in range(rng.randint(0, 3)):
        base = rng.choice(d['dts'])
        nm = 'User%d' % i if not (special and rng.random() < 0.5) else rng.choice(special) + 'U%d' % i
        d['dts'].append({'id': nid(), 'name': nm, 'kind': ['user', base['id']], 'parent': some_parent(0.2), 'predef': False})
    # the empty data type name: Python tests names for truthiness, so such a type types no attribute and is no base
    if rng.random() < 0.1 or ensure_empty_name:
        # (an enumeration named '' makes mk_component's namedtuple fail: only where the XSD generator is the subject)
        shape = rng.choice(['enum', 'user', 'core'] if empty_enum else ['user', 'core'])
        kind = ['enum', 'e1', 'e2'] if shape == 'enum' else ['user', rng.choice(d['dts'])['id']] if shape == 'user' \
            else ['core', rng.randint(1, 5)]
        d['dts'].append({'id': nid(), 'name': '', 'kind': kind, 'parent': some_parent(0.2), 'predef': False})
        if rng.random() < 0.6:
            d['dts'].append({'id': nid(), 'name': 'OfEmpty', 'kind': ['user', d['dts'][-1]['id']], 'parent': some_parent(0.2),
                             'predef': False})
    # a data type whose PE_PE names a component that does not exist: global for is_global, contained nowhere
    if ensure_dangling_parent or rng.random() < 0.05:
        d['dts'].append({'id': nid(), 'name': 'Lost', 'kind': ['enum', 'l1'], 'parent': ['comp', nid()], 'predef': False})
    # data types no branch of the code looks at: structured (S_SDT), instance reference (S_IRDT), no subtype row
    for nm, flavour, p in (('Struct0', 'sdt', 0.3), ('inst_ref<Node>', 'irdt', 0.3), ('inst_ref_set<Node>', 'irdt', 0.15),
                           ('Bare_dt', 'none', 0.15)):
        if rng.random() < p or (ensure_unsupported and flavour == 'irdt' and nm == 'inst_ref<Node>'):
            d['dts'].append({'id': nid(), 'name': nm, 'kind': ['other'], 'flavour': flavour, 'parent': some_parent(0.2),
                             'predef': False})
    named_like_core = []
    if core_named_types:
        # user data types, enumerations and structured types that carry the NAME of a core type (any letter case) while
        # their own mapping is another one: a type is mapped by what it IS (R17 subtype, R18 base), never by its name
        cores = [t for t in d['dts'] if t['kind'][0] == 'core' and 1 <= t['kind'][1] <= 5]
        for nm in rng.sample(['Real', 'Unique_ID', 'Boolean', 'STRING', 'String', 'integer', 'REAL', 'boolean', 'unique_id',
                              'Integer'], rng.randint(2, 3)):
            x = rng.random()
            if x < 0.3 and nm.upper() != 'INTEGER':
                kind, flavour = ['enum', 'lo', 'hi'], None
            elif x < 0.45:
                kind, flavour = ['other'], 'sdt'
            else:
                kind, flavour = ['user', rng.choice([c for c in cores if c['name'].upper() != nm.upper()])['id']], None
            t = {'id': nid(), 'name': nm, 'kind': kind, 'parent': some_parent(0.2), 'predef': False}
            if flavour:
                t['flavour'] = flavour
            d['dts'].append(t)
            named_like_core.append(t)
    supported = [t for t in d['dts'] if py_dt_type(d, t['id'])]
    unsupported = [t for t in d['dts'] if not py_dt_type(d, t['id'])]

    def fresh_name(c, hint=None):
        used = {a['name'].upper() for a in c['attrs']}
        for _ in range(50):
            n = hint or rng.choice(WORDS + special)
            hint = None
            if rng.random() < 0.4:
                n = '%s_%d' % (n, rng.randint(1, 9))
            if n.upper() not in used:
                return n
        return 'attr_%d' % nid()

    def add_attr(c, kind, name=None, pos=None):
        a = {'id': nid(), 'name': fresh_name(c, name), 'kind': kind}
        c['attrs'].insert(rng.randint(0, len(c['attrs'])) if pos is None else pos, a)
        return a

    # classes
    nclasses = rng.randint(1, max_classes)
    kls = rng.sample(KLS, nclasses)
    for kl in kls:
        c = {'id': nid(), 'kl': kl, 'attrs': [], 'idents': [], 'parent': some_parent(0.1)}
        # identifier 0: one or two base attributes of a supported type (always referable)
        prim = [add_attr(c, ['base', rng.choice(supported)['id']]) for _ in range(rng.choice([1, 1, 2]))]
        for _ in range(rng.randint(0, 3)):
            r = rng.random()
            if r < 0.2:
                add_attr(c, ['derived', rng.choice(supported + unsupported[:2])['id']])
            elif r < 0.3 and unsupported:
                add_attr(c, ['base', rng.choice(unsupported)['id']])
            else:
                add_attr(c, ['base', rng.choice(supported)['id']])
        for t in named_like_core:
            if rng.random() < 0.5:
                add_attr(c, ['base', t['id']])
        if named_like_core and rng.random() < 0.5:
            prim[0]['kind'] = ['base', rng.choice([t for t in named_like_core if py_dt_type(d, t['id'])] or supported)['id']]
        c['idents'].append({'num': 0, 'attrs': [a['id'] for a in prim]})
        if twin_idents and rng.random() < 0.6:
            # a second identifier over exactly the same attributes (possibly listed in the other order)
            twin = [a['id'] for a in prim]
            if rng.random() < 0.5:
                twin.reverse()
            c['idents'].append({'num': rng.choice([1, 2]), 'attrs': twin})
        d['classes'].append(c)

    def base_of(cls, attr):
        a = _find(_find(d['classes'], 'id', cls)['attrs'], 'id', attr)
        return (cls, attr) if a['kind'][0] != 'ref' else (a['kind'][1], a['kind'][2])

    def referable(c):
        out = []
        for i in c['idents']:
            al = [_find(c['attrs'], 'id', x) for x in i['attrs']]
            if al and all(a['kind'][0] != 'derived' and py_dt_type(d, py_attr_dt(d, a) or 0) for a in al):
                out.append(i)
        return out

    def formalise(rgo, rto, ident=None):
        """referential attributes in class `rgo` for one identifier of class `rto` -> [REF]"""
        ident = ident or rng.choice(referable(rto))
        refs, used = [], set()
        for ia in ident['attrs']:
            b = base_of(rto['id'], ia)
            reuse = [a for a in rgo['attrs'] if a['kind'] == ['ref', b[0], b[1]] and a['id'] not in used]
            if reuse and rng.random() < 0.25:
                ra = rng.choice(reuse)
            else:
                iname = _find(rto['attrs'], 'id', ia)['name']
                ra = add_attr(rgo, ['ref', b[0], b[1]], name='%s_%s' % (rto['kl'], iname))
            used.add(ra['id'])
            refs.append([ra['id'], ia])
        return refs

    def end(c):
        return [c['id'], rng.random() < 0.5, rng.random() < 0.5, rng.choice(PHRASES) + (' %d' % rng.randint(1, 99))]

    numbs = rng.sample(range(1, 40), 8)
    for i in range(rng.randint(0, min(6, nclasses + 2))):
        r = rng.random()
        cl = d['classes']
        if r < 0.4:
            f = rng.choice(cl)
            p = f if rng.random() < 0.3 else rng.choice(cl)
            kind = ['simple', end(f), end(p), formalise(f, p)]
            where_ = f
        elif r < 0.7:
            o = rng.choice(cl)
            t = o if rng.random() < 0.35 else rng.choice(cl)
            l = rng.choice(cl)
            eo, et = end(o), end(t)
            kind = ['linked', eo, et, l['id'], formalise(l, o), formalise(l, t)]
            where_ = l
        elif r < 0.92 and len(cl) >= 2:
            sup = rng.choice(cl)
            subs = rng.sample([c for c in cl if c is not sup], rng.randint(1, min(3, len(cl) - 1)))
            ident = rng.choice(referable(sup))      # one R_RTO, hence one identifier, for all subtypes
            kind = ['subsup', sup['id'], [[s['id'], formalise(s, sup, ident)] for s in subs]]
            where_ = sup
        else:
            kind = ['derived']
            where_ = rng.choice(cl)
        if kind[0] in ('simple', 'linked') and kind[1][0] == kind[2][0] and rng.random() < 0.35:
            # a reflexive relationship with a phrase at ONE end only (seldom: at neither end)
            kind[rng.choice([1, 2])][3] = ''
            if rng.random() < 0.15:
                kind[1][3] = kind[2][3] = ''
        par = where_['parent'] if rng.random() < 0.85 else some_parent()
        d['rels'].append({'id': nid(), 'numb': numbs[i], 'kind': kind, 'parent': par})
        # later identifiers may contain referential attributes (chains of referentials)
        if rng.random() < 0.4:
            c = rng.choice(cl)
            nums = {x['num'] for x in c['idents']}
            free = [n for n in (1, 2) if n not in nums]
            cand = [a for a in c['attrs'] if a['kind'][0] != 'derived' and py_dt_type(d, py_attr_dt(d, a) or 0)]
            if free and cand:
                c['idents'].append({'num': free[0], 'attrs': [a['id'] for a in rng.sample(cand, min(len(cand), rng.randint(1, 2)))]})
    # classes without any declarable attribute: no attribute at all, only `current_state`, only derived /
    # unsupported ones; never referred to, possibly with an identifier over what they have
    spare = [k for k in KLS if k not in kls]
    for j in range(2):
        if rng.random() < 0.25 or (ensure_bare and j == 0):
            c = {'id': nid(), 'kl': spare[j], 'attrs': [], 'idents': [], 'parent': some_parent(0.1)}
            shape = rng.choice(['empty', 'state', 'derived', 'unsupported'])
            if shape == 'state':
                c['attrs'].append({'id': nid(), 'name': 'current_state', 'kind': ['base', GLOBAL_DT_BASE + 6]})
            elif shape == 'derived':
                c['attrs'].append({'id': nid(), 'name': 'total', 'kind': ['derived', rng.choice(supported)['id']]})
            elif shape == 'unsupported' and unsupported:
                for x in rng.sample(unsupported, min(len(unsupported), rng.randint(1, 2))):
                    add_attr(c, ['base', x['id']])
            if rng.random() < 0.5:
                c['idents'].append({'num': 0, 'attrs': [a['id'] for a in c['attrs']]})
            d['classes'].append(c)
    if ensure_unsupported and d['classes']:
        irdts = [t for t in d['dts'] if t.get('flavour') == 'irdt']
        if irdts:
            add_attr(rng.choice(d['classes']), ['base', rng.choice(irdts)['id']], name='partner')
    # identifiers that are empty or contain derived / unsupported attributes (never referred to)
    for c in d['classes']:
        nums = {x['num'] for x in c['idents']}
        for n in (1, 2):
            if n not in nums and rng.random() < 0.35:
                pick = rng.sample(c['attrs'], rng.randint(0, min(2, len(c['attrs']))))
                c['idents'].append({'num': n, 'attrs': [a['id'] for a in pick]})
    if dup_key_letters and d['classes']:
        # two classes with the same key letters (or key letters that differ in letter case only) in different
        # containers: a build whose scope holds only one of them is unaffected, a scope with both is refused
        comps = [k for k in d['containers'] if k['comp']]
        for _ in range(rng.randint(1, 2)):
            c0 = rng.choice(d['classes'])
            away = [k for k in comps if not py_contained(d, k['id'], c0['parent'])]
            k2 = rng.choice(away) if away else rng.choice(d['containers'])
            kl = c0['kl'] if rng.random() < 0.6 else c0['kl'].swapcase()
            twin = {'id': nid(), 'kl': kl, 'attrs': [], 'idents': [], 'parent': ['comp' if k2['comp'] else 'pkg', k2['id']]}
            prim = add_attr(twin, ['base', rng.choice(supported)['id']])
            for _ in range(rng.randint(0, 2)):
                add_attr(twin, ['base', rng.choice(supported)['id']])
            twin['idents'].append({'num': 0, 'attrs': [prim['id']]})
            d['classes'].append(twin)
            if rng.random() < 0.7:
                free = [n for n in range(1, 40) if n not in {r['numb'] for r in d['rels']}]
                d['rels'].append({'id': nid(), 'numb': rng.choice(free),
                                  'kind': ['simple', end(twin), end(twin), formalise(twin, twin)], 'parent': twin['parent']})
    if dup_rel_numbers and len(d['rels']) >= 2:
        # the same relationship number in two different containers (numbers are unique per package, not per model)
        for _ in range(2):
            r1, r2 = rng.sample(d['rels'], 2)
            if r1['parent'] != r2['parent']:
                r2['numb'] = r1['numb']
                break
    if loose_attrs:
        # take attributes that nothing refers to off the R103 chain (R103 is conditional at both ends): some classes
        # partly, some entirely (only the first attribute keeps its place)
        used = {a for c in d['classes'] for i in c['idents'] for a in i['attrs']}
        used |= {a['kind'][2] for c in d['classes'] for a in c['attrs'] if a['kind'][0] == 'ref'}
        d['loose'] = []
        for c in d['classes']:
            free = [a for a in c['attrs'] if a['id'] not in used and a['kind'][0] != 'ref']
            if not free or rng.random() < 0.3:
                continue
            take = free if rng.random() < 0.4 else rng.sample(free, rng.randint(1, len(free)))
            if len(take) == len(c['attrs']):
                take = [a for a in take if a is not c['attrs'][0]]     # the first attribute keeps its place
            for a in take:
                c['attrs'].remove(a)
                d['loose'].append([c['id'], a])
            if rng.random() < 0.5:
                d['loose'].append([c['id'], {'id': nid(), 'name': 'unchained_%d' % nid(), 'kind': ['base', rng.choice(supported)['id']]}])
    if dup_type_names:
        # two distinct data types with the same name in different scopes (type names are scoped per package): a type of
        # a component named like a global / system-level one, of another kind
        comps = [k for k in d['containers'] if k['comp']]
        for _ in range(rng.randint(1, 2)):
            twin = rng.choice([t for t in d['dts'] if t['name'] and (py_type_name(d, t['id']) or t['kind'][0] == 'enum')] or d['dts'])
            inner = rng.choice(comps) if comps else None
            par = ['comp', inner['id']] if inner else some_parent()
            kind = ['enum', 'lo', 'hi'] if twin['kind'][0] != 'enum' or rng.random() < 0.5 else ['user', GLOBAL_DT_BASE + 2]
            d['dts'].append({'id': nid(), 'name': twin['name'], 'kind': kind, 'parent': par, 'predef': False})
    rng.shuffle(d['classes'])
    rng.shuffle(d['rels'])
    return d


def add_package_references(rng, d, fresh, to_global=True):
    """a copy of `d` with one package reference (a second one could close a cycle through two components): a fresh (empty) package inside a component that REFERS to a package
    outside that component.  Returns (diagram, [names of the components that gained content]) - or (d, []) when nothing fits."""
    import copy
    d = copy.deepcopy(d)
    comps = [k for k in d['containers'] if k['comp']]
    gained = []
    for _ in range(1):
        if not comps:
            break
        c = rng.choice(comps)
        pkgs = [k for k in d['containers'] if not k['comp'] and not py_contained(d, c['id'], k['parent'])
                and not _encloses(d, k, c) and (to_global or not py_global(d, ['pkg', k['id']]))]
        pkgs = [k for k in pkgs if any(x['parent'] == ['pkg', k['id']] for x in d['classes'] + d['dts'] + d['rels'] + d['containers'])] or pkgs
        if not pkgs:
            continue
        p = rng.choice(pkgs)
        host = rng.choice([['comp', c['id']]] + [['pkg', k['id']] for k in d['containers']
                                                 if not k['comp'] and py_contained(d, c['id'], k['parent'])])
        stub = {'comp': False, 'id': fresh(), 'name': 'Ref_to_%s' % p['name'], 'parent': host}
        d['containers'].append(stub)
        d.setdefault('pkgrefs', []).append([stub['id'], p['id']])
        gained.append(c['name'])
    # --- pkgref-in-model begin: up to two further reference rows (own PRNG stream: the choices above stay what they were)
    if gained and hasattr(rng, 'fork'):
        _more_package_references(rng.fork('pkgref-extra'), d, fresh, to_global, comps, gained)
    # --- pkgref-in-model end
    return d, gained


# --- pkgref-in-model begin
def walk_acyclic(d):
    """is the graph that is_contained_in walks free of cycles: container -> its parent, referred package -> the parent of each
    package referring to it (both packages existing; first row of an id, as the Lean model's findContainer)"""
    cont = {}
    for k in d['containers']:
        cont.setdefault(('comp' if k['comp'] else 'pkg', k['id']), k)

    def succ(node):
        k = cont.get(node)
        if k is None:
            return []
        out = [tuple(k['parent'])] if k['parent'] else []
        if node[0] == 'pkg':
            for q, p in d.get('pkgrefs', []):
                kq = cont.get(('pkg', q))
                if p == node[1] and kq is not None and kq['parent']:
                    out.append(tuple(kq['parent']))
        return out
    state = {}

    def visit(n):
        if state.get(n) == 1:
            return False
        if state.get(n) == 2:
            return True
        state[n] = 1
        ok = all(visit(x) for x in succ(n))
        state[n] = 2
        return ok
    return all(visit(n) for n in list(cont))


def _more_package_references(x, d, fresh, to_global, comps, gained):
    """0-2 further EP_PKGREF rows, each from its own fresh (empty) package - Referring_Package_ID is the identifier of
    EP_PKGREF - placed anywhere (inside a component, inside a package, at the top) and referring to any package: a second
    referrer of the same package, a reference from OUTSIDE every component (adds nothing), a reference to a nested or an
    already contained package, chains reference -> containment -> reference.  A row that would close a cycle is dropped
    (is_contained_in would not return).  `gained` grows by the components that gained content."""
    def content(c):
        return sorted((kind, it['id']) for kind in ('classes', 'dts', 'rels') for it in d[kind]
                      if py_contained(d, c['id'], it['parent']))
    for n in range(x.choice([0, 1, 1, 2])):
        pkgs = [k for k in d['containers'] if not k['comp'] and (to_global or not py_global(d, ['pkg', k['id']]))]
        if not pkgs:
            break
        target = x.choice(pkgs)
        host = x.choice([None] + [['comp', k['id']] for k in comps] * 2 + [['pkg', k['id']] for k in d['containers'] if not k['comp']])
        before = {c['name']: content(c) for c in comps}
        stub = {'comp': False, 'id': fresh(), 'name': 'Ref%d_to_%s' % (n + 2, target['name']), 'parent': host}
        d['containers'].append(stub)
        d['pkgrefs'].append([stub['id'], target['id']])
        if not walk_acyclic(d):
            d['containers'].pop()
            d['pkgrefs'].pop()
            continue
        for c in comps:
            if content(c) != before[c['name']] and c['name'] not in gained:
                gained.append(c['name'])
# --- pkgref-in-model end


def _encloses(d, pkg, comp):
    """does package `pkg` lie on the containment chain of component `comp` (a reference to it would be cyclic)"""
    p = comp['parent']
    for _ in range(len(d['containers']) + 2):
        if not p:
            return False
        if p == ['pkg', pkg['id']]:
            return True
        k = next((k for k in d['containers'] if k['comp'] == (p[0] == 'comp') and k['id'] == p[1]), None)
        if k is None:
            return False
        p = k['parent']
    return False


def comp_choices(d):
    """component names for which the scope is well-formed, plus the whole model"""
    out = [None]
    for k in d['containers']:
        if k['comp'] and scope_valid(d, k['id']):
            out.append(k['name'])
    return out


def gen_edit(rng, d, comp, kinds=None):
    """one random edit applicable to diagram `d` (None if nothing fits); validity w.r.t. scope is the caller's job"""
    kinds = kinds or ['rename', 'retype', 'reorder', 'mult', 'cond', 'phrase', 'move-class', 'move-rel']
    for _ in range(20):
        k = rng.choice(kinds)
        if k in ('rename', 'retype', 'reorder', 'move-class'):
            if not d['classes']:
                continue
            c = rng.choice(d['classes'])
            if k == 'move-class':
                p = rng.choice(d['containers'] + [None])
                return [k, c['id'], None if p is None else ['comp' if p['comp'] else 'pkg', p['id']]]
            if not c['attrs']:
                continue
            if k == 'reorder':
                perm = [a['id'] for a in c['attrs']]
                rng.shuffle(perm)
                return [k, c['id'], perm]
            a = rng.choice(c['attrs'])
            if k == 'rename':
                used = {x['name'].upper() for x in c['attrs']}
                new = rng.choice(WORDS) + '_%d' % rng.randint(10, 99)
                if new.upper() in used:
                    continue
                return [k, c['id'], a['id'], new]
            if a['kind'][0] == 'ref':
                # the own R114 type of a referential attribute (any type): must not change anything
                return [k, c['id'], a['id'], rng.choice(d['dts'])['id']]
            if not py_dt_type(d, a['kind'][1]):
                continue
            sup = [t for t in d['dts'] if py_dt_type(d, t['id'])]
            return [k, c['id'], a['id'], rng.choice(sup)['id']]
        rels = [r for r in d['rels'] if r['kind'][0] in ('simple', 'linked')] if k != 'move-rel' else d['rels']
        if not rels:
            continue
        r = rng.choice(rels)
        if k == 'move-rel':
            p = rng.choice(d['containers'] + [None])
            return [k, r['id'], None if p is None else ['comp' if p['comp'] else 'pkg', p['id']]]
        sel = rng.choice(['form', 'part'] if r['kind'][0] == 'simple' else ['one', 'oth'])
        if k == 'phrase':
            refl = r['kind'][1][0] == r['kind'][2][0]
            if rng.random() < (0.4 if refl else 0.1):
                return [k, r['id'], sel, '']            # clearing one phrase
            return [k, r['id'], sel, rng.choice(PHRASES) + ' %d' % rng.randint(100, 999)]
        cur = r['kind'][END_INDEX[r['kind'][0]][sel]][1 if k == 'mult' else 2]
        return [k, r['id'], sel, (not cur) if rng.random() < 0.8 else cur]
    return None


# --------------------------------------------------------------------------- C20: XSD specification, trees, edits

CORE_XS = {'boolean': 'xs:boolean', 'integer': 'xs:integer', 'real': 'xs:decimal', 'string': 'xs:string',
           'unique_id': 'xs:integer'}
XS_NS = 'http://www.w3.org/2001/XMLSchema'


def py_type_name(d, dt):
    """name under which a data type can be used as a base: core 1..5, enumerations, user types"""
    t = _find(d['dts'], 'id', dt)
    if t is None:
        return None
    k = t['kind']
    if k[0] == 'core':
        return t['name'] if 1 <= k[1] <= 5 else None
    return t['name'] if k[0] in ('enum', 'user') else None


def py_base_type_name(d, dt):
    """name of the data type at the end of the chain of user types, if it is core 1..5 or an enumeration"""
    for _ in range(len(d['dts']) + 2):
        t = _find(d['dts'], 'id', dt)
        if t is None:
            return None
        k = t['kind']
        if k[0] == 'user':
            dt = k[1]
            continue
        if k[0] == 'core':
            return t['name'] if 1 <= k[1] <= 5 else None
        return t['name'] if k[0] == 'enum' else None
    return None


def _node(tag, attrs, children):
    return [tag, sorted([k, v] for k, v in attrs), children]


def py_xsd(d, comp):
    """the XSD tree for component id `comp`, canonical (see canon_xml)"""
    return canon_xml(py_xsd_tree(d, comp))


def _esc_attr(v):
    for a, b in (('&', '&amp;'), ('<', '&lt;'), ('>', '&gt;'), ('"', '&quot;')):
        v = v.replace(a, b)
    return v


def py_file_text(tree, attr_order):
    """the text of the pretty-printed file for a tree in document order: one element per line, four blanks per
    level, attributes in the order `attr_order(tag)`, values with the four replacements of minidom"""
    out = ['<?xml version="1.0" ?>\n']

    def node(t, ind):
        tag, attrs, children = t
        a = dict((k, v) for k, v in attrs)
        out.append(ind + '<' + tag + ''.join(' %s="%s"' % (k, _esc_attr(a[k])) for k in attr_order(tag) if k in a))
        if not children:
            out.append('/>\n')
        else:
            out.append('>\n')
            for c in children:
                node(c, ind + '    ')
            out.append(ind + '</' + tag + '>\n')

    node(tree, '')
    return ''.join(out)


XSD_ATTR_ORDER = {'xs:schema': ['xmlns:xs'], 'xs:simpleType': ['name'], 'xs:restriction': ['base'],
                  'xs:enumeration': ['value'], 'xs:element': ['name', 'minOccurs', 'maxOccurs'],
                  'xs:attribute': ['name', 'type']}


def py_xsd_tree(d, comp):
    """the XSD tree in document order: types as the S_DT rows are listed (global ones first), classes and
    attributes in modeled order"""
    types = []
    # one simple type per data type in scope: the global ones, then those contained in the component that are not global (a
    # type of a global package that a package of the component refers to is in both sets and is declared ONCE)
    for scope in (lambda t: py_global(d, t['parent']),
                  lambda t: py_contained(d, comp, t['parent']) and not py_global(d, t['parent'])):
        for t in d['dts']:
            if not scope(t):
                continue
            k = t['kind']
            if k[0] == 'core':
                base = CORE_XS.get(t['name'])
                if base:
                    types.append(_node('xs:simpleType', [('name', t['name'])], [_node('xs:restriction', [('base', base)], [])]))
            elif k[0] == 'enum':
                types.append(_node('xs:simpleType', [('name', t['name'])], [
                    _node('xs:restriction', [('base', 'xs:string')],
                          [_node('xs:enumeration', [('value', v)], []) for v in k[1:]])]))
            elif k[0] == 'user':
                base = py_type_name(d, k[1])
                if base:
                    types.append(_node('xs:simpleType', [('name', t['name'])], [_node('xs:restriction', [('base', base)], [])]))
    classes = []
    for c in d['classes']:
        if not py_contained(d, comp, c['parent']):
            continue
        attrs = []
        # every attribute related across R102, on the R103 chain or not
        for a in [x[1] for x in d.get('loose', []) if x[0] == c['id']] + c['attrs']:
            if a['kind'][0] == 'derived':
                continue
            dt = py_attr_dt(d, a)
            ty = py_base_type_name(d, dt) if dt is not None else None
            if ty:
                attrs.append(_node('xs:attribute', [('name', a['name']), ('type', ty)], []))
        classes.append(_node('xs:element', [('name', c['kl']), ('minOccurs', '0'), ('maxOccurs', 'unbounded')],
                             [_node('xs:complexType', [], attrs)]))
    name = next((k['name'] for k in d['containers'] if k['comp'] and k['id'] == comp), '')
    component = _node('xs:element', [('name', name)], [_node('xs:complexType', [], [_node('xs:sequence', [], classes)])])
    return _node('xs:schema', [('xmlns:xs', XS_NS)], types + [component])


def canon_xml(t):
    """attributes sorted; children sorted where the generator iterates over unordered row sets (the types
    and the component under xs:schema, the classes under xs:sequence, the attributes under xs:complexType);
    the enumerators under xs:restriction keep their order"""
    import json
    tag, attrs, children = t
    children = [canon_xml(c) for c in children]
    if tag in ('xs:schema', 'xs:sequence', 'xs:complexType'):
        children = sorted(children, key=lambda c: json.dumps(c, sort_keys=True))
    return [tag, sorted([str(k), str(v)] for k, v in attrs), children]


def tree_of_element(el):
    """xml.etree element (as built by build_schema) -> tree"""
    # comments / processing instructions (their tag is a function, not a name) declare nothing
    return [el.tag, [[k, v] for k, v in el.attrib.items()], [tree_of_element(c) for c in el if isinstance(c.tag, str)]]


def tree_of_etree_parsed(el):
    """element parsed back by ElementTree (namespaces expanded) -> tree in the xs: spelling"""
    def tag(t):
        return 'xs:' + t[len(XS_NS) + 2:] if t.startswith('{%s}' % XS_NS) else t
    def conv(e, root):
        attrs = [[k, v] for k, v in e.attrib.items()]
        if root:
            attrs.append(['xmlns:xs', XS_NS])
        return [tag(e.tag), attrs, [conv(c, False) for c in e]]
    return conv(el, True)


def tree_of_minidom(node):
    attrs = [[node.attributes.item(i).name, node.attributes.item(i).value] for i in range(node.attributes.length)]
    return [node.nodeName, attrs, [tree_of_minidom(c) for c in node.childNodes if c.nodeType == c.ELEMENT_NODE]]


def tree_of_sexp(s):
    return [s[0], [[k, v] for k, v in s[1]], [tree_of_sexp(c) for c in s[2]]]


#   XSD edits:  ['rename', cls, attr, new] ['retype', cls, attr, dt] ['add-attr', cls, ATTR]
#               ['add-enum', dt, name, new enum id] ['perm-enums', dt, [positions]]
#               ['add-type', DT] ['move-class', cls, P]

def xedit_sexp(e):
    k = e[0]
    if k in ('rename', 'retype', 'move-class'):
        return edit_sexp(e)
    if k == 'add-attr':
        a = e[2]
        return [Sym(k), e[1], [a['id'], a['name'], [Sym(a['kind'][0])] + list(a['kind'][1:])]]
    if k == 'add-enum':
        return [Sym(k), e[1], e[2]]
    if k == 'perm-enums':
        return [Sym(k), e[1], list(e[2])]
    if k == 'add-type':
        t = e[1]
        return [Sym(k), [t['id'], t['name'], [Sym('user'), t['kind'][1]], _p_sexp(t['parent'])]]
    raise ValueError(k)


def py_apply_xedit(d, e):
    import copy
    k = e[0]
    if k in ('rename', 'retype', 'move-class'):
        return py_apply_edit(d, e)
    if k == 'redim':                                    # --- owner-C20 round 8: dimensions are no part of the diagram
        return d
    d = copy.deepcopy(d)
    if k == 'add-attr':
        for c in d['classes']:
            if c['id'] == e[1]:
                c['attrs'].append({x: copy.deepcopy(y) for x, y in e[2].items() if x != 'dims'})
    elif k == 'add-enum':
        for t in d['dts']:
            if t['id'] == e[1] and t['kind'][0] == 'enum':
                t['kind'] = list(t['kind']) + [e[2]]
    elif k == 'perm-enums':
        for t in d['dts']:
            if t['id'] == e[1] and t['kind'][0] == 'enum':
                es = t['kind'][1:]
                t['kind'] = ['enum'] + [es[i] for i in e[2] if 0 <= i < len(es)]
    elif k == 'add-type':
        d['dts'].append(copy.deepcopy(e[1]))
    else:
        raise ValueError(k)
    return d


def pop_set_descriptions(m, seed):
    """non-empty description texts on a LOADED population (real models): every Descrip attribute of the classes the
    generators read"""
    import random
    rnd = random.Random(seed)
    for kind in ('C_C', 'EP_PKG', 'S_DT', 'S_ENUM', 'O_OBJ', 'O_ATTR', 'R_REL'):
        for inst in m.select_many(kind):
            if rnd.random() < 0.85:
                inst.Descrip = rnd.choice(DESCRIPTIONS)


def pop_apply_xedit(m, e):
    import xtuml
    from xtuml import navigate_one as one, navigate_many as many, where_eq as where
    k = e[0]
    if k in ('rename', 'retype', 'move-class'):
        return pop_apply_edit(m, e)
    if k == 'add-attr':
        # rows are created with their own (non-referential) values and then related explicitly
        cls, a = e[1], e[2]
        o_obj = m.select_any('O_OBJ', where(Obj_ID=cls))
        last = one(o_obj).O_ATTR[102](lambda s: not one(s).O_ATTR[103, 'precedes']())
        kind = a['kind']
        dt = kind[1] if kind[0] in ('base', 'derived') else SAME_AS
        o_attr = m.new('O_ATTR', Attr_ID=a['id'], Name=a['name'], Descrip='', Prefix='', Root_Nam=a['name'],
                       Pfx_Mode=0, Dimensions='', DefaultValue='')
        xtuml.relate(o_attr, o_obj, 102)
        if last is not None:
            xtuml.relate(last, o_attr, 103, 'precedes')
        s_dt = m.select_any('S_DT', where(DT_ID=dt))
        if s_dt is not None:
            xtuml.relate(o_attr, s_dt, 114)
        if kind[0] == 'ref':
            o_rattr = m.new('O_RATTR', Ref_Mode=1, BaseAttrName='')
            xtuml.relate(o_rattr, o_attr, 106)
            o_battr = m.select_any('O_BATTR', where(Attr_ID=kind[2], Obj_ID=kind[1]))
            if o_battr is not None:
                xtuml.relate(o_rattr, o_battr, 113)
        else:
            o_battr = m.new('O_BATTR')
            xtuml.relate(o_battr, o_attr, 106)
            if kind[0] == 'base':
                xtuml.relate(m.new('O_NBATTR'), o_battr, 107)
            else:
                xtuml.relate(m.new('O_DBATTR', Action_Semantics_internal='', Suc_Pars=0, Dialect=0), o_battr, 107)
        if a.get('dims') is not None:                   # --- owner-C20 round 8: the added attribute is an array
            pop_dimension(m, o_attr, *a['dims'])
    elif k == 'redim':                                  # --- owner-C20 round 8: [redim, cls, attr, text, counts]
        pop_dimension(m, m.select_any('O_ATTR', where(Attr_ID=e[2], Obj_ID=e[1])), e[3], e[4])
    elif k == 'add-enum':
        s_edt = m.select_any('S_EDT', where(DT_ID=e[1]))
        last = xtuml.navigate_any(s_edt).S_ENUM[27](lambda s: not one(s).S_ENUM[56, 'precedes']())
        s_enum = m.new('S_ENUM', Enum_ID=e[3], Name=e[2], Descrip='')
        xtuml.relate(s_enum, s_edt, 27)
        if last is not None:
            xtuml.relate(last, s_enum, 56, 'precedes')
    elif k == 'perm-enums':
        s_edt = m.select_any('S_EDT', where(DT_ID=e[1]))
        order = []
        cur = xtuml.navigate_any(s_edt).S_ENUM[27](lambda s: not one(s).S_ENUM[56, 'succeeds']())
        while cur is not None:
            order.append(cur)
            cur = one(cur).S_ENUM[56, 'precedes']()
        for a, b in zip(order, order[1:]):
            xtuml.unrelate(a, b, 56, 'precedes')
        new = [order[i] for i in e[2]]
        for a, b in zip(new, new[1:]):
            xtuml.relate(a, b, 56, 'precedes')
    elif k == 'add-type':
        t = e[1]
        pe = m.new('PE_PE', Element_ID=t['id'], Visibility=1, type=3)
        if t['parent']:
            if t['parent'][0] == 'pkg':
                xtuml.relate(pe, m.select_any('EP_PKG', where(Package_ID=t['parent'][1])), 8000)
            else:
                xtuml.relate(pe, m.select_any('C_C', where(Id=t['parent'][1])), 8003)
        s_dt = m.new('S_DT', Name=t['name'], Descrip='', DefaultValue='')
        xtuml.relate(s_dt, pe, 8001)
        s_udt = m.new('S_UDT', Gen_Type=0, Definition='')
        xtuml.relate(s_udt, s_dt, 17)
        base = m.select_any('S_DT', where(DT_ID=t['kind'][1]))
        if base is not None:
            xtuml.relate(s_udt, base, 18)
    else:
        raise ValueError(k)


def gen_xedit(rng, d, fresh):
    """one random XSD-relevant edit applicable to `d`; `fresh()` yields unused identifiers"""
    for _ in range(20):
        k = rng.choice(['rename', 'retype', 'add-attr', 'add-attr', 'add-enum', 'perm-enums', 'add-type', 'move-class',
                        'redim'])
        if k == 'redim':                                # --- owner-C20 round 8: (re-)dimension an attribute, or make it scalar
            cands = [(c, x) for c in d['classes'] for x in c['attrs']]
            if cands:
                c, x = rng.choice(cands)
                text, counts, _ = _array_choice(rng)
                return ['redim', c['id'], x['id'], text, counts]
            continue
        if k in ('rename', 'move-class'):
            e = gen_edit(rng, d, None, [k])
            if e is not None:
                return e
        elif k == 'retype':
            refs = [(c, a) for c in d['classes'] for a in c['attrs'] if a['kind'][0] == 'ref']
            if refs and rng.random() < 0.35:
                # the own R114 type of a referential attribute (any type of the model): the declaration must not move
                c, a = rng.choice(refs)
                return ['retype', c['id'], a['id'], rng.choice(d['dts'])['id']]
            cands = [(c, a) for c in d['classes'] for a in c['attrs']
                     if a['kind'][0] != 'ref' and py_base_type_name(d, a['kind'][1])]
            sup = [t for t in d['dts'] if py_base_type_name(d, t['id'])]
            if cands and sup:
                c, a = rng.choice(cands)
                return ['retype', c['id'], a['id'], rng.choice(sup)['id']]
        elif k == 'add-attr' and d['classes']:
            c = rng.choice(d['classes'])
            used = {x['name'].upper() for x in c['attrs']}
            name = rng.choice(WORDS) + '_new%d' % rng.randint(1, 99)
            if name.upper() in used:
                continue
            r = rng.random()
            bases = [(k2['id'], x['id']) for k2 in d['classes'] for x in k2['attrs'] if x['kind'][0] != 'ref']
            if r < 0.2 and bases:
                b = rng.choice(bases)
                kind = ['ref', b[0], b[1]]
            elif r < 0.35:
                kind = ['derived', rng.choice(d['dts'])['id']]
            else:
                kind = ['base', rng.choice(d['dts'])['id']]
            new = {'id': fresh(), 'name': name, 'kind': kind}
            if rng.random() < 0.4:                      # --- owner-C20 round 8: the added attribute is an array
                new['dims'] = list(_array_choice(rng))
            return ['add-attr', c['id'], new]
        elif k in ('add-enum', 'perm-enums'):
            enums = [t for t in d['dts'] if t['kind'][0] == 'enum']
            if not enums:
                continue
            t = rng.choice(enums)
            if k == 'add-enum':
                name = 'Added_%d' % rng.randint(1, 999)
                if name in t['kind'][1:]:
                    continue
                return ['add-enum', t['id'], name, fresh()]
            n = len(t['kind']) - 1
            if n < 2:
                continue
            perm = list(range(n))
            rng.shuffle(perm)
            return ['perm-enums', t['id'], perm]
        elif k == 'add-type':
            base = rng.choice(d['dts'])
            names = {t['name'] for t in d['dts']}
            name = 'NewType_%d' % rng.randint(1, 999)
            if name in names:
                continue
            p = rng.choice(d['containers'] + [None])
            return ['add-type', {'id': fresh(), 'name': name, 'kind': ['user', base['id']], 'predef': False,
                                 'parent': None if p is None else ['comp' if p['comp'] else 'pkg', p['id']]}]
    return None
