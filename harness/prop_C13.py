"""C13 — OAL parsing is total and its source positions are exact.

Case kinds
  pos    a program WRITTEN token by token with random layout (multi-line expressions, block / line comments,
         tabs, '\\r', `end`/`if` split over lines, ticked phrases containing newlines).  The case carries the
         text, where the harness put every token (offset, line, column kept by the writer's own counters) and,
         for every statement / expression node in pre-order, the class and the first / last token index.
           D: every statement and expression node of `oal.parse(text)` records
              start_stream/line/column of its first token, end_stream = offset after its last token,
              end_line/end_column = line/column of that token's last character, character_stream = text[start:end)
              (a parenthesised expression: the span including its parentheses, as p_grouped_expression re-stamps
              the operand).  Container nodes (body, block, lists, parameters, event specs) are not checked.
  strnl  a generated program in which a double-quoted string literal is written with a raw line break inside it
           D: ParseException, or a tree whose checked nodes carry the positions of the written tokens (as `pos`)
  total  arbitrary strings / random token sequences / single-edit mutations of valid programs (70 %)
           D: the outcome is a tree or `oal.ParseException`, within a time budget linear in the length
  time   adversarial families (open comment + newlines / stars, quotes, digits, ...) of growing length
           D: as `total`
  seq    nine texts parsed back to back in one process: a checked program, a rejected text (incl. format-like
         tokens `%s`, `%d`, `{0}`), the same program again, the program with layout in front of / behind it (equal
         after strip()), another program, a mutated one, and the first once more
           D: positions of every checked text as for `pos` (offsets / lines / columns of the padded variants from an
              independent line/column oracle); every text ends in a tree or ParseException
  tight  every ordered pair of representative lexical units (all token classes, all fixed-string tokens, NS::)
         written without a separator; the Lean driver decides `tightOk u v` (Proofs/OalTight.lean proves: then the
         lexer model returns exactly the units' tokens).  Counted: accepted pairs the real lexer agrees on,
         accepted pairs it splits differently (must be 0, fails K), refused pairs it would still split
         correctly (completeness of the sufficient test), refused pairs that really merge.
  regex  a random regex source over every construct of the regex AST (lean/PyxModel/Regex.lean) with a dozen short
         texts over a small alphabet (near-misses frequent): Python's `re.match(source, text).end()` against the
         generic matcher `Regex.matchPrefix` on the AST translator/regex_ast.py computes from the source with
         Python's regex parser.  K only - this is the semantics the lexer tie rests on: Proofs/OalRegex.lean proves
         that the proved lexer model IS that matcher run on the generated ASTs of the rule regexes (`lexRx_eq_lex`).
  K (all kinds, texts the UTF-8 pipe can carry): the token stream of the real PLY lexer on text+'\\n' - kind,
     lexeme, lexpos, endlexpos, lineno, endlineno - equals the Lean lexer model's; and for every checked node's
     (first, last) token pair, `find_column`/slice arithmetic of the implementation on ITS tokens equals the
     model's `spanOf` / `streamOf`.
"""
import time

import common

from sexp import Sym, dumps, loads
import gen_oal_text as G
import gen_regex as GR

PROP = 'C13'
RULE = ('pos: random programs over most statement/expression productions written token by token, three layout '
        'styles (wild: comments/newlines/tabs/CR between tokens, END tokens split over lines; plain; tight); '
        'non-trivial = multi-line text with at least one comment or split END token or phrase with newline, distinct '
        'by text.  total: arbitrary strings over a mixed ASCII/Unicode alphabet, random token sequences, single-edit '
        'mutations (delete/duplicate/swap token, truncate, unterminated string/comment/phrase, insert/delete char) of '
        'generated programs; every fifth pos case with characters no rule matches (BOM, NUL, $, #, form feed, ...) in '
        'front of it / in front of tokens / behind it (positions w.r.t. the GIVEN text); strnl: a raw line break inside '
        'a double-quoted string; long single tokens (4299..5500 digits / letters); keywords in NAME positions '
        '(kw_as_identifier_1..4: attribute / parameter / enumerator / variable names) and empty statements in pos programs; '
        'generated programs, weighted 70 % to mutations.  uni (kind pos): generated programs whose string literals, ticked '
        'phrases and inserted block / line comments carry text in other scripts and beyond the basic multilingual plane '
        '(emoji, mathematical letters / digits, Gothic, CJK extension B, U+10FFFF, combining marks, zero-width and full-width '
        'characters), bare skipped characters beyond the BMP between tokens, and whose ID tokens are re-spelled as arbitrary '
        'identifiers (association numbers not of the form R<digits> included); line / column / offset expectations count '
        'characters of the given text (Python str), also non-trivial = a token with a character beyond the BMP in front of '
        'it on its line in a multi-line text.  total, streams names-mutation / names-prefix: single-edit mutations and '
        'token-boundary prefixes of such re-spelled programs.  time: 23 adversarial families at growing lengths.')
EXHAUSTIVE = {'quick': False, 'thorough': False}
ASSUMPTIONS = [
    'PLY 3.11 semantics (master alternation in definition order, t_ignore, t_error skip) are hand-modelled; Python re '
    'semantics are those of the generic matcher lean/PyxModel/Regex.lean (the scanners are PROVED equal to it on the '
    'ASTs generated from the rule regexes), which is compared with re.match on random regexes and with PLY on every case',
    'a column is the 1-based index, in characters (code points) of the text given to oal.parse, within the line delimited by '
    "'\\n' only: a tab, a carriage return, a combining mark and a character beyond the basic multilingual plane count one each",
    'the lexer model cannot be fed lone surrogates (UTF-8 pipe); such inputs are checked on the implementation only',
    'time bounds of `re` and PLY are validated (budget 1.0 s + 0.5 ms per character of CPU time of the worker process, smallest of three measurements when the first exceeds it), not proved',
]
TRUSTED_EXTRA = ['translator/gen_oallex.py (rule table, flags of the rule bodies, first-character sets of the COMMENT alternatives)',
                 'translator/regex_ast.py (regex source -> AST through re._parser; compared with re.match on random sources)',
                 'harness/gen_oal_text.py (the writer\'s own offset/line/column counters are the position oracle)']
CHUNK = 1500
RX_LIMIT = 1200          # Driver/C13.lean rxLimit: the generic regex engine is run on texts up to this length
SKIP_LIMIT = 0.02         # largest tolerated share of position cases on which D could not be evaluated
CASE_TIMEOUT_S = 12
BUDGET_S = {'quick': 200, 'thorough': 1500}
SEARCH_S = {'quick': 120, 'thorough': 600}

_oal = None
_enc = None


def setup(ctx):
    global _oal, _enc
    from bridgepoint import oal
    import oal_sexp
    _oal = oal
    _enc = oal_sexp
    oal.parse('x = 1;')          # tables are generated once, before the pool forks
    # the translator's notion of "statement / expression node class" must be the one D checks
    import sys as _sys
    _sys.path.insert(0, str(common.VERIF / 'translator'))
    import gen_oaltrack
    try:
        g = gen_oaltrack.extract(str(ctx.ws.repo))
    except Exception:
        g = None                 # a changed source shape is reported by the runner as a broken translator tie
    if g is not None:
        built = set(p['res'][1] for p in g['prods'] if p['res'][0] == 'node')
        mine = set(G.CHECKED)
        if (set(g['checked']) & built) - mine or (mine - set(g['checked'])):
            raise common.HarnessError('node classes checked by D and by the translator differ: %s'
                                      % sorted(((set(g['checked']) & built) - mine) | (mine - set(g['checked']))))
    G.ply_tokens('x')


def budget_s(n):
    return 1.0 + 0.0005 * n


# ------------------------------------------------------------------------------------------ generation

def _pos_case(rng, style, max_depth, max_stmts, empty_blocks, tag):
    prog = G.gen_program(rng, max_depth=max_depth, max_stmts=max_stmts, empty_clause_blocks=empty_blocks)
    pl = G.layout(rng, prog, style)
    nodes = []
    for f, l, cls, flag in G.checked_spans(prog.root):
        nodes.append([cls, f, l, flag])
    toks = [[pl.start[i], pl.stop[i], pl.line[i], pl.col[i], pl.eline[i], pl.ecol[i]] for i in range(len(prog.toks))]
    st = dict(prog.stats)
    for k, v in pl.stats.items():
        st['layout-' + k] = v
    return {'kind': 'pos', 'text': pl.text, 'toks': toks, 'nodes': nodes, 'style': style, 'stats': st,
            'kinds': [t.kind for t in prog.toks], 'gen': tag}


def _strnl_case(rng, tag):
    """a generated program in which a double-quoted string literal is written with a RAW LINE BREAK inside (the
    writer's cursor counts it like any other line break).  The STRING rule excludes '\\n', so the text is not a valid
    program - but whatever comes back is checked: a tree must carry exact positions (every statement / expression node
    that the written token sequence predicts), anything else must be oal.ParseException."""
    for attempt in range(40):
        r = rng.fork(attempt)
        prog = G.gen_program(r, max_depth=r.choice([2, 3]), max_stmts=r.choice([2, 4, 6]), empty_clause_blocks=False)
        idx = [i for i, t in enumerate(prog.toks) if t.kind == 'STRING']
        if idx:
            break
    else:
        return None
    spell = [None] * len(prog.toks)
    for i in r.sample(idx, r.choice([1, 1, 2]) if len(idx) > 1 else 1):
        lx = prog.toks[i].lexeme
        at = r.randrange(1, len(lx))
        spell[i] = lx[:at] + r.choice(['\n', '\n', '\n\n', ' \n ']) + lx[at:]
    pl = G.layout(r, prog, r.choice(['plain', 'plain', 'wild']), spell)
    nodes = [[cls, f, l, flag] for f, l, cls, flag in G.checked_spans(prog.root)]
    toks = [[pl.start[i], pl.stop[i], pl.line[i], pl.col[i], pl.eline[i], pl.ecol[i]] for i in range(len(prog.toks))]
    return {'kind': 'strnl', 'text': pl.text, 'ptoks': toks, 'pnodes': nodes, 'gen': tag}


JUNK = ['\ufeff', '\x00', '$', '#', '\x0c', '\ufeff\ufeff', '$#', '\x7f', '`', '~', '\\', '@', '\u00a7', '\x00\n', '$\n#', ' \ufeff ']


def _with_junk(rng, item):
    """the same program with characters NO RULE MATCHES (byte order mark, NUL, `$`, `#`, form feed, ...) in front of
    it, in front of some of its tokens and behind it: `t_error` skips them, so the token stream is the same and
    every position must still be exact with respect to the GIVEN text (offsets / lines / columns from the independent
    line/column oracle on the new text)"""
    text = item['text']
    kinds = item['kinds']
    ins = {}
    where = rng.choice(['start', 'start', 'middle', 'end', 'all', 'all'])
    if where in ('start', 'all'):
        ins[-1] = rng.choice(JUNK[:6] if rng.random() < 0.7 else JUNK)
    if where in ('middle', 'all'):
        for i in rng.sample(range(len(kinds)), min(len(kinds), rng.choice([1, 2, 4]))):
            # `ns::x`: the NAMESPACE rule looks ahead for '::' - junk between the two would change the tokens
            if kinds[i] == 'DOUBLECOLON' or (i > 0 and kinds[i - 1] in ('NAMESPACE', 'DOUBLECOLON')):
                continue
            ins[i] = rng.choice(JUNK)
    tail = rng.choice(JUNK) if where in ('end', 'all') else ''
    parts = []
    pos = 0
    delta = 0
    new_off = []
    if -1 in ins:
        parts.append(ins[-1])
        delta += len(ins[-1])
    for i, (st, sp, _, _, _, _) in enumerate(item['toks']):
        parts.append(text[pos:st])
        if i in ins:
            parts.append(ins[i])
            delta += len(ins[i])
        parts.append(text[st:sp])
        new_off.append((st + delta, sp + delta))
        pos = sp
    parts.append(text[pos:])
    parts.append(tail)
    new = ''.join(parts)
    toks = []
    for st, sp in new_off:
        l1, c1 = _linecol(new, st)
        l2, c2 = _linecol(new, sp - 1)
        toks.append([st, sp, l1, c1, l2, c2])
    out = dict(item)
    out['text'] = new
    out['toks'] = toks
    out['stats'] = dict(item['stats'])
    out['stats']['layout-junk-' + where] = 1
    return out


# ---- text in other scripts / beyond the basic multilingual plane, identifiers of every spelling ----------------
# characters above U+FFFF (one character of the given text each, two UTF-16 code units, four UTF-8 bytes): emoji,
# mathematical letters / digits (word characters for `re`), Gothic, a CJK extension ideograph, the last code point
ASTRAL = ['\U0001F600', '\U0001F4A1', '\U0001D49C', '\U00010348', '\U0001d7d8', '\U00020000', '\U0010ffff', '\U0001F1E9\U0001F1EA']
# characters of the basic multilingual plane outside ASCII (one, two or three UTF-8 bytes; combining mark, zero width
# space, full-width digit).  No character that some convention other than '\n' treats as a line break.
BMP = ['\u00e9', '\u00df', '\u03a9', '\u6f22\u5b57', '\u2200', 'e\u0301', '\u200b', '\u0663', '\uff15', '\u00a0', '\u3000', '\ufffd']
PLAIN = ['', ' ', 'a', 'ok ', 'x;y', ' end if ', '//', '/*', '\t', '1']
# bare characters NO RULE MATCHES that are not word characters (t_error skips them): usable between tokens
ASTRAL_JUNK = ['\U0001F600', '\U0001F4A1', '\U0010ffff', '\U0001F600\U0001F4A1', '\U00010348 ']
# spellings of an identifier (ASCII, as the ID rule demands): association / class / variable / attribute / function
# names need not look like `R1` / `A` / `x` for the text to be a valid program
ODD_IDS = [w for w in ['foo', 'Rx', 'R_1', 'R1x', 'r', 'R', '_', '_1', 'x9', 'A1', 'R01', 'rel', 'R', 'r12x', 'Assoc',
                       'R1_2', 'xR1', 'R1R2', 'Rel1', 'R1a', 'ends', 'iff', 'e3', 'R9999999999', 'X', 'owner_of']
           if w.upper() not in G.KWSET]


def _uni_body(rng, forbidden, newline=False):
    """text for the inside of a string literal / ticked phrase / comment: a few pieces, each beyond the BMP (half of
    them), in the BMP outside ASCII, or plain"""
    out = []
    for _ in range(rng.choice([1, 1, 2, 3, 5])):
        k = rng.random()
        out.append(rng.choice(ASTRAL) if k < 0.5 else rng.choice(BMP) if k < 0.75 else
                   '\n' if (newline and k < 0.8) else rng.choice(PLAIN))
    body = ''.join(out)
    for ch in forbidden:
        body = body.replace(ch, '')
    return body


def _uni_spelling(rng, prog, p_ids=0.5):
    """per token of a generated program another spelling of the SAME token class: string literals and ticked phrases
    with text in other scripts / beyond the BMP inside, identifiers (ID tokens) spelled like any identifier"""
    spell = [None] * len(prog.toks)
    for i, t in enumerate(prog.toks):
        if t.kind == 'STRING' and rng.random() < 0.85:
            spell[i] = '"' + _uni_body(rng, '"\n') + '"'
        elif t.kind == 'TICKED_PHRASE' and rng.random() < 0.85:
            spell[i] = "'" + _uni_body(rng, "'", newline=True) + "'"
        elif t.kind == 'ID' and rng.random() < p_ids:
            spell[i] = rng.choice(ODD_IDS)
    return spell


def _uni_insert(rng):
    """layout text that may stand in front of any token: a block comment / line comment with text beyond the BMP (or in
    other scripts) inside, or bare characters no rule matches.  A leading blank keeps a preceding `/` or `*` apart."""
    k = rng.random()
    if k < 0.5:
        body = _uni_body(rng, '', newline=True).replace('*/', '* /')
        if body.endswith('*') or body.endswith('/'):
            body += ' '
        return ' /*' + rng.choice(['', ' ']) + body + '*/' + rng.choice(['', ' ', '\t'])
    if k < 0.7:
        return ' //' + _uni_body(rng, '\n') + '\n' + rng.choice(['', ' ', '\t'])
    return ' ' + rng.choice(ASTRAL_JUNK)


def _with_inserts(rng, item, make):
    """the same program with layout text `make(rng)` (comments / skipped characters) in front of it, in front of
    some of its tokens and behind it: the token stream is the same, every position must be exact with respect to the
    GIVEN text (offsets / lines / columns recomputed by the independent line/column oracle on the new text, which
    counts characters of the given text: a tab, a combining mark, a character beyond the BMP are one column each)"""
    text = item['text']
    kinds = item['kinds']
    ins = {}
    where = rng.choice(['start', 'middle', 'middle', 'all', 'all'])
    if where in ('start', 'all'):
        ins[-1] = make(rng)
    if where in ('middle', 'all'):
        for i in rng.sample(range(len(kinds)), min(len(kinds), rng.choice([1, 2, 4, 8]))):
            if kinds[i] == 'DOUBLECOLON' or (i > 0 and kinds[i - 1] in ('NAMESPACE', 'DOUBLECOLON')):
                continue
            ins[i] = make(rng)
    tail = make(rng) if where == 'all' else ''
    parts = []
    pos = 0
    delta = 0
    new_off = []
    if -1 in ins:
        parts.append(ins[-1])
        delta += len(ins[-1])
    for i, (st, sp, _, _, _, _) in enumerate(item['toks']):
        parts.append(text[pos:st])
        if i in ins:
            parts.append(ins[i])
            delta += len(ins[i])
        parts.append(text[st:sp])
        new_off.append((st + delta, sp + delta))
        pos = sp
    parts.append(text[pos:])
    parts.append(tail)
    new = ''.join(parts)
    toks = []
    for st, sp in new_off:
        l1, c1 = _linecol(new, st)
        l2, c2 = _linecol(new, sp - 1)
        toks.append([st, sp, l1, c1, l2, c2])
    out = dict(item)
    out['text'] = new
    out['toks'] = toks
    out['stats'] = dict(item['stats'])
    out['stats']['layout-uni-inserts-' + where] = 1
    return out


def _astral_ahead(text, toks):
    """number of tokens that have a character beyond the BMP in front of them on their own line"""
    n = 0
    for st, sp, _, _, _, _ in toks:
        b = text.rfind('\n', 0, sp - 1) + 1
        if any(ord(ch) > 0xFFFF for ch in text[b:sp - 1]):
            n += 1
    return n


def _uni_case(rng, tag):
    """a `pos` case whose string literals / ticked phrases / comments carry text in other scripts and beyond the BMP
    and whose identifiers have arbitrary spellings"""
    prog = G.gen_program(rng, max_depth=rng.choice([2, 3]), max_stmts=rng.choice([1, 3, 6]), empty_clause_blocks=True)
    spell = _uni_spelling(rng, prog)
    style = rng.choice(['wild', 'plain', 'plain', 'tight'])
    pl = G.layout(rng, prog, style, spell)
    nodes = [[cls, f, l, flag] for f, l, cls, flag in G.checked_spans(prog.root)]
    toks = [[pl.start[i], pl.stop[i], pl.line[i], pl.col[i], pl.eline[i], pl.ecol[i]] for i in range(len(prog.toks))]
    st = dict(prog.stats)
    for k, v in pl.stats.items():
        st['layout-' + k] = v
    c = {'kind': 'pos', 'text': pl.text, 'toks': toks, 'nodes': nodes, 'style': style, 'stats': st,
         'kinds': [t.kind for t in prog.toks], 'gen': tag}
    if rng.random() < 0.7:
        c = _with_inserts(rng.fork('ins'), c, _uni_insert)
    c['stats']['layout-uni'] = 1
    n = _astral_ahead(c['text'], c['toks'])
    if n:
        c['stats']['layout-astral'] = 1
        c['stats']['layout-tokens-behind-astral'] = n
    if any(s is not None and prog.toks[i].kind == 'ID' for i, s in enumerate(spell)):
        c['stats']['layout-odd-identifier'] = 1
    return c


def _names_cases(rng, tag):
    """totality on texts next to valid programs whose identifiers / literals have arbitrary spellings: one single-edit
    mutation and some token-boundary prefixes (the program cut off after a token) of each"""
    prog = G.gen_program(rng, max_depth=2, max_stmts=rng.choice([1, 1, 2, 3]))
    pl = G.layout(rng, prog, rng.choice(['plain', 'plain', 'wild', 'tight']), _uni_spelling(rng, prog, 0.7))
    kind, text = G.mutate(rng, prog, pl)
    yield {'kind': 'total', 'stream': 'names-mutation:' + kind, 'text': text, 'gen': tag}
    n = len(prog.toks)
    for i in rng.sample(range(n), min(n, 5)):
        yield {'kind': 'total', 'stream': 'names-prefix', 'text': pl.text[:pl.stop[i]] + rng.choice(['', '', '\n', ' ']),
               'gen': tag}


def _linecol(text, off):
    """independent oracle: 1-based line and column of offset `off`"""
    line = text.count('\n', 0, off) + 1
    col = off - (text.rfind('\n', 0, off) + 1) + 1
    return line, col


def _shift(item, prefix, suffix=''):
    """the same program with layout text put in front of / behind it: every token keeps its lexeme"""
    text = prefix + item['text'] + suffix
    d = len(prefix)
    toks = []
    for st, sp, _, _, _, _ in item['toks']:
        l1, c1 = _linecol(text, st + d)
        l2, c2 = _linecol(text, sp + d - 1)
        toks.append([st + d, sp + d, l1, c1, l2, c2])
    return {'text': text, 'toks': toks, 'nodes': item['nodes']}


BAD_TEXTS = ['x = 1 % ;', 'x = %s;', 'y = %d + 1;', 'select any %s from instances of A;', 'if (a) %(x)s end if;',
             'z = {0} {1};', 'x = "%s" %% s;', "relate a to b across R1.'%d' %;", 'return %%;', 'x = 1 % % 5.2f;', '% d',
             'x = ;', 'end if;', 'if (x) y = 1;', 'x = (1 + ;', 'select many from;', 'x = 1 1;', ')', 'x == 1;']


def _seq_cases(ctx, n):
    """several texts parsed back to back in ONE process: a checked program, a rejected text (also with format-like
    tokens), the same program again, the program with layout in front of / behind it (equal after strip()), another
    program, the first one once more - positions, line counting and error handling must not leak between parses"""
    rng = ctx.rng.fork('seq')
    for i in range(n):
        r = rng.fork(i)
        a = _pos_case(r, r.choice(['wild', 'plain']), 3, r.choice([1, 3, 5]), True, ['seq', i, 'a'])
        b = _pos_case(r, r.choice(['wild', 'tight']), 2, r.choice([1, 2, 4]), True, ['seq', i, 'b'])
        ia = {'text': a['text'], 'toks': a['toks'], 'nodes': a['nodes']}
        ib = {'text': b['text'], 'toks': b['toks'], 'nodes': b['nodes']}
        bad1 = r.choice(BAD_TEXTS)
        prog = G.gen_program(r, max_depth=2, max_stmts=2)
        pl = G.layout(r, prog, 'plain')
        bad2 = G.mutate(r, prog, pl)[1]
        pre = r.choice([' ', '\n', '\n\n  ', '\t', '/* c */ ', '// c\n', ' \r\n'])
        suf = r.choice([' ', '\n', ' \n\n', '\t // c\n', ' /* c */'])
        items = [dict(ia, role='first'),
                 {'text': bad1, 'role': 'rejected', 'reject': True},
                 dict(ia, role='again-after-rejected'),
                 dict(_shift(ia, pre), role='padded-front'),
                 dict(ib, role='other'),
                 {'text': bad2, 'role': 'mutated'},
                 dict(_shift(ia, '', suf), role='padded-back'),
                 dict(_shift(ib, pre, suf), role='other-padded'),
                 dict(ia, role='again-last')]
        yield {'kind': 'seq', 'text': ia['text'], 'items': items}


def _time_cases(ctx):
    for n in range(4, ctx.pick(41, 61), 2):
        yield {'kind': 'time', 'family': 'open-comment-newlines', 'n': n, 'text': 'x = 1; /*' + '\n' * n}
        yield {'kind': 'time', 'family': 'open-comment-star-newline', 'n': n, 'text': '/*' + '*\n' * n}
    sizes = ctx.pick([40, 400, 2000, 5000], [40, 400, 2000, 5000, 20000])
    for n in sizes:
        for name, text in G.adversarial(n):
            yield {'kind': 'time', 'family': name, 'n': n, 'text': text}


def _tight_cases(ctx):
    """every ordered pair of representative lexical units written WITHOUT a separator; the Lean driver says whether
    `tightOk u v` holds (then layout_irrelevant_tight promises the two units' tokens) and what the tokens are"""
    lean = getattr(ctx, 'lean', None)
    if lean is None or lean.driver is None:
        return
    units = G.sample_units()
    pairs = [[u, v] for u in units for v in units]
    for k in range(0, len(pairs), 120):
        chunk = pairs[k:k + 120]
        ans = loads(lean.run_driver([dumps([Sym('c13-tight')] + chunk)])[0])
        items = []
        for (u, v), a in zip(chunk, ans):
            if not isinstance(a, list):
                raise ValueError('driver could not decode the unit pair %r' % ((u, v),))
            items.append([str(a[0]) == 'T', a[1], a[2], [[str(t[0]), t[1]] for t in a[3]], dumps(u), dumps(v)])
        yield {'kind': 'tight', 'pairs': items, 'text': '\n'.join(i[1] + i[2] for i in items)}


def _regex_cases(ctx, n):
    rng = ctx.rng.fork('regex')
    for i in range(n):
        src, tree, texts, refused = GR.regex_case(rng.fork(i))
        yield {'kind': 'regex', 'text': src, 'ast': dumps(GR.to_sexp(tree)), 'texts': texts, 'refused': refused,
               'shape': sorted(_regex_shape(tree, set()))}


def _regex_shape(t, acc):
    k = t[0]
    if k == 'star':
        acc.add('star-greedy' if t[1] else 'star-lazy')
        if t[2][0] not in ('cls',):
            acc.add('star-of-compound')
    elif k == 'cls':
        if t[1]:
            acc.add('cls-negated')
        for it in t[2]:
            acc.add('item-' + it[0] + ('-' + it[1] if it[0] in ('cat', 'ncat') else ''))
    else:
        acc.add(k)
    for x in t[1:]:
        if isinstance(x, tuple):
            _regex_shape(x, acc)
    return acc


def generate(ctx):
    # the production table read by the translator against PLY's own table
    yield {'kind': 'grammar', 'text': ''}
    # the generic regex matcher against Python's `re`
    for c in _regex_cases(ctx, ctx.pick(400, 8000)):
        yield c
    # time families first: a super-linear rule shows up on them at once (and would slow every later case)
    for c in _time_cases(ctx):
        yield c
    for name, text in G.long_tokens():
        yield {'kind': 'time', 'family': name, 'n': len(text), 'text': text}
    for c in _tight_cases(ctx):
        yield c
    for c in _seq_cases(ctx, ctx.pick(250, 4000)):
        yield c
    rng = ctx.rng.fork('pos')
    n_pos = ctx.pick(2600, 40000)
    for i in range(n_pos):
        r = rng.fork(i)
        style = r.choice(['wild', 'wild', 'wild', 'plain', 'tight'])
        c = _pos_case(r, style, r.choice([2, 3, 3, 4]), r.choice([1, 3, 6, 9]), True, ['pos', i])
        if i % 5 == 0:
            c = _with_junk(r.fork('junk'), c)       # illegal (skipped) characters at the start / between tokens / at the end
        yield c
    # text in other scripts / beyond the BMP inside string literals, ticked phrases and comments, bare skipped characters
    # beyond the BMP between tokens, identifiers of every spelling: columns count characters of the GIVEN text
    rng = ctx.rng.fork('uni')
    for i in range(ctx.pick(900, 12000)):
        yield _uni_case(rng.fork(i), ['uni', i])
    # a raw line break inside a double-quoted string: rejected, or a tree with exact positions
    rng = ctx.rng.fork('strnl')
    for i in range(ctx.pick(200, 3000)):
        c = _strnl_case(rng.fork(i), ['strnl', i])
        if c is not None:
            yield c
    # totality
    rng = ctx.rng.fork('total')
    n_tot = ctx.pick(6000, 100000)
    for i in range(n_tot):
        r = rng.fork(i)
        k = r.random()
        if k < 0.15:
            yield {'kind': 'total', 'stream': 'arbitrary', 'text': G.arbitrary_string(r, r.choice([5, 20, 60, 200]))}
        elif k < 0.30:
            yield {'kind': 'total', 'stream': 'tokens', 'text': G.random_tokens(r, r.choice([5, 15, 40]))}
        else:
            prog = G.gen_program(r, max_depth=r.choice([2, 3]), max_stmts=r.choice([1, 2, 4]))
            pl = G.layout(r, prog, r.choice(['wild', 'plain', 'plain', 'tight']))
            kind, text = G.mutate(r, prog, pl)
            yield {'kind': 'total', 'stream': 'mutation:' + kind, 'text': text}
    # totality next to valid programs with arbitrarily spelled identifiers / literals: single edits and prefixes
    rng = ctx.rng.fork('total-names')
    for i in range(ctx.pick(700, 10000)):
        for c in _names_cases(rng.fork(i), ['names', i]):
            yield c
    # every `pos` case has been evaluated by now (the stream above is several chunks long): D is vacuous on a `pos`
    # case the parser rejected or grouped differently from what was written - bound their share
    n_pos_run = ctx.stats.get('kind_pos', 0)
    skipped = ctx.stats.get('pos_unparsed', 0) + ctx.stats.get('pos_shape_differs', 0)
    if n_pos_run and skipped > max(3, SKIP_LIMIT * n_pos_run):
        # more texts than allowed that the parser rejects / groups differently: the usual cause is a change of the
        # implementation (grammar, lexer flags ...), so this is a BROKEN TIE (the runner searches for a failing input
        # and reports `no-failing-input-found` otherwise), not a defect of the harness
        # Not raised here (that would end the run before the failing inputs already in hand are reported and before the
        # enlarged search): a last case on which run_impl raises BrokenTie - the runner records the broken obligation,
        # reports a D failure found on this run or goes on to search for one.
        yield {'kind': 'guard', 'text': '',
               'message': '%d of %d position cases could not be checked (%d rejected by the parser, %d with a '
                          'tree shape other than written): the position predicate D was vacuous on more than '
                          '%.0f %% of them' % (skipped, n_pos_run, ctx.stats.get('pos_unparsed', 0),
                                              ctx.stats.get('pos_shape_differs', 0), 100 * SKIP_LIMIT)}


def search(ctx, broken):
    """enlarged D-only search when an obligation or K is broken: positions with every layout feature, the
    adversarial families first"""
    for n in range(4, 61, 2):
        yield {'kind': 'time', 'family': 'open-comment-newlines', 'n': n, 'text': 'x = 1; /*' + '\n' * n}
    for n in (400, 2000, 5000):
        for name, text in G.adversarial(n):
            yield {'kind': 'time', 'family': name, 'n': n, 'text': text}
    rng = ctx.rng.fork('search')
    i = 0
    while True:
        r = rng.fork(i)
        i += 1
        c = _pos_case(r, 'wild', 3, r.choice([2, 5, 9]), True, ['search', i])
        yield _with_junk(r.fork('junk'), c) if i % 3 == 0 else c
        if i % 4 == 0:
            c = _strnl_case(r.fork('strnl'), ['search-strnl', i])
            if c is not None:
                yield c
        if i % 3 == 0:
            yield {'kind': 'total', 'stream': 'arbitrary', 'text': G.arbitrary_string(r, 80)}
        yield _uni_case(r.fork('uni'), ['search-uni', i])
        for c in _names_cases(r.fork('names'), ['search-names', i]):
            yield c


# ------------------------------------------------------------------------------------------ implementation

def _parse_once(text):
    # CPU time of this worker process, not wall-clock time: on a loaded machine a 96-character text was once measured at
    # 1.2 s of wall-clock time (false alarm met in a background sweep with VERIF_SEED=22 while twenty other jobs ran)
    t0 = time.process_time()
    try:
        root = _oal.parse(text)
        out = 'tree' if isinstance(root, _oal.Node) else 'not-a-tree:%s' % type(root).__name__
    except _oal.ParseException:
        root, out = None, 'ParseException'
    except Exception as e:       # anything else is a finding, reported with the input
        root, out = None, 'exception:%s' % type(e).__name__
    return out, root, time.process_time() - t0


def _parse(text):
    """(outcome, tree or None, seconds of CPU time).  A measurement above the budget is repeated twice and the smallest
    value counts: super-linear behaviour of the lexer or parser is deterministic and stays above the budget, a slow first
    call (table construction, a descheduled worker) does not."""
    out, root, secs = _parse_once(text)
    if secs > budget_s(len(text)):
        for _ in range(2):
            secs = min(secs, _parse_once(text)[2])
    return out, root, secs


def _ply_productions():
    """PLY's own production table (as loaded for parsing): function, lhs, length, rhs, is the callable wrapped by
    track_production"""
    parser = _oal.OALParser()
    out = []
    for p in parser.parser.productions[1:]:
        lhs, _, rhs = p.str.partition(' -> ')
        if rhs == '<empty>':
            rhs = ''
        fn = p.callable
        out.append([p.func, lhs, p.len, rhs, Sym('T') if hasattr(fn, '__wrapped__') else Sym('F')])
    return sorted(out, key=lambda x: (x[0], x[3]))


def _pipeable(text):
    try:
        text.encode('utf-8')
        return True
    except UnicodeEncodeError:
        return False


def _walk_checked(x, acc):
    """checked nodes of an oal_sexp tree (positions=True) in pre-order: [cls, pos6 or None, stream]"""
    if isinstance(x, list):
        if x and x[0] == Sym('@'):
            body = x[3]
            if str(body[0]) in G.CHECKED:
                acc.append([str(body[0]), list(x[1]), x[2]])
            for c in body[1:]:
                _walk_checked(c, acc)
        else:
            if x and isinstance(x[0], Sym) and str(x[0]) in G.CHECKED:
                acc.append([str(x[0]), None, None])
            for c in x[1:] if (x and isinstance(x[0], Sym)) else x:
                _walk_checked(c, acc)
    return acc


def _column(lexer, lexdata, pos):
    """`find_column` of the implementation for offset `pos` of the text the lexer has just tokenised.  The helper is
    called the way the library calls it NOW: with the text (the published signature) or, when that raises, with the
    lexer that text_input built and that has scanned the whole text (what set_positional_info has at hand) - any
    per-lexer state the rules fill in is then the state after lexing, exactly as at a reduction.  A helper that can
    be called in neither way is an observation (K fails on the case), never a crash of the harness."""
    try:
        return _oal.find_column(lexdata, pos)
    except Exception:
        try:
            return _oal.find_column(lexer, pos)
        except Exception as e:
            return [Sym('find_column-raised'), type(e).__name__]


def _impl_obs(case, lexdata):
    lexer = G.oal_lexer()
    toks = G.ply_tokens(lexdata, lexer)
    obs_t = [[Sym(t[0]), t[1], t[2], t[3], t[4], t[5]] for t in toks]
    spans = []
    for cls, f, l, flag in case.get('nodes', []):
        if f < len(toks) and l < len(toks):
            a, b = toks[f], toks[l]
            ss, es = a[2], b[3]
            ec = _column(lexer, lexdata, es)
            spans.append([ss, a[4], _column(lexer, lexdata, ss), es, b[5], ec - 1 if isinstance(ec, int) else ec,
                          lexdata[ss:es]])
        else:
            spans.append(Sym('none'))
    # third component: the same PLY stream again - the model side carries there the stream of `lexRx`, the lexer
    # model whose lexemes come from the generic regex engine on the regex ASTs generated from the rule docstrings
    return [obs_t, spans, obs_t if len(lexdata) <= RX_LIMIT else Sym('skipped')]


def _check_positions(text, toks, exp, out, root, st, stats, fails, short):
    """D for positions on one parsed text; returns `nontrivial`"""
    nontrivial = False
    if out != 'tree':
        # a valid generated program was rejected: not this property's business, but the case cannot be checked
        stats['pos_unparsed'] = stats.get('pos_unparsed', 0) + 1
        return False
    act = _walk_checked(_enc.encode(root, positions=True), [])
    if [a[0] for a in act] != [e[0] for e in exp]:
        stats['pos_shape_differs'] = stats.get('pos_shape_differs', 0) + 1     # grouping differs: C07's subject
        return False
    lines = text.count('\n') + 1
    nontrivial = lines >= 2 and any(k in st for k in ('layout-comment', 'layout-line-comment',
                                                       'layout-end-split', 'layout-phrase-newline', 'layout-astral'))
    n0 = len(fails)
    for (cls, pos, stream), (_, f, l, flag) in zip(act, exp):
        want = [toks[f][0], toks[f][2], toks[f][3], toks[l][1], toks[l][4], toks[l][5]]
        wstream = text[toks[f][0]:toks[l][1]]
        stats['nodes_checked'] = stats.get('nodes_checked', 0) + 1
        if pos != want or stream != wstream:
            sig = ('span:' + flag) if flag else 'span:' + cls
            names = ['start_stream', 'start_line', 'start_column', 'end_stream', 'end_line', 'end_column']
            diff = ', '.join('%s=%s (is %s)' % (n, p, w) for n, p, w in zip(names, pos or [None] * 6, want)
                             if p != w)
            if stream != wstream:
                diff += ', character_stream=%r (is %r)' % (stream, wstream)
            fails.append({'sig': sig, 'what': '%s built from tokens %d..%d of %r records %s'
                          % (cls, f, l, short, diff)})
            if len(fails) - n0 >= 3:
                break
    return nontrivial


def _run_regex(case):
    lens = GR.py_lengths(case['text'], case['texts'])
    stats = {'kind_regex': 1, 'regex_texts': len(lens), 'regex_matched': sum(1 for x in lens if x != 'none'),
             'regex_no_match': sum(1 for x in lens if x == 'none'), 'regex_refused_sources': case['refused']}
    for k in case['shape']:
        stats['regex_' + k] = 1
    return {'obs': lens, 'd_fail': [], 'nontrivial': 0 < stats['regex_matched'] < len(lens),
            'key': case['text'] + '\x00' + '\x00'.join(case['texts']), 'stats': stats}


def run_impl(case):
    if case['kind'] == 'regex':
        return _run_regex(case)
    if case['kind'] == 'guard':
        raise common.BrokenTie(case['message'])
    text = case['text']
    fails = []
    unsound = None
    stats = {'kind_' + case['kind']: 1, 'pos_unparsed': 0, 'pos_shape_differs': 0}
    out, root, secs = _parse(text)
    lim = budget_s(len(text))
    short = text if len(text) <= 300 else text[:140] + ' ...[%d chars]... ' % len(text) + text[-60:]
    if not (out == 'tree' or out == 'ParseException'):
        fails.append({'sig': 'outcome:' + out, 'what': 'oal.parse(%r) ended with %s (neither a tree nor oal.ParseException)'
                      % (short, out)})
    if secs > lim:
        fails.append({'sig': 'time:' + (case.get('family') or case.get('stream') or case['kind']),
                      'what': 'oal.parse took %.2f s of CPU time on %d characters, smallest of three measurements (budget %.2f s): %r' % (secs, len(text), lim, short)})
    stats['outcome_' + out.split(':')[0]] = 1
    nontrivial = False
    if case['kind'] == 'pos':
        for k, v in case.get('stats', {}).items():
            stats['prod_' + k] = v
        stats['style_' + case['style']] = 1
        nontrivial = _check_positions(text, case['toks'], case['nodes'], out, root, case.get('stats', {}), stats,
                                      fails, short)
    elif case['kind'] == 'seq':
        nontrivial = True
        stats['seq_texts'] = len(case['items'])
        for it in case['items'][1:]:
            o2, r2, s2 = _parse(it['text'])
            sh2 = it['text'] if len(it['text']) <= 300 else it['text'][:140] + ' ...[%d chars]... ' % len(it['text']) + it['text'][-60:]
            stats['seq_' + it['role']] = stats.get('seq_' + it['role'], 0) + 1
            if not (o2 == 'tree' or o2 == 'ParseException'):
                fails.append({'sig': 'outcome:' + o2, 'what': 'oal.parse(%r) ended with %s (neither a tree nor '
                              'oal.ParseException), parsed in one process after %r' % (sh2, o2, short)})
            if it.get('reject') and o2 == 'tree':
                stats['seq_bad_text_accepted'] = stats.get('seq_bad_text_accepted', 0) + 1
            if 'toks' in it:
                before = len(fails)
                _check_positions(it['text'], it['toks'], it['nodes'], o2, r2, {}, stats, fails, sh2)
                for f in fails[before:]:
                    f['sig'] = 'seq-' + it['role'] + ':' + f['sig']
                    f['what'] += '  [text %s of a sequence parsed back to back in one process, first text: %r]' % (it['role'], short)
        first = case['items'][0]
        _check_positions(text, first['toks'], first['nodes'], out, root, {}, stats, fails, short)
    elif case['kind'] == 'strnl':
        nontrivial = True
        stats['strnl_' + out.split(':')[0]] = 1
        if out == 'tree':
            own = {}
            before = len(fails)
            _check_positions(text, case['ptoks'], case['pnodes'], out, root, {}, own, fails, short)
            for f in fails[before:]:
                f['sig'] = 'string-with-line-break:' + f['sig']
                f['what'] += '  [a double-quoted string of this text contains a raw line break]'
            stats['strnl_tree_shape_differs'] = own.get('pos_shape_differs', 0)
            stats['strnl_nodes_checked'] = own.get('nodes_checked', 0)
    elif case['kind'] == 'total':
        stats['stream_' + case['stream']] = 1
        nontrivial = len(text) > 0
    elif case['kind'] == 'grammar':
        nontrivial = True
    elif case['kind'] == 'tight':
        nontrivial = True
        for tight, tu, tv, toks, su, sv in case['pairs']:
            got = [[t[0], t[1]] for t in G.ply_tokens(tu + tv + '\n')]
            same = got == toks
            if tight and same:
                stats['tight_ok_and_lexer_agrees'] = stats.get('tight_ok_and_lexer_agrees', 0) + 1
            elif tight:
                # contradicts layout_irrelevant_tight + the token-stream correspondence: reported through K below
                stats['tight_ok_but_lexer_differs'] = stats.get('tight_ok_but_lexer_differs', 0) + 1
                unsound = '%s %s' % (su, sv)
            elif same:
                stats['tight_refused_but_lexer_agrees'] = stats.get('tight_refused_but_lexer_agrees', 0) + 1
            else:
                stats['tight_refused_and_lexer_merges'] = stats.get('tight_refused_and_lexer_merges', 0) + 1
    else:
        stats['family_' + case['family']] = 1
        nontrivial = True
    obs = None
    if _pipeable(text):
        try:
            obs = _impl_obs(case, text + '\n')
        except Exception as e:
            if out in ('tree', 'ParseException'):
                # oal.parse copes with this very text (it may simply have stopped at a syntax error before the place
                # where the lexer raises): an exception below a lexer the HARNESS drives over the whole text is not a
                # failing input of the implementation.  It is an observation - the model has a token stream for
                # every text, so K fails on the case and the enlarged search looks for a text on which oal.parse
                # itself ends in that exception; a harness-side cause ends in no-failing-input-found.
                stats['lexer_raised_but_parse_copes'] = 1
                return {'obs': [Sym('lexer-raised'), type(e).__name__], 'd_fail': fails[:4], 'nontrivial': nontrivial,
                        'key': text, 'stats': stats}
            fails.append({'sig': 'lexer-exception:%s' % type(e).__name__,
                          'what': 'the lexer raised %s: %s on %r (oal.parse: %s)' % (type(e).__name__, str(e)[:100], short, out)})
            obs = 'lexer-exception'
    if case['kind'] == 'grammar':
        obs = _ply_productions()
        stats['ply_productions'] = len(obs)
    if unsound is not None:
        # a pair the proved theorem accepts but the real lexer splits differently: the lexer model (or the
        # well-formedness of the generated lexeme) is wrong - make the correspondence fail on this case
        obs = ['tight-unsound', unsound, obs]
    return {'obs': obs, 'd_fail': fails[:4], 'nontrivial': nontrivial, 'key': text, 'stats': stats}


# ------------------------------------------------------------------------------------------ model

def model_line(case):
    if case['kind'] == 'grammar':
        return '(c13-grammar)'
    if case['kind'] == 'guard':
        return None
    if case['kind'] == 'regex':
        return '(c13-regex %s %s)' % (case['ast'], ' '.join(dumps(t) for t in case['texts']))
    text = case['text']
    if not _pipeable(text):
        return None
    if len(text) > 6000:
        return None              # the model is exercised up to 6000 characters; longer inputs are timing cases only
    spans = [[f, l] for _, f, l, _ in case.get('nodes', [])]
    return dumps([Sym('c13-lex'), text + '\n'] + spans)


def model_obs(case, ans):
    if case['kind'] == 'grammar':
        return sorted(ans, key=lambda x: (x[0], x[3]))
    return ans


def shrink_candidates(case):
    if case['kind'] in ('pos', 'seq', 'tight', 'grammar', 'regex', 'strnl', 'guard'):
        return
    text = case['text']
    n = len(text)
    if case['kind'] == 'time':
        return
    step = max(1, n // 8)
    while step >= 1:
        for i in range(0, n, step):
            c = dict(case)
            c['text'] = text[:i] + text[i + step:]
            if c['text'] != text:
                yield c
        if step == 1:
            break
        step //= 2
