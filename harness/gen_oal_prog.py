"""Type-directed generator of OAL programs, populations and schema text (properties C04 and C15).

Fixed schema (4 classes; 1:1, 1:M, reflexive with phrases, association class):

    A(ID, n, s, b, tag)   B(ID, A1_ID*, A2_ID*, n, s)   X(ID, Next_ID*, n, b)   L(ID, A_ID*, X_ID*, n)     (* referential)
    M(ID, Boss_ID*, Sub_ID*, n)    R5  X 'manages' <-- M --> 'is managed by' X   (a REFLEXIVE association class: the phrase
                                   alone selects the half; used by the family st_reflexive_using only)
    R1  B 1C ---- 1C A          R2  B MC ---- 1C A          R3  X 1C 'next' ---- 1C X 'prev'
    R4  A 1 ---- MC L MC ---- 1 X      (L is the association class: two ROPs numbered R4)

Programs are JSON-able trees (lists) rendered to OAL text by `render`.  The generator keeps a static
environment (which variables are in scope and surely assigned, their type, for instance handles whether they are
surely non-empty and whether they may refer to a deleted instance) and only emits statements whose preconditions it
can establish statically or that it guards IN THE OAL ITSELF (`if (not_empty v)`, `if (empty t)` before a relate,
`if (d != 0)` before a division ...).  Loops decide up front which outer handles they may re-assign and which classes
they may delete from, and weaken those facts at loop entry.  The analysis is a heuristic for a high yield; membership
of the property's domain (error-free under the language's rules) is DECIDED by the reference semantics `Spec` in Lean,
which flags every use outside the domain - such programs are dropped and counted by the harness.
"""
from sexp import Sym, NONE as NONE_SYM

# ----------------------------------------------------------------------------------------------- schema

CLASSES = [
    ('A', [('ID', 'unique_id', False), ('n', 'integer', False), ('s', 'string', False), ('b', 'boolean', False),
           ('tag', 'unique_id', False)]),
    ('B', [('ID', 'unique_id', False), ('A1_ID', 'unique_id', True), ('A2_ID', 'unique_id', True),
           ('n', 'integer', False), ('s', 'string', False)]),
    ('X', [('ID', 'unique_id', False), ('Next_ID', 'unique_id', True), ('n', 'integer', False),
           ('b', 'boolean', False)]),
    ('L', [('ID', 'unique_id', False), ('A_ID', 'unique_id', True), ('X_ID', 'unique_id', True),
           ('n', 'integer', False)]),
    # the association class of the REFLEXIVE associative relationship R5: X 'manages' <-- M --> 'is managed by' X
    ('M', [('ID', 'unique_id', False), ('Boss_ID', 'unique_id', True), ('Sub_ID', 'unique_id', True),
           ('n', 'integer', False)]),
]
CLASS_ATTRS = dict(CLASSES)
SQL_TYPE = {'unique_id': 'UNIQUE_ID', 'integer': 'INTEGER', 'string': 'STRING', 'boolean': 'BOOLEAN'}

# (rel, source class, source card, source key, source phrase, target class, target card, target key, target phrase)
ASSOCS = [
    ('R1', 'B', '1C', 'A1_ID', '', 'A', '1C', 'ID', ''),
    ('R2', 'B', 'MC', 'A2_ID', '', 'A', '1C', 'ID', ''),
    ('R3', 'X', '1C', 'Next_ID', 'next', 'X', '1C', 'ID', 'prev'),
    ('R4', 'L', 'MC', 'A_ID', '', 'A', '1', 'ID', ''),
    ('R4', 'L', 'MC', 'X_ID', '', 'X', '1', 'ID', ''),
    # as bridgepoint.ooaofooa.mk_linked_association defines a linked association whose two ends are the same class: the
    # phrase alone selects the half (boss end: M.Boss_ID, subordinate end: M.Sub_ID)
    ('R5', 'M', 'MC', 'Boss_ID', 'is managed by', 'X', '1', 'ID', 'manages'),
    ('R5', 'M', 'MC', 'Sub_ID', 'manages', 'X', '1', 'ID', 'is managed by'),
]
ID_BASE = {'A': 1000, 'B': 2000, 'X': 3000, 'L': 4000, 'M': 5000}

# navigation edges: (from class, to class, rel, phrase, to-many?)
EDGES = [
    ('A', 'B', 'R1', '', False), ('B', 'A', 'R1', '', False),
    ('A', 'B', 'R2', '', True), ('B', 'A', 'R2', '', False),
    ('X', 'X', 'R3', 'next', False), ('X', 'X', 'R3', 'prev', False),
    ('A', 'L', 'R4', '', True), ('L', 'A', 'R4', '', False),
    ('X', 'L', 'R4', '', True), ('L', 'X', 'R4', '', False),
    ('A', 'X', 'R4', '', True), ('X', 'A', 'R4', '', True),
]


def schema_sql():
    out = []
    for name, attrs in CLASSES:
        out.append('CREATE TABLE %s (%s);' % (name, ', '.join('%s %s' % (a, SQL_TYPE[t]) for a, t, _ in attrs)))
    for rel, sc, scard, skey, sph, tc, tcard, tkey, tph in ASSOCS:
        s = 'CREATE ROP REF_ID %s FROM %s %s (%s)' % (rel, scard, sc, skey)
        if sph:
            s += " PHRASE '%s'" % sph
        s += ' TO %s %s (%s)' % (tcard, tc, tkey)
        if tph:
            s += " PHRASE '%s'" % tph
        out.append(s + ';')
    return '\n'.join(out) + '\n'


def ctx_sexp(callables=()):
    classes = [[Sym('cls'), name] + [[a, Sym(t), Sym('T') if r else Sym('F')] for a, t, r in attrs]
               for name, attrs in CLASSES]
    assocs = [[Sym('assoc'), rel, sc, tc, sph, tph, Sym('T') if 'M' in scard else Sym('F'),
               Sym('T') if 'M' in tcard else Sym('F'), [skey], [tkey]]
              for rel, sc, scard, skey, sph, tc, tcard, tkey, tph in ASSOCS]
    return [Sym('ctx'), [Sym('classes')] + classes, [Sym('assocs')] + assocs, [Sym('callables')] + list(callables)]


# ----------------------------------------------------------------------------------------------- populations

STRINGS = ['', 'a', 'b', 'ab', 'ba', 'x y', 'Zz', 'a1']
# integers beyond the range in which a float represents every integer (2**53): up to about 2**70, both signs
BIG_INTS = [2 ** 53 + 1, 2 ** 53 + 3, -(2 ** 53 + 1), 3 ** 40, -(3 ** 40), 2 ** 55 - 7, 2 ** 62 - 1, -(2 ** 62 + 5),
            2 ** 64 + 11, 2 ** 70 + 13, -(2 ** 70 + 9), 10 ** 18 + 7, 9007199254740993, 36028797018963971]


def gen_population(rng, max_per_class=4):
    """{'inst': {cls: [ {attr: value} ]}, 'links': [ [ (source idx, target idx) ] per association ]}"""
    inst = {}
    counts = {}
    for name, attrs in CLASSES:
        k = rng.choice([0, 1, 2, 2, 3, 3, max_per_class, max_per_class + 1]) if max_per_class >= 3 else rng.randint(0, max_per_class)
        counts[name] = k
        rows = []
        for i in range(k):
            row = {}
            for a, t, ref in attrs:
                if ref:
                    continue
                if a == 'ID':
                    row[a] = ID_BASE[name] + i
                elif t == 'unique_id':
                    row[a] = rng.randint(50, 60)
                elif t == 'integer':
                    row[a] = rng.choice([0, 1, 1, 2, 3, 5, 7, -1, -2, -7, 10])
                    if rng.random() < 0.06:
                        row[a] = rng.choice(BIG_INTS)
                elif t == 'string':
                    row[a] = rng.choice(STRINGS)
                else:
                    row[a] = rng.random() < 0.5
            rows.append(row)
        inst[name] = rows
    links = []
    for rel, sc, scard, skey, sph, tc, tcard, tkey, tph in ASSOCS:
        pairs = []
        ns, nt = counts[sc], counts[tc]
        src_many = 'M' in scard
        used_t = set()
        for si in range(ns):
            if nt == 0 or rng.random() < 0.35:
                continue
            ti = rng.randrange(nt)
            if not src_many:
                if ti in used_t:
                    continue
                used_t.add(ti)
            if rel == 'R3' and si == ti and rng.random() < 0.8:
                continue
            pairs.append((si, ti))
        links.append(pairs)
    return {'inst': inst, 'links': links}


def _sql_value(t, v):
    if t == 'string':
        return "'%s'" % v.replace("'", "''")
    if t == 'boolean':
        return 'TRUE' if v else 'FALSE'
    if v < 0:
        return '-%d' % -v
    return '%d' % v


def population_sql(pop, rng=None):
    """INSERT statements (optionally in a permuted order: the loader is order-independent)"""
    stmts = []
    for name, attrs in CLASSES:
        for i, row in enumerate(pop['inst'][name]):
            vals = []
            for a, t, ref in attrs:
                if not ref:
                    vals.append(_sql_value(t, row[a]))
                    continue
                v = 0
                for k, (rel, sc, scard, skey, sph, tc, tcard, tkey, tph) in enumerate(ASSOCS):
                    if sc == name and skey == a:
                        for si, ti in pop['links'][k]:
                            if si == i:
                                v = pop['inst'][tc][ti]['ID']
                vals.append('%d' % v)
            stmts.append((name, 'INSERT INTO %s VALUES (%s);' % (name, ', '.join(vals))))
    # instances of one class keep their relative order (it is the creation order the canonical names use)
    return '\n'.join(s for _, s in stmts) + '\n'


def initial_next_id(pop):
    n = 1
    for name, attrs in CLASSES:
        per = sum(1 for a, t, ref in attrs if t == 'unique_id' and not ref)
        n += per * len(pop['inst'][name])
    return n


def _val_sexp(v):
    if v is True:
        return Sym('T')
    if v is False:
        return Sym('F')
    return v


def state_sexp(pop, next_id):
    popsec = [Sym('pop')]
    for name, attrs in CLASSES:
        rows = pop['inst'][name]
        popsec.append([name, len(rows)] + [[i] + [_val_sexp(row[a]) for a, t, ref in attrs if not ref]
                                           for i, row in enumerate(rows)])
    linksec = [Sym('links')]
    for k, (rel, sc, scard, skey, sph, tc, tcard, tkey, tph) in enumerate(ASSOCS):
        linksec.append([k] + [[sc, si, tc, ti] for si, ti in sorted(pop['links'][k])])
    return [Sym('state'), [Sym('nextId'), next_id], popsec, linksec]


# ----------------------------------------------------------------------------------------------- rendering

KEYWORD_OPS = ('and', 'or', 'not', 'cardinality', 'empty', 'not_empty')


def _kw(op, up):
    return op.upper() if (up and op in KEYWORD_OPS) else op


def render_expr(e, up=False):
    k = e[0]
    if k == 'int':
        return '%d' % e[1] if e[1] >= 0 else '-%d' % -e[1]
    if k == 'str':
        return '"%s"' % e[1]
    if k == 'bool':
        return 'true' if e[1] else 'false'
    if k == 'var':
        return e[1]
    if k == 'selected':
        return 'selected'
    if k == 'self':
        return 'self'
    if k == 'param':
        return 'param.%s' % e[1]
    if k == 'attr':
        return '%s.%s' % (render_expr(e[1], up), e[2])
    if k == 'bin':
        return '(%s %s %s)' % (render_expr(e[2], up), _kw(e[1], up), render_expr(e[3], up))
    if k == 'un':
        if e[1] in ('cardinality', 'empty', 'not_empty', 'not'):
            return '(%s %s)' % (_kw(e[1], up), render_expr(e[2], up))
        return '(%s%s)' % (e[1], render_expr(e[2], up))
    if k == 'enum':
        return '%s::%s' % (e[1], e[2])
    if k == 'callf':
        return '::%s(%s)' % (e[1], _render_args(e[2], up))
    if k == 'calln':
        return '%s::%s(%s)' % (e[1], e[2], _render_args(e[3], up))
    if k == 'callo':
        return '%s.%s(%s)' % (render_expr(e[1], up), e[2], _render_args(e[3], up))
    raise ValueError(k)


def _render_args(args, up):
    return ', '.join('%s: %s' % (n, render_expr(x, up)) for n, x in args)


def _rel(rel, phrase):
    return "%s.'%s'" % (rel, phrase) if phrase else rel


def render_block(stmts, ind, up):
    out = []
    for s in stmts:
        out.extend(render_stmt(s, ind, up))
    return out


def render_stmt(s, ind=0, up=False):
    p = '  ' * ind
    k = s[0]
    if k == 'assign':
        return ['%s%s = %s;' % (p, s[1], render_expr(s[2], up))]
    if k == 'setattr':
        return ['%s%s.%s = %s;' % (p, render_expr(s[1], up), s[2], render_expr(s[3], up))]
    if k == 'if':
        out = ['%sif (%s)' % (p, render_expr(s[1], up))] + render_block(s[2], ind + 1, up)
        for c, b in s[3]:
            out += ['%selif (%s)' % (p, render_expr(c, up))] + render_block(b, ind + 1, up)
        if s[4] is not None:
            out += ['%selse' % p] + render_block(s[4], ind + 1, up)
        return out + ['%send if;' % p]
    if k == 'while':
        return ['%swhile (%s)' % (p, render_expr(s[1], up))] + render_block(s[2], ind + 1, up) + ['%send while;' % p]
    if k == 'foreach':
        return ['%sfor each %s in %s' % (p, s[1], s[2])] + render_block(s[3], ind + 1, up) + ['%send for;' % p]
    if k == 'break':
        return [p + 'break;']
    if k == 'continue':
        return [p + 'continue;']
    if k == 'stop':
        return [p + 'control stop;']
    if k == 'return':
        return [p + ('return;' if s[1] is None else 'return %s;' % render_expr(s[1], up))]
    if k == 'create':
        if s[1] is None:
            return ['%screate object instance of %s;' % (p, s[2])]
        return ['%screate object instance %s of %s;' % (p, s[1], s[2])]
    if k == 'delete':
        return ['%sdelete object instance %s;' % (p, s[1])]
    if k == 'relate':
        return ['%srelate %s to %s across %s;' % (p, s[1], s[2], _rel(s[3], s[4]))]
    if k == 'relate_using':
        return ['%srelate %s to %s across %s using %s;' % (p, s[1], s[2], _rel(s[3], s[4]), s[5])]
    if k == 'unrelate':
        return ['%sunrelate %s from %s across %s;' % (p, s[1], s[2], _rel(s[3], s[4]))]
    if k == 'unrelate_using':
        return ['%sunrelate %s from %s across %s using %s;' % (p, s[1], s[2], _rel(s[3], s[4]), s[5])]
    if k == 'select_from':
        w = '' if s[4] is None else ' where (%s)' % render_expr(s[4], up)
        return ['%sselect %s %s from instances of %s%s;' % (p, s[1], s[2], s[3], w)]
    if k == 'select_rel':
        chain = ''.join('->%s[%s]' % (kl, _rel(rel, ph)) for kl, rel, ph in s[4])
        w = '' if s[5] is None else ' where (%s)' % render_expr(s[5], up)
        return ['%sselect %s %s related by %s%s%s;' % (p, s[1], s[2], render_expr(s[3], up), chain, w)]
    if k == 'call':
        return ['%s%s;' % (p, render_expr(s[1], up))]
    if k == 'kwcall':
        # `bridge v = EE::b(..);` / `bridge EE::b(..);` / `transform v = C::op(..);` / `transform h.op(..);`
        inner = render_stmt(s[2], 0, up)
        return ['%s%s %s' % (p, s[1], inner[0])]
    raise ValueError(k)


def render(prog, up=False):
    return '\n'.join(render_block(prog, 0, up)) + '\n'


# ----------------------------------------------------------------------------------------------- the program as a tree

def _S(name, *args):
    return [Sym(name)] + list(args)


def _phrase_sexp(ph):
    return "'%s'" % ph if ph else ''


def expr_sexp(e):
    """the expression in the wire format of harness/oal_sexp.py, built from the GENERATOR's tree (not from a parse):
    what the reference semantics is given does not pass through the parser under test"""
    k = e[0]
    if k == 'int':
        if e[1] < 0:
            return _S('UnaryOperationNode', '-', _S('IntegerNode', '%d' % -e[1]))
        return _S('IntegerNode', '%d' % e[1])
    if k == 'str':
        return _S('StringNode', '"%s"' % e[1])
    if k == 'bool':
        return _S('BooleanNode', 'true' if e[1] else 'false')
    if k == 'var':
        return _S('VariableAccessNode', e[1])
    if k == 'selected':
        return _S('SelectedAccessNode', 'selected')
    if k == 'self':
        return _S('SelfAccessNode', 'self')
    if k == 'param':
        return _S('ParamAccessNode', e[1])
    if k == 'attr':
        return _S('FieldAccessNode', expr_sexp(e[1]), e[2])
    if k == 'bin':
        return _S('BinaryOperationNode', expr_sexp(e[2]), e[1], expr_sexp(e[3]))
    if k == 'un':
        return _S('UnaryOperationNode', e[1], expr_sexp(e[2]))
    if k == 'enum':
        return _S('EnumOrNamedConstantNode', e[1], e[2])
    if k == 'callf':
        return _S('FunctionInvocationNode', e[1], _args_sexp(e[2]))
    if k == 'calln':
        return _S('ImplicitInvocationNode', e[1], e[2], _args_sexp(e[3]))
    if k == 'callo':
        return _S('InstanceInvocationNode', expr_sexp(e[1]), e[2], _args_sexp(e[3]))
    raise ValueError(k)


def _args_sexp(args):
    return _S('ParameterListNode', *[_S('ParameterNode', n, expr_sexp(x)) for n, x in args])


def block_sexp(stmts):
    return _S('BlockNode', _S('StatementListNode', *[stmt_sexp(s) for s in stmts]))


def stmt_sexp(s):
    k = s[0]
    if k == 'assign':
        return _S('AssignmentNode', _S('VariableAccessNode', s[1]), expr_sexp(s[2]))
    if k == 'setattr':
        return _S('AssignmentNode', _S('FieldAccessNode', expr_sexp(s[1]), s[2]), expr_sexp(s[3]))
    if k == 'if':
        elifs = _S('ElIfListNode', *[_S('ElIfNode', expr_sexp(c), block_sexp(b)) for c, b in s[3]])
        els = NONE_SYM if s[4] is None else _S('ElseNode', block_sexp(s[4]))
        return _S('IfNode', expr_sexp(s[1]), block_sexp(s[2]), elifs, els)
    if k == 'while':
        return _S('WhileNode', expr_sexp(s[1]), block_sexp(s[2]))
    if k == 'foreach':
        return _S('ForEachNode', s[1], s[2], block_sexp(s[3]))
    if k == 'break':
        return _S('BreakNode')
    if k == 'continue':
        return _S('ContinueNode')
    if k == 'stop':
        return _S('ControlNode')
    if k == 'return':
        return _S('ReturnNode', NONE_SYM if s[1] is None else expr_sexp(s[1]))
    if k == 'create':
        return _S('CreateObjectNoVariableNode', s[2]) if s[1] is None else _S('CreateObjectNode', s[1], s[2])
    if k == 'delete':
        return _S('DeleteNode', s[1])
    if k == 'relate':
        return _S('RelateNode', s[1], s[2], s[3], _phrase_sexp(s[4]))
    if k == 'relate_using':
        return _S('RelateUsingNode', s[1], s[2], s[3], _phrase_sexp(s[4]), s[5])
    if k == 'unrelate':
        return _S('UnrelateNode', s[1], s[2], s[3], _phrase_sexp(s[4]))
    if k == 'unrelate_using':
        return _S('UnrelateUsingNode', s[1], s[2], s[3], _phrase_sexp(s[4]), s[5])
    if k == 'select_from':
        if s[4] is None:
            return _S('SelectFromNode', s[1], s[2], s[3])
        return _S('SelectFromWhereNode', s[1], s[2], s[3], expr_sexp(s[4]))
    if k == 'select_rel':
        chain = _S('NavigationListNode', *[_S('NavigationStepNode', kl, rel, _phrase_sexp(ph)) for kl, rel, ph in s[4]])
        if s[5] is None:
            return _S('SelectRelatedNode', s[1], s[2], expr_sexp(s[3]), chain)
        return _S('SelectRelatedWhereNode', s[1], s[2], expr_sexp(s[3]), chain, expr_sexp(s[5]))
    if k == 'call':
        return _S('InvocationStatementNode', expr_sexp(s[1]))
    if k == 'kwcall':
        inner = stmt_sexp(s[2])
        call = inner[-1]
        if call[0] == 'ImplicitInvocationNode':
            call = [Sym('BridgeInvocationNode' if s[1] == 'bridge' else 'ClassInvocationNode')] + call[1:]
        return inner[:-1] + [call]
    raise ValueError(k)


def tree_sexp(prog):
    """the whole body: `(BodyNode (BlockNode (StatementListNode …)))`"""
    return _S('BodyNode', block_sexp(prog))


def same_tree(a, b):
    """equality of two wire trees up to the letter case of keyword-like strings (operators / cardinalities in the
    spelling of the text; the decoder normalises them)"""
    from sexp import dumps
    return dumps(a).lower() == dumps(b).lower()


def keyword_calls(prog, rng, is_bridge, prob=0.4):
    """statements whose whole right-hand side (or the whole statement) is one invocation `NS::name(..)` / `h.op(..)`: some
    of them in the keyword forms `bridge ..` / `transform ..` (other parser productions, other evaluators of the
    interpreter: accept_BridgeInvocationNode / accept_ClassInvocationNode)"""
    out = []
    for st in prog:
        k = st[0]
        if k == 'if':
            st = ['if', st[1], keyword_calls(st[2], rng, is_bridge, prob),
                  [[c, keyword_calls(b, rng, is_bridge, prob)] for c, b in st[3]],
                  None if st[4] is None else keyword_calls(st[4], rng, is_bridge, prob)]
        elif k == 'while':
            st = ['while', st[1], keyword_calls(st[2], rng, is_bridge, prob)]
        elif k == 'foreach':
            st = ['foreach', st[1], st[2], keyword_calls(st[3], rng, is_bridge, prob)]
        elif k in ('assign', 'call'):
            e = st[-1]
            if isinstance(e, list) and e and e[0] in ('calln', 'callo') and rng.random() < prob:
                kw = 'transform' if e[0] == 'callo' or not is_bridge(e[1]) else 'bridge'
                st = ['kwcall', kw, st]
        out.append(st)
    return out


def count_kinds(prog, stats=None, depth=0):
    """static statement-kind histogram and the maximal nesting depth"""
    stats = stats if stats is not None else {}
    stats['max_depth'] = max(stats.get('max_depth', 0), depth)
    for s in prog:
        k = s[0]
        if k in ('select_from', 'select_rel'):
            k = '%s_%s%s' % (k, s[1], '_where' if s[-1] is not None else '')
            if s[0] == 'select_rel':
                stats['chain_len_%d' % len(s[4])] = stats.get('chain_len_%d' % len(s[4]), 0) + 1
        if k == 'return' and s[1] is None:
            k = 'return_bare'
        stats['stmt_' + k] = stats.get('stmt_' + k, 0) + 1
        if s[0] == 'if':
            count_kinds(s[2], stats, depth + 1)
            for c, b in s[3]:
                stats['stmt_elif'] = stats.get('stmt_elif', 0) + 1
                count_kinds(b, stats, depth + 1)
            if s[4] is not None:
                stats['stmt_else'] = stats.get('stmt_else', 0) + 1
                count_kinds(s[4], stats, depth + 1)
        elif s[0] == 'while':
            count_kinds(s[2], stats, depth + 1)
        elif s[0] == 'foreach':
            count_kinds(s[3], stats, depth + 1)
    return stats


def expr_is_literal(e):
    """a condition built from literals only is constant by construction"""
    k = e[0]
    if k in ('int', 'str', 'bool'):
        return True
    if k == 'bin':
        return expr_is_literal(e[2]) and expr_is_literal(e[3])
    if k == 'un':
        return expr_is_literal(e[2])
    return False


def conditions(prog):
    """all condition expressions (if / elif / while / where) of a program"""
    for s in prog:
        if s[0] == 'if':
            yield ('if', s[1])
            yield from conditions(s[2])
            for c, b in s[3]:
                yield ('elif', c)
                yield from conditions(b)
            if s[4] is not None:
                yield from conditions(s[4])
        elif s[0] == 'while':
            yield ('while', s[1])
            yield from conditions(s[2])
        elif s[0] == 'foreach':
            yield from conditions(s[3])
        elif s[0] in ('select_from', 'select_rel') and s[-1] is not None:
            yield ('where', s[-1])


# ----------------------------------------------------------------------------------------------- generator

DEFAULT_SCHEMA = {'classes': CLASS_ATTRS, 'order': ['A', 'B', 'X', 'L'], 'edges': EDGES, 'assoc': True}


class V(object):
    """static facts about a variable"""
    __slots__ = ('ty', 'cls', 'ne', 'dead', 'frozen')

    def __init__(self, ty, cls=None, ne=False, dead=False, frozen=False):
        self.ty, self.cls, self.ne, self.dead, self.frozen = ty, cls, ne, dead, frozen

    def copy(self):
        return V(self.ty, self.cls, self.ne, self.dead, self.frozen)


class ProgGen(object):
    """One program.  `calls`: signatures of callables that may be invoked (C15): dicts with keys
    kind ('function'|'bridge'|'classop'|'instop'), name, ns (EE / class), params [(name, ty)], ret (ty or None),
    pure (bool: no effect on the population)."""

    def __init__(self, rng, max_stmts=25, max_depth=3, params=(), calls=(), self_cls=None, derived=(),
                 allow_delete=True, allow_mutation=True, enums=(), consts=(), var_prefix='', schema=None,
                 ret_ty='any', rec_call=None, derived_attr=None, create_in_loops=True, max_call_sites=99,
                 big_ints=0.05, derived_chain=None, derived_nav=False, neg_mod=0.0, zero_div=0.0):
        self.rng = rng
        schema = schema or DEFAULT_SCHEMA
        self.classes = schema['classes']          # {class: [(attr, ty, referential)]}
        self.cls_names = list(schema['order'])
        self.edges = schema['edges']
        self.assoc = schema['assoc']              # the R1..R4 associations of the fixed schema are there
        self.ret_ty = ret_ty                      # 'any' (top-level program), a type name, or None (no value)
        self.rec_call = rec_call                  # signature of a callable to call under `if (param.cnt > 0)`
        self.derived_attr = derived_attr          # name of the derived attribute whose body this is
        self.create_in_loops = create_in_loops    # callables: no, so that the population grows linearly in the number of calls
        self.call_sites = max_call_sites          # how many more call sites this body may get
        self.foreach_depth = 0
        self.big_ints = big_ints                  # probability of a literal beyond 2**53 where an integer literal is generated
        self.derived_chain = derived_chain        # (attribute, helper operation or None): read it on ANOTHER instance
        self.derived_nav = derived_nav            # the derivation reads the instances related to self
        self.neg_mod = neg_mod                    # probability that a `%` gets an arbitrary (possibly negative) dividend and a divisor of either sign
        self.zero_div = zero_div                  # probability that the divisor of a `/` or `%` is zero (the program then ends in an error)
        self.self_rels = schema.get('rels', [])   # [(rel, source class, target class)]: simple associations usable with the NAME self
        self.self_deleted = False
        self.snapshot_done = False
        self.reflexive_using_done = False
        self.else_ctl_done = False
        self.loop_where_done = False
        self.related_where_done = False
        self.budget = max_stmts
        self.max_depth = max_depth
        self.params = list(params)            # [(name, ty)]
        self.calls = list(calls)
        self.self_cls = self_cls              # class of `self` (instance operations / derived attributes) or None
        self.derived = list(derived)          # [(cls, attr, ty)] derived attributes readable as attributes
        self.allow_delete = allow_delete
        self.allow_mutation = allow_mutation
        self.enums = list(enums)              # [(enum name, [enumerator...])]
        self.consts = list(consts)            # [(name, ty)]
        self.scopes = [{}]
        self.counter = 0
        self.loop_depth = 0
        self.prefix = var_prefix
        self.loop_del = []                    # per enclosing loop: {cls: 'none'|'loopvar'|'any'}
        self.loop_reassign = []               # per enclosing loop: set of outer handle names that may be re-selected
        self.uppercase = rng.random() < 0.15
        self.pure_only = 0
        self.str_bound = 8       # upper bound on the length of any string value so far (growth control)
        self.int_bits = 72       # upper bound on the bit size of any integer value so far (attribute values reach 2**70)

    # -- environment ---------------------------------------------------------------------------
    def fresh(self, stem):
        self.counter += 1
        return '%s%s%d' % (self.prefix, stem, self.counter)

    # growth control: inside loops (and once values are large) a string expression has at most one non-literal
    # leaf and a product has a literal factor, so sizes grow linearly in the number of executed statements
    def tight_str(self):
        # a callable body runs many times on a persistent population: always tight there
        return self.loop_depth > 0 or self.str_bound > 3000 or self.ret_ty != 'any'

    def tight_int(self):
        return self.loop_depth > 0 or self.int_bits > 2000 or self.ret_ty != 'any'

    def note_value(self, ty, e):
        if self.loop_depth > 0:
            return
        if ty == 'string':
            k = _nonliteral_leaves(e)
            self.str_bound = max(self.str_bound, k * self.str_bound + 12)
        elif ty == 'integer':
            self.int_bits = max(self.int_bits, _bits(e, self.int_bits))

    def lookup(self, name):
        for sc in reversed(self.scopes):
            if name in sc:
                return sc[name]
        return None

    def visible(self):
        out = {}
        for sc in self.scopes:
            out.update(sc)
        return out

    def declare(self, name, v):
        old = self.lookup(name)
        if old is not None:
            # the interpreter updates the existing binding wherever it lives
            old.ty, old.cls, old.ne, old.dead = v.ty, v.cls, v.ne, v.dead
        else:
            self.scopes[-1][name] = v

    def vars_of(self, ty, cls=None, pred=None):
        out = []
        for n, v in self.visible().items():
            if v.ty == ty and (cls is None or v.cls == cls) and (pred is None or pred(v)):
                out.append(n)
        return sorted(out)

    def snapshot(self):
        return [{n: v.copy() for n, v in sc.items()} for sc in self.scopes]

    def restore(self, snap):
        self.scopes = [{n: v.copy() for n, v in sc.items()} for sc in snap]

    def merge(self, snaps):
        """join of the facts at the end of alternative paths (same scope shape: inner declarations are gone)"""
        base = snaps[0]
        for other in snaps[1:]:
            for sc, osc in zip(base, other):
                for n, v in sc.items():
                    o = osc.get(n)
                    if o is None:
                        continue
                    v.ne = v.ne and o.ne
                    v.dead = v.dead or o.dead
        self.restore(base)

    def mark_deleted(self, cls, except_name=None):
        for sc in self.scopes:
            for n, v in sc.items():
                if v.cls == cls and v.ty in ('inst', 'set'):
                    v.dead = True

    # -- expressions ---------------------------------------------------------------------------
    def usable_insts(self, cls=None):
        return self.vars_of('inst', cls, lambda v: v.ne and not v.dead)

    def handle_exprs(self, cls=None, extra=()):
        """expressions denoting a surely non-empty, live instance: variables, self, extra (e.g. selected)"""
        out = [(['var', n], self.lookup(n).cls) for n in self.usable_insts(cls)]
        if self.self_cls and (cls is None or cls == self.self_cls):
            out.append((['self'], self.self_cls))
        for e, c in extra:
            if cls is None or c == cls:
                out.append((e, c))
        return out

    def attrs_of(self, cls, ty):
        out = [a for a, t, ref in self.classes[cls] if not ref and t == ty]
        out += [a for c, a, t in self.derived if c == cls and t == ty]
        return out

    def gen_expr(self, ty, depth=2, extra=()):
        r = self.rng
        leaf = depth <= 0 or r.random() < 0.3
        if ty == 'integer':
            return self._int(depth, leaf, extra)
        if ty == 'string':
            return self._str(depth, leaf, extra)
        if ty == 'boolean':
            return self._bool(depth, leaf, extra)
        if ty == 'unique_id':
            return self._uid(extra)
        raise ValueError(ty)

    def _leaf_sources(self, ty, extra):
        """variables, parameters, attributes of usable handles, constants of type ty"""
        out = [['var', n] for n in self.vars_of(ty)]
        out += [['param', n] for n, t in self.params if t == ty]
        out += [['var', n] for n, t in self.consts if t == ty]
        for h, c in self.handle_exprs(extra=extra):
            for a in self.attrs_of(c, ty):
                out.append(['attr', h, a])
        return out

    def _call_expr(self, ty, depth, extra):
        cands = [c for c in self.calls if c['ret'] == ty and (c['pure'] or not (self.pure_only or not self.allow_mutation))]
        self.rng.shuffle(cands)
        for c in cands:
            e = self.gen_call(c, depth, extra)
            if e is not None:
                return e
        return None

    def gen_call(self, c, depth=1, extra=()):
        if self.call_sites <= 0:
            return None
        if self.foreach_depth > 0 and not self.create_in_loops and not c['pure']:
            return None     # a callee that creates instances, per element of an instance set: the population would multiply
        self.call_sites -= 1
        args = [[n, (['int', self.rng.choice([0, 0, 1, 1, 2])] if n == 'cnt' else self.gen_expr(t, min(depth, 1), extra))]
                for n, t in c['params']]
        self.rng.shuffle(args)          # binding is by name: the order at the call site is free
        if c['kind'] == 'function':
            return ['callf', c['name'], args]
        if c['kind'] in ('bridge', 'classop'):
            return ['calln', c['ns'], c['name'], args]
        hs = self.handle_exprs(c['ns'], extra)
        if not hs:
            return None
        return ['callo', self.rng.choice(hs)[0], c['name'], args]

    def _int(self, depth, leaf, extra):
        r = self.rng
        leaf = leaf or depth <= 0
        srcs = self._leaf_sources('integer', extra)
        if leaf:
            if srcs and r.random() < 0.75:
                return r.choice(srcs)
            if self.enums and r.random() < 0.3:
                en, names = r.choice(self.enums)
                return ['enum', en, r.choice(names)]
            if r.random() < self.big_ints:
                return ['int', r.choice(BIG_INTS)]
            return ['int', r.choice([0, 1, 2, 3, 4, 5, 7, 10, -1, -2, -3, -5, 12])]
        c = r.random()
        if c < 0.1 and self.calls:
            e = self._call_expr('integer', depth - 1, extra)
            if e is not None:
                return e
        if c < 0.2:
            hs = [n for n, v in self.visible().items() if v.ty in ('inst', 'set')]
            if hs:
                return ['un', 'cardinality', ['var', r.choice(sorted(hs))]]
        if c < 0.3:
            return ['un', r.choice(['-', '-', '+']), self._int(depth - 1, False, extra)]
        if c < 0.45:
            # division by a non-zero literal: negative operands on either side exercise truncation toward zero,
            # operands beyond 2**53 exercise exactness
            num = self._int(depth - 1, False, extra)
            if r.random() < 3 * self.big_ints:
                num = ['bin', r.choice(['+', '-']), ['int', r.choice(BIG_INTS)], num]
            den = ['int', r.choice([1, 2, 3, 4, 5, 7, -1, -2, -3, -4])]
            if r.random() < self.big_ints:
                den = ['int', r.choice([2 ** 53 + 1, -(2 ** 53 + 3), 3 ** 20])]
            if self.zero_div and r.random() < self.zero_div:
                den = self._zero(extra)
            return ['bin', '/', num, den]
        if c < 0.5:
            if self.neg_mod and r.random() < self.neg_mod:
                # the remainder with operands of either sign: its sign follows the dividend (the remainder of the
                # truncating division); operands beyond 2**53 exercise exactness
                num = self._int(depth - 1, False, extra)
                if r.random() < 0.4:
                    num = ['un', '-', num]
                den = ['int', r.choice([2, 3, 5, 7, -2, -3, -5, -7, 1, -1])]
                if r.random() < self.big_ints:
                    den = ['int', r.choice([2 ** 53 + 1, -(2 ** 53 + 3), 3 ** 20])]
                if self.zero_div and r.random() < self.zero_div:
                    den = self._zero(extra)
                return ['bin', '%', num, den]
            # elsewhere % stays on the non-negative domain: (e * e) % positive literal
            x = self._int(depth - 1, True, extra)
            return ['bin', '%', ['bin', '*', x, x], ['int', r.choice([1, 2, 3, 5, 7])]]
        op = r.choice(['+', '+', '-', '-', '*'])
        if op == '*' and self.tight_int():
            return ['bin', op, self._int(depth - 1, False, extra), ['int', r.choice([2, 3, -1, -2, 0, 5])]]
        return ['bin', op, self._int(depth - 1, False, extra), self._int(depth - 1, False, extra)]

    def _zero(self, extra):
        """a divisor that is zero: the literal, or `x - x` for an integer leaf"""
        if self.rng.random() < 0.5:
            return ['int', 0]
        x = self._int(0, True, extra)
        return ['bin', '-', x, x]

    def _str(self, depth, leaf, extra):
        r = self.rng
        leaf = leaf or depth <= 0
        srcs = self._leaf_sources('string', extra)
        if leaf:
            if srcs and r.random() < 0.7:
                return r.choice(srcs)
            return ['str', r.choice(STRINGS)]
        if self.calls and r.random() < 0.15:
            e = self._call_expr('string', depth - 1, extra)
            if e is not None:
                return e
        if self.tight_str():
            lit = ['str', r.choice(STRINGS)]
            one = self._str(0, True, extra)
            return ['bin', '+', one, lit] if r.random() < 0.5 else ['bin', '+', lit, one]
        return ['bin', '+', self._str(depth - 1, False, extra), self._str(depth - 1, False, extra)]

    def _uid(self, extra):
        srcs = self._leaf_sources('unique_id', extra)
        if srcs:
            return self.rng.choice(srcs)
        return None

    def _bool(self, depth, leaf, extra):
        r = self.rng
        leaf = leaf or depth <= 0
        srcs = self._leaf_sources('boolean', extra)
        if leaf:
            if srcs and r.random() < 0.85:
                return r.choice(srcs)
            hs = [n for n, v in self.visible().items() if v.ty in ('inst', 'set')]
            if hs and r.random() < 0.7:
                return ['un', r.choice(['empty', 'not_empty']), ['var', r.choice(sorted(hs))]]
            isrc = self._leaf_sources('integer', extra)
            if isrc:
                return ['bin', r.choice(['<', '<=', '>', '>=', '==', '!=']), r.choice(isrc),
                        ['int', r.choice([0, 1, 2, 3, 5])]]
            return ['bool', r.random() < 0.5]
        c = r.random()
        if c < 0.08 and self.calls:
            e = self._call_expr('boolean', depth - 1, extra)
            if e is not None:
                return e
        if c < 0.4:
            op = r.choice(['<', '<=', '>', '>=', '==', '!='])
            return ['bin', op, self._int(depth - 1, r.random() < 0.6, extra), self._int(depth - 1, r.random() < 0.6, extra)]
        if c < 0.5:
            op = r.choice(['<', '<=', '>', '>=', '==', '!='])
            return ['bin', op, self._str(depth - 1, True, extra), self._str(depth - 1, True, extra)]
        if c < 0.56:
            a, b = self._uid(extra), self._uid(extra)
            if a is not None and b is not None:
                return ['bin', r.choice(['==', '!=']), a, b]
        if c < 0.64:
            hs = self.vars_of('inst')
            if hs:
                a = r.choice(hs)
                same = self.vars_of('inst', self.lookup(a).cls)
                return ['bin', r.choice(['==', '!=']), ['var', a], ['var', r.choice(same)]]
        if c < 0.72:
            hs = [n for n, v in self.visible().items() if v.ty in ('inst', 'set')]
            if hs:
                return ['un', r.choice(['empty', 'not_empty']), ['var', r.choice(sorted(hs))]]
        if c < 0.8:
            return ['un', 'not', self._bool(depth - 1, False, extra)]
        if c < 0.86:
            return ['bin', r.choice(['==', '!=']), self._bool(depth - 1, True, extra), self._bool(depth - 1, True, extra)]
        return ['bin', r.choice(['and', 'or']), self._bool(depth - 1, False, extra), self._bool(depth - 1, False, extra)]

    # -- statements ----------------------------------------------------------------------------
    def gen_program(self):
        prelude = []
        if self.derived_attr is not None:
            # the value depends on the instance: the attributes of self are folded into it by the epilogue
            n1, n2 = self.fresh('i'), self.fresh('s')
            prelude += [['assign', n1, ['attr', ['self'], 'n']], ['assign', n2, ['attr', ['self'], 's']]]
            self.declare(n1, V('integer', frozen=True))
            self.declare(n2, V('string', frozen=True))
        if self.derived_nav and self.edges:
            # the value depends on the LINK STORE: the attributes of the instance(s) related to self
            e = self.rng.choice([e for e in self.edges if e[0] == self.self_cls])
            v = self.fresh('i')
            prelude.append(['assign', v, ['int', 0]])
            if e[4]:
                ps, p = self.fresh(e[1].lower() + 's'), self.fresh(e[1].lower())
                prelude.append(['select_rel', 'many', ps, ['self'], [[e[1], e[2], e[3]]], None])
                prelude.append(['foreach', p, ps, [['assign', v, ['bin', '+', ['bin', '*', ['var', v], ['int', 3]], ['attr', ['var', p], 'n']]]]])
                self.declare(ps, V('set', e[1]))
            else:
                p = self.fresh(e[1].lower())
                prelude.append(['select_rel', self.rng.choice(['one', 'any']), p, ['self'], [[e[1], e[2], e[3]]], None])
                prelude.append(['if', ['un', 'not_empty', ['var', p]],
                                [['assign', v, ['bin', '+', ['attr', ['var', p], 'n'], ['int', 1]]]], [], None])
                self.declare(p, V('inst', e[1], ne=False))
            self.declare(v, V('integer', frozen=True))
        if self.derived_chain is not None:
            # the same-named derived attribute of ANOTHER instance (the one whose n is one less: the chain ends),
            # read directly or through an operation; optionally after this walker has a pending value of its own
            attr, helper = self.derived_chain
            p, v = self.fresh(self.self_cls.lower()), self.fresh('i')
            if self.rng.random() < 0.4:
                prelude.append(['setattr', ['self'], attr, ['int', self.rng.choice([5, 70, -3])]])
            prelude.append(['select_from', 'any', p, self.self_cls,
                            ['bin', '==', ['attr', ['selected'], 'n'], ['bin', '-', ['attr', ['self'], 'n'], ['int', 1]]]])
            prelude.append(['assign', v, ['int', 0]])
            read = ['attr', ['var', p], attr]
            if helper is not None and self.rng.random() < 0.4:
                read = ['callo', ['var', p], helper, []]
            prelude.append(['if', ['un', 'not_empty', ['var', p]],
                            [['assign', v, ['bin', '+', read, ['int', 1]]]], [], None])
            self.declare(p, V('inst', self.self_cls, ne=False))
            self.declare(v, V('integer', frozen=True))
        if self.rec_call is not None:
            # some locals first, then the guarded recursive call; the locals are read again afterwards
            for _ in range(self.rng.randint(1, 2)):
                prelude.extend(self.st_assign(0))
            c = self.rec_call
            args = [[n, (['bin', '-', ['param', 'cnt'], ['int', 1]] if n == 'cnt' else self.gen_expr(t, 1))]
                    for n, t in c['params']]
            self.rng.shuffle(args)
            call = self._call_node(c, args)
            inner = []
            if call is not None:
                if c['ret']:
                    name = self.fresh({'integer': 'i', 'string': 's', 'boolean': 'f'}[c['ret']])
                    zero = {'integer': ['int', 0], 'string': ['str', ''], 'boolean': ['bool', False]}[c['ret']]
                    prelude.append(['assign', name, zero])
                    self.declare(name, V(c['ret']))
                    inner.append(['assign', name, call])
                else:
                    inner.append(['call', call])
                prelude.append(['if', ['bin', '>', ['param', 'cnt'], ['int', 0]], inner, [], None])
        body = self.gen_block(0, top=True, prelude=prelude)
        return body

    def _call_node(self, c, args):
        if c['kind'] == 'function':
            return ['callf', c['name'], args]
        if c['kind'] in ('bridge', 'classop'):
            return ['calln', c['ns'], c['name'], args]
        hs = self.handle_exprs(c['ns'])
        if not hs:
            return None
        return ['callo', self.rng.choice(hs)[0], c['name'], args]

    def spend(self, n=1):
        self.budget -= n

    def gen_block(self, depth, top=False, min_stmts=1, prelude=()):
        out = list(prelude)
        n = self.rng.randint(min_stmts, 6 if depth else 12)
        terminated = False
        while n > 0 and self.budget > 0 and not terminated:
            n -= 1
            stmts, terminated = self.gen_stmt(depth)
            out.extend(stmts)
        if terminated and self.rng.random() < 0.3:
            # unreachable statement with a visible effect: must not run
            dead = self.stmt_effect()
            if dead:
                out.extend(dead)
        if top and not terminated:
            out.extend(self.gen_epilogue())
        return out

    def stmt_effect(self):
        hs = self.handle_exprs()
        if hs and self.allow_mutation:
            h, c = self.rng.choice(hs)
            return [['setattr', h, 'n', ['int', 99]]]
        return [['assign', self.fresh('u'), ['int', 99]]]

    def gen_epilogue(self):
        """make the variables observable: fold them into attribute values of a new instance and the return value"""
        out = []
        r = self.rng
        ints = [['var', n] for n in self.vars_of('integer')]
        for n, v in sorted(self.visible().items()):
            if v.ty in ('inst', 'set'):
                ints.append(['un', 'cardinality', ['var', n]])
        strs = [['var', n] for n in self.vars_of('string')]
        bools = [['var', n] for n in self.vars_of('boolean')]
        total = ['int', 0]
        for k, e in enumerate(ints[:8]):
            total = ['bin', '+', total, ['bin', '*', e, ['int', k + 1]]]
        if self.allow_mutation and r.random() < (0.8 if self.ret_ty == 'any' else 0.3):
            z = self.fresh('z')
            out.append(['create', z, 'A'])
            self.declare(z, V('inst', 'A', True))
            if strs:
                cat = strs[0]
                for e in strs[1:(1 if self.tight_str() else 5)]:
                    cat = ['bin', '+', ['bin', '+', cat, ['str', '|']], e]
                out.append(['setattr', ['var', z], 's', cat])
            if bools:
                acc = bools[0]
                for e in bools[1:5]:
                    acc = ['bin', '!=', acc, e]
                out.append(['setattr', ['var', z], 'b', acc])
            out.append(['setattr', ['var', z], 'n', total])
        if self.ret_ty != 'any' and self.self_cls and self.allow_mutation and self.self_rels and not self.derived_attr \
                and r.random() < 0.06:
            # the instance deletes itself (its links go with it); nothing after this touches self
            out.append(['delete', self.self_spelling()])
            self.self_deleted = True
        if self.ret_ty != 'any':
            # a callable: the declared type decides; every variable the body still sees is folded into the value,
            # so that any disturbance of the caller's / callee's variables shows
            if self.derived_attr and r.random() < 0.6:
                # the usual form of a derived attribute body: assign self.<attr>; reading it back reads the result so far
                if self.ret_ty == 'integer':
                    out.append(['setattr', ['self'], self.derived_attr, total])
                    if r.random() < 0.5:
                        out.append(['setattr', ['self'], self.derived_attr,
                                    ['bin', '+', ['attr', ['self'], self.derived_attr], ['int', 1]]])
                elif self.ret_ty == 'string':
                    out.append(['setattr', ['self'], self.derived_attr, strs[0] if strs else ['str', 'd']])
                else:
                    out.append(['setattr', ['self'], self.derived_attr, bools[0] if bools else ['bin', '>', total, ['int', 2]]])
                if r.random() < 0.3:
                    out.append(['return', None])
                return out
            if self.ret_ty == 'integer':
                out.append(['return', total])
            elif self.ret_ty == 'string':
                cat = ['str', 'r']
                for e in strs[:1]:
                    cat = ['bin', '+', ['bin', '+', cat, ['str', '|']], e]
                out.append(['return', cat])
            elif self.ret_ty == 'boolean':
                acc = ['bin', '>', total, ['int', 3]]
                for e in bools[:5]:
                    acc = ['bin', '!=', acc, e]
                out.append(['return', acc])
            else:
                k = r.random()
                if k < 0.3:
                    out.append(['return', None])
                elif k < 0.4:
                    out.append(['stop'])
            return out
        kind = r.random()
        if kind < 0.6:
            out.append(['return', total])
        elif kind < 0.7:
            hs = self.vars_of('inst') + self.vars_of('set')
            out.append(['return', ['var', r.choice(hs)] if hs else total])
        elif kind < 0.8 and strs:
            out.append(['return', r.choice(strs)])
        elif kind < 0.9 and bools:
            out.append(['return', r.choice(bools)])
        elif kind < 0.95:
            out.append(['return', None])
        return out

    def gen_stmt(self, depth):
        """-> (statements, control leaves the block for sure)"""
        r = self.rng
        self.spend()
        choices = [('assign', 18), ('select_from', 12), ('select_rel', 14 if self.edges else 0), ('create', 7 if self.allow_mutation else 0)]
        if self.allow_mutation:
            choices += [('setattr', 12)]
            if self.assoc:
                choices += [('relate', 8), ('unrelate', 9), ('create_relate', 4)]
        if self.assoc:
            choices += [('refread', 5)]
        if self.params:
            choices += [('param_shadow', 6)]
        if self.self_cls and self.allow_mutation and self.self_rels:
            choices += [('self_name', 9)]
            if self.allow_delete:
                choices += [('delete', 7), ('delete_sel', 5)]
        if self.calls:
            choices += [('call', 8), ('select_where_call', 5)]
            if depth < self.max_depth and self.budget > 2:
                choices += [('if_call', 5), ('while_call', 3)]
        if depth < self.max_depth and self.budget > 2:
            choices += [('if', 14), ('while', 7), ('foreach', 9), ('arith_guard', 3)]
        if self.loop_depth == 0 and self.allow_mutation and self.create_in_loops and not self.snapshot_done:
            choices += [('snapshot', 5)]
        if depth < self.max_depth and not self.else_ctl_done:
            choices += [('else_ctl', 4)]
        if depth < self.max_depth and not self.loop_where_done:
            choices += [('loop_where', 5)]
        if self.loop_depth == 0 and self.assoc and self.allow_mutation and self.create_in_loops and not self.related_where_done \
                and any(e[4] for e in self.edges):
            choices += [('related_where', 5)]
        if self.loop_depth == 0 and self.allow_mutation and self.create_in_loops and self.classes is CLASS_ATTRS \
                and not self.reflexive_using_done:
            choices += [('reflexive_using', 4)]
        if self.loop_depth > 0:
            choices += [('loopctl', 6)]
        if depth > 0:
            choices += [('return', 2)]
            if self.ret_ty in ('any', None):
                choices += [('stop', 1)]
        total = sum(w for _, w in choices)
        x = r.random() * total
        for name, w in choices:
            x -= w
            if x < 0:
                break
        res = getattr(self, 'st_' + name)(depth)
        if res is None:
            res = self.st_assign(depth)
        if isinstance(res, tuple):
            return res
        return res, False

    def st_assign(self, depth):
        r = self.rng
        ty = r.choice(['integer', 'integer', 'integer', 'string', 'boolean', 'unique_id'])
        e = self.gen_expr(ty, 2)
        if e is None:
            ty = 'integer'
            e = self.gen_expr(ty, 2)
        existing = [n for n in self.vars_of(ty) if not self.lookup(n).frozen]
        if existing and r.random() < 0.5:
            name = r.choice(existing)
        else:
            name = self.fresh({'integer': 'i', 'string': 's', 'boolean': 'f', 'unique_id': 'k'}[ty])
        self.declare(name, V(ty))
        self.note_value(ty, e)
        return [['assign', name, e]]

    def st_setattr(self, depth):
        r = self.rng
        hs = self.handle_exprs()
        if not hs:
            return None
        h, c = r.choice(hs)
        cands = [(a, t) for a, t, ref in self.classes[c] if not ref and a != 'ID']
        a, t = r.choice(cands)
        e = self.gen_expr(t, 2)
        if e is None:
            return None
        self.note_value(t, e)
        return [['setattr', h, a, e]]

    def target_inst_var(self, cls):
        """a variable to receive an instance handle: a new one, or an existing one of the class that this
        point of the program may re-assign"""
        r = self.rng
        existing = [n for n in self.vars_of('inst', cls)
                    if not self.lookup(n).frozen and all(n in ra or self._declared_in_loop(n, i)
                                                         for i, ra in enumerate(self.loop_reassign))]
        if existing and r.random() < 0.35:
            return r.choice(existing)
        return self.fresh(cls.lower())

    def _declared_in_loop(self, name, loop_index):
        # variables declared inside loop number `loop_index` (scope depth recorded at loop entry) are free to change
        depth = self.loop_scope_depth[loop_index]
        for sc in self.scopes[depth:]:
            if name in sc:
                return True
        return False

    loop_scope_depth = ()

    def where_for(self, cls):
        if self.rng.random() < 0.55:
            return None
        self.pure_only += 1
        try:
            return self._bool(2, False, extra=[(['selected'], cls)])
        finally:
            self.pure_only -= 1

    def st_select_from(self, depth):
        r = self.rng
        cls = r.choice(self.cls_names)
        card = r.choice(['any', 'many', 'many'])
        wh = self.where_for(cls)
        if card == 'many':
            name = self.fresh(cls.lower() + 's')
            existing = [n for n in self.vars_of('set', cls) if not self.lookup(n).frozen]
            if existing and r.random() < 0.3:
                name = r.choice(existing)
            self.declare(name, V('set', cls))
        else:
            name = self.target_inst_var(cls)
            self.declare(name, V('inst', cls, ne=False))
        return [['select_from', card, name, cls, wh]]

    def st_select_rel(self, depth, force_many=False):
        r = self.rng
        starts = [(n, v) for n, v in sorted(self.visible().items()) if v.ty in ('inst', 'set')]
        if self.self_cls:
            starts.append(('self', V('inst', self.self_cls, True)))
        if not starts:
            return None
        n, v = r.choice(starts)
        cls = v.cls
        chain = []
        many_possible = (v.ty == 'set')
        for _ in range(r.choice([1, 1, 1, 2, 2, 3])):
            edges = [e for e in self.edges if e[0] == cls]
            if not edges:
                break
            e = r.choice(edges)
            chain.append([e[1], e[2], e[3]])
            cls = e[1]
            many_possible = many_possible or e[4]
        if not chain:
            return None
        card = r.choice(['many', 'many', 'any', 'one']) if many_possible else r.choice(['one', 'one', 'any', 'many'])
        if force_many:
            card = 'many'
        wh = self.where_for(cls)
        h = ['self'] if n == 'self' else ['var', n]
        if card == 'many':
            name = self.fresh(cls.lower() + 's')
            self.declare(name, V('set', cls))
        else:
            name = self.target_inst_var(cls)
            if name == n:
                name = self.fresh(cls.lower())
            self.declare(name, V('inst', cls, ne=False))
        return [['select_rel', card, name, h, chain, wh]]

    def may_create(self):
        """population growth control: a create inside a for-each multiplies the population, so it must not be
        repeated by an enclosing loop (and callables create outside loops only)"""
        if not self.allow_mutation:
            return False
        if self.loop_depth == 0:
            return True
        if not self.create_in_loops:
            return False
        return self.foreach_depth == 0 or self.loop_depth == 1

    def st_create(self, depth):
        r = self.rng
        if not self.may_create():
            return None
        cls = r.choice(self.cls_names)
        if r.random() < 0.1:
            return [['create', None, cls]]
        name = self.target_inst_var(cls)
        self.declare(name, V('inst', cls, ne=True))
        out = [['create', name, cls]]
        if r.random() < 0.6:
            e = self.gen_expr('integer', 1)
            out.append(['setattr', ['var', name], 'n', e])
        return out

    def can_delete(self, name):
        v = self.lookup(name)
        for i, modes in enumerate(self.loop_del):
            mode = modes.get(v.cls, 'none')
            if mode == 'none':
                return False
            if mode == 'loopvar' and name != self.loop_vars[i]:
                return False
        return True

    loop_vars = ()

    def st_delete(self, depth):
        cands = [n for n in self.usable_insts() if self.can_delete(n) and not self.lookup(n).frozen]
        if not cands:
            return None
        name = self.rng.choice(cands)
        cls = self.lookup(name).cls
        self.mark_deleted(cls)
        return [['delete', name]]

    def st_delete_sel(self, depth):
        """select an instance and delete it (guarded): deletes that hit linked instances"""
        r = self.rng
        cls = r.choice(self.cls_names)
        for modes in self.loop_del:
            if modes.get(cls, 'none') != 'any':
                return None
        name = self.fresh(cls.lower())
        sel = ['select_from', 'any', name, cls, self.where_for(cls)]
        self.declare(name, V('inst', cls, ne=False))
        self.mark_deleted(cls)
        return [sel, ['if', ['un', 'not_empty', ['var', name]], [['delete', name]], [], None]]

    def guard_ne(self, names, body):
        """if (not_empty a and not_empty b ...) body end if;   for the handles that are not surely non-empty"""
        need = [n for n in names if not self.lookup(n).ne]
        if not need:
            return body
        cond = ['un', 'not_empty', ['var', need[0]]]
        for n in need[1:]:
            cond = ['bin', 'and', cond, ['un', 'not_empty', ['var', n]]]
        return [['if', cond, body, [], None]]

    def live_insts(self, cls):
        return self.vars_of('inst', cls, lambda v: not v.dead)

    def st_relate(self, depth):
        """relate guarded so that the multiplicities hold: the tests are part of the program"""
        r = self.rng
        kind = r.choice(['R1', 'R2', 'R3', 'R4', 'R4u'])
        t1, t2 = self.fresh('t'), self.fresh('t')
        if kind == 'R1':
            bs, as_ = self.live_insts('B'), self.live_insts('A')
            if not bs or not as_:
                return None
            b, a = r.choice(bs), r.choice(as_)
            pre = [['select_rel', 'one', t1, ['var', b], [['A', 'R1', '']], None],
                   ['select_rel', 'one', t2, ['var', a], [['B', 'R1', '']], None]]
            cond = ['bin', 'and', ['un', 'empty', ['var', t1]], ['un', 'empty', ['var', t2]]]
            rel = ['relate', b, a, 'R1', ''] if r.random() < 0.5 else ['relate', a, b, 'R1', '']
            names = [b, a]
        elif kind == 'R2':
            bs, as_ = self.live_insts('B'), self.live_insts('A')
            if not bs or not as_:
                return None
            b, a = r.choice(bs), r.choice(as_)
            pre = [['select_rel', 'one', t1, ['var', b], [['A', 'R2', '']], None]]
            cond = ['un', 'empty', ['var', t1]]
            rel = ['relate', b, a, 'R2', ''] if r.random() < 0.5 else ['relate', a, b, 'R2', '']
            names = [b, a]
        elif kind == 'R3':
            xs = self.live_insts('X')
            if not xs:
                return None
            x, y = r.choice(xs), r.choice(xs)
            ph = r.choice(['next', 'prev'])
            other = 'prev' if ph == 'next' else 'next'
            # relate x to y across R3.'ph': y becomes x's ph, x becomes y's other
            pre = [['select_rel', 'one', t1, ['var', x], [['X', 'R3', ph]], None],
                   ['select_rel', 'one', t2, ['var', y], [['X', 'R3', other]], None]]
            cond = ['bin', 'and', ['un', 'empty', ['var', t1]], ['un', 'empty', ['var', t2]]]
            rel = ['relate', x, y, 'R3', ph]
            names = [x, y]
        else:
            ls, as_, xs = self.live_insts('L'), self.live_insts('A'), self.live_insts('X')
            if not ls or not as_ or not xs:
                return None
            l, a, x = r.choice(ls), r.choice(as_), r.choice(xs)
            pre = [['select_rel', 'one', t1, ['var', l], [['A', 'R4', '']], None],
                   ['select_rel', 'one', t2, ['var', l], [['X', 'R4', '']], None]]
            cond = ['bin', 'and', ['un', 'empty', ['var', t1]], ['un', 'empty', ['var', t2]]]
            if kind == 'R4u':
                rel = ['relate_using', a, x, 'R4', '', l] if r.random() < 0.5 else ['relate_using', x, a, 'R4', '', l]
                body = [rel]
            else:
                body = [['relate', l, a, 'R4', ''] if r.random() < 0.5 else ['relate', a, l, 'R4', ''],
                        ['relate', l, x, 'R4', ''] if r.random() < 0.5 else ['relate', x, l, 'R4', '']]
                if r.random() < 0.3:
                    body = body[:1]
                    cond = ['un', 'empty', ['var', t1]]
                    pre = pre[:1]
                elif r.random() < 0.3:
                    body = body[1:]
                    cond = ['un', 'empty', ['var', t2]]
                    pre = pre[1:]
            names = [l, a, x]
            inner = [['if', cond, body, [], None]]
            return self.guard_ne(names, pre + inner)
        inner = [['if', cond, [rel], [], None]]
        return self.guard_ne(names, pre + inner)

    def st_create_relate(self, depth):
        """fresh instances are surely unrelated"""
        r = self.rng
        if not self.may_create():
            return None
        kind = r.choice(['R1', 'R2', 'R3', 'R4'])
        out = []
        if kind in ('R1', 'R2'):
            b, a = self.fresh('b'), self.fresh('a')
            out = [['create', b, 'B'], ['create', a, 'A'], ['setattr', ['var', b], 'n', self.gen_expr('integer', 1)],
                   ['relate', b, a, kind, ''] if r.random() < 0.5 else ['relate', a, b, kind, '']]
            self.declare(b, V('inst', 'B', True))
            self.declare(a, V('inst', 'A', True))
        elif kind == 'R3':
            x, y = self.fresh('x'), self.fresh('x')
            out = [['create', x, 'X'], ['create', y, 'X'], ['setattr', ['var', y], 'n', self.gen_expr('integer', 1)],
                   ['relate', x, y, 'R3', r.choice(['next', 'prev'])]]
            self.declare(x, V('inst', 'X', True))
            self.declare(y, V('inst', 'X', True))
        else:
            l, a, x = self.fresh('l'), self.fresh('a'), self.fresh('x')
            out = [['create', l, 'L'], ['create', a, 'A'], ['create', x, 'X'],
                   ['setattr', ['var', l], 'n', self.gen_expr('integer', 1)],
                   ['relate_using', a, x, 'R4', '', l] if r.random() < 0.5 else ['relate_using', x, a, 'R4', '', l]]
            for n, c in ((l, 'L'), (a, 'A'), (x, 'X')):
                self.declare(n, V('inst', c, True))
        return out

    def st_unrelate(self, depth):
        """unrelate what a navigation just found"""
        r = self.rng
        kind = r.choice(['R1', 'R2', 'R2all', 'R3', 'R4', 'R4u'])
        if kind == 'R1':
            srcs = self.live_insts('A') + self.live_insts('B')
            if not srcs:
                return None
            a = r.choice(srcs)
            other = 'B' if self.lookup(a).cls == 'A' else 'A'
            t = self.fresh(other.lower())
            self.declare(t, V('inst', other, False))
            body = [['unrelate', a, t, 'R1', ''] if r.random() < 0.5 else ['unrelate', t, a, 'R1', '']]
            return [['select_rel', 'one', t, ['var', a], [[other, 'R1', '']], None],
                    ['if', ['un', 'not_empty', ['var', t]], body, [], None]]
        if kind == 'R2':
            bs = self.live_insts('B')
            if not bs:
                return None
            b = r.choice(bs)
            t = self.fresh('a')
            self.declare(t, V('inst', 'A', False))
            body = [['unrelate', b, t, 'R2', ''] if r.random() < 0.5 else ['unrelate', t, b, 'R2', '']]
            return [['select_rel', 'one', t, ['var', b], [['A', 'R2', '']], None],
                    ['if', ['un', 'not_empty', ['var', t]], body, [], None]]
        if kind == 'R2all':
            as_ = self.live_insts('A')
            if not as_:
                return None
            a = r.choice(as_)
            ts, e = self.fresh('bs'), self.fresh('b')
            self.declare(ts, V('set', 'B'))
            return [['select_rel', 'many', ts, ['var', a], [['B', 'R2', '']], None],
                    ['foreach', e, ts, [['unrelate', a, e, 'R2', '']]]]
        if kind == 'R3':
            xs = self.live_insts('X')
            if not xs:
                return None
            x = r.choice(xs)
            ph = r.choice(['next', 'prev'])
            t = self.fresh('x')
            self.declare(t, V('inst', 'X', False))
            return [['select_rel', 'one', t, ['var', x], [['X', 'R3', ph]], None],
                    ['if', ['un', 'not_empty', ['var', t]], [['unrelate', x, t, 'R3', ph]], [], None]]
        ls = self.live_insts('L')
        if not ls:
            return None
        l = r.choice(ls)
        ta, tx = self.fresh('a'), self.fresh('x')
        pre = [['select_rel', 'one', ta, ['var', l], [['A', 'R4', '']], None],
               ['select_rel', 'one', tx, ['var', l], [['X', 'R4', '']], None]]
        if kind == 'R4u':
            self.declare(ta, V('inst', 'A', False))
            self.declare(tx, V('inst', 'X', False))
            cond = ['bin', 'and', ['un', 'not_empty', ['var', ta]], ['un', 'not_empty', ['var', tx]]]
            body = [['unrelate_using', ta, tx, 'R4', '', l] if r.random() < 0.5 else ['unrelate_using', tx, ta, 'R4', '', l]]
            return self.guard_ne([l], pre + [['if', cond, body, [], None]])
        if r.random() < 0.5:
            self.declare(ta, V('inst', 'A', False))
            return self.guard_ne([l], pre[:1] + [['if', ['un', 'not_empty', ['var', ta]], [['unrelate', l, ta, 'R4', '']], [], None]])
        self.declare(tx, V('inst', 'X', False))
        return self.guard_ne([l], pre[1:] + [['if', ['un', 'not_empty', ['var', tx]], [['unrelate', tx, l, 'R4', '']], [], None]])

    def self_spelling(self):
        return self.rng.choice(['self', 'self', 'SELF', 'Self'])

    def st_self_name(self, depth):
        """`self` used as a VARIABLE NAME (relate / unrelate), in any letter case: it denotes the receiving instance"""
        r = self.rng
        if self.self_deleted:
            return None
        cands = [x for x in self.self_rels if self.self_cls in (x[1], x[2])]
        if not cands:
            return None
        rel, sc, tc = r.choice(cands)
        sp = self.self_spelling()
        if self.self_cls == sc:
            # self is on the referring side: at most one partner
            t = self.fresh(tc.lower())
            self.declare(t, V('inst', tc, False))
            sel = ['select_rel', 'one', t, ['self'], [[tc, rel, '']], None]
            if r.random() < 0.5:
                return [sel, ['if', ['un', 'not_empty', ['var', t]],
                              [['unrelate', sp, t, rel, ''] if r.random() < 0.5 else ['unrelate', t, sp, rel, '']], [], None]]
            a = self.fresh(tc.lower())
            self.declare(a, V('inst', tc, False))
            return [sel, ['select_from', 'any', a, tc, None],
                    ['if', ['bin', 'and', ['un', 'empty', ['var', t]], ['un', 'not_empty', ['var', a]]],
                     [['relate', sp, a, rel, ''] if r.random() < 0.5 else ['relate', a, sp, rel, '']], [], None]]
        # self is on the referred side
        b = self.fresh(sc.lower())
        self.declare(b, V('inst', sc, False))
        if r.random() < 0.5:
            return [['select_rel', 'any', b, ['self'], [[sc, rel, '']], None],
                    ['if', ['un', 'not_empty', ['var', b]],
                     [['unrelate', b, sp, rel, ''] if r.random() < 0.5 else ['unrelate', sp, b, rel, '']], [], None]]
        t = self.fresh(tc.lower())
        self.declare(t, V('inst', tc, False))
        return [['select_from', 'any', b, sc, None],
                ['select_rel', 'one', t, ['var', b], [[tc, rel, '']], None],
                ['if', ['bin', 'and', ['un', 'not_empty', ['var', b]], ['un', 'empty', ['var', t]]],
                 [['relate', b, sp, rel, ''] if r.random() < 0.5 else ['relate', sp, b, rel, '']], [], None]]

    def st_param_shadow(self, depth):
        """parameters and local variables are separate namespaces: a LOCAL variable named like a parameter is assigned a
        value different from the argument, and `param.<name>` is read afterwards"""
        r = self.rng
        cnames = set(c for c, _ in self.consts)
        cands = [(n, t) for n, t in self.params if t in ('integer', 'string', 'boolean') and n not in cnames
                 and (self.lookup(n) is None or (self.lookup(n).ty == t and not self.lookup(n).frozen))]
        if not cands:
            return None
        n, t = r.choice(cands)
        first = self.lookup(n) is None
        if t == 'integer':
            e = r.choice([['bin', '*', ['param', n], ['int', 2]], ['bin', '-', ['param', n], ['int', 1]],
                          ['bin', '+', self._int(1, True, ()), ['int', 7]]])
            if not first and r.random() < 0.5:
                e = ['bin', '-', ['var', n], ['int', 1]]
            probe_ty, probe = 'integer', ['bin', '+', ['bin', '*', ['param', n], ['int', 100]], ['var', n]]
        elif t == 'string':
            e = ['bin', '+', ['param', n], ['str', r.choice(['#', 'zz'])]]
            probe_ty, probe = 'string', ['bin', '+', ['bin', '+', ['param', n], ['str', '/']], ['var', n]]
        else:
            e = ['un', 'not', ['param', n]]
            probe_ty, probe = 'boolean', ['bin', '==', ['param', n], ['var', n]]
        self.declare(n, V(t))
        pv = self.fresh({'integer': 'i', 'string': 's', 'boolean': 'f'}[probe_ty])
        self.declare(pv, V(probe_ty))
        return [['assign', n, e], ['assign', pv, probe]]

    # referential attributes: (class, attribute, rel, phrase towards the referred class, referred class)
    REFS = [('B', 'A1_ID', 'R1', '', 'A'), ('B', 'A2_ID', 'R2', '', 'A'), ('X', 'Next_ID', 'R3', 'next', 'X'),
            ('L', 'A_ID', 'R4', '', 'A'), ('L', 'X_ID', 'R4', '', 'X')]

    def st_refread(self, depth):
        """a referential attribute reads as the identifier of the related instance (nothing when there is none)"""
        r = self.rng
        cls, attr, rel, ph, tcls = r.choice(self.REFS)
        hs = self.usable_insts(cls)
        if not hs:
            return None
        b = r.choice(hs)
        if depth > 0 and r.random() < 0.15:
            return [['return', ['attr', ['var', b], attr]]], True
        t, f = self.fresh(tcls.lower()), self.fresh('f')
        out = [['assign', f, ['bool', False]],
               ['select_rel', 'one', t, ['var', b], [[tcls, rel, ph]], None]]
        self.declare(f, V('boolean'))
        self.declare(t, V('inst', tcls, False))
        read = ['attr', ['var', b], attr]
        inner = [['assign', f, ['bin', '==', read, ['attr', ['var', t], 'ID']]]]
        if tcls == 'A' and self.allow_mutation and r.random() < 0.5:
            inner.append(['setattr', ['var', t], 'tag', read])
        out.append(['if', ['un', 'not_empty', ['var', t]], inner, [], None])
        return out

    def st_arith_guard(self, depth):
        """division and remainder by a VARIABLE, guarded in the program"""
        r = self.rng
        a, d = self.fresh('i'), self.fresh('i')
        out = [['assign', a, self.gen_expr('integer', 2)], ['assign', d, self.gen_expr('integer', 1)]]
        self.declare(a, V('integer'))
        self.declare(d, V('integer'))
        q = self.fresh('i')
        if r.random() < 0.6:
            out.append(['assign', q, ['int', 0]])
            self.declare(q, V('integer'))
            out.append(['if', ['bin', '!=', ['var', d], ['int', 0]],
                        [['assign', q, ['bin', '/', ['var', a], ['var', d]]]], [], None])
        else:
            out.append(['assign', q, ['int', 0]])
            self.declare(q, V('integer'))
            out.append(['if', ['bin', 'and', ['bin', '>=', ['var', a], ['int', 0]], ['bin', '>', ['var', d], ['int', 0]]],
                        [['assign', q, ['bin', '%', ['var', a], ['var', d]]]], [], None])
        return out

    def st_call(self, depth):
        c = self.rng.choice(self.calls)
        if not self.allow_mutation and not c['pure']:
            return None
        e = self.gen_call(c, 1)
        if e is None:
            return None
        if c['ret'] and self.rng.random() < 0.6:
            name = self.fresh({'integer': 'i', 'string': 's', 'boolean': 'f'}[c['ret']])
            self.declare(name, V(c['ret']))
            return [['assign', name, e]]
        return [['call', e]]

    def cond_with_call(self, extra=(), pure=False):
        """a boolean expression whose value depends on the result of an invocation"""
        r = self.rng
        cands = [c for c in self.calls if c['ret'] and (c['pure'] or not (pure or not self.allow_mutation))]
        r.shuffle(cands)
        for c in cands:
            e = self.gen_call(c, 1, extra)
            if e is None:
                continue
            if c['ret'] == 'boolean':
                return e if r.random() < 0.6 else ['un', 'not', e]
            if c['ret'] == 'integer':
                other = self._int(1, True, extra)
                return ['bin', r.choice(['<', '<=', '>', '>=', '==', '!=']), e, other]
            return ['bin', r.choice(['==', '!=', '<']), e, self._str(1, True, extra)]
        return None

    def st_if_call(self, depth):
        keep = self.call_sites
        self.call_sites = max(self.call_sites, 1)
        cond = self.cond_with_call()
        self.call_sites = min(keep, self.call_sites)
        if cond is None:
            return None
        base = self.snapshot()
        thn = self.nested_block(depth)
        end = self.snapshot()
        self.merge([base, end])
        return [['if', cond, thn, [], None]]

    def st_while_call(self, depth):
        r = self.rng
        keep = self.call_sites
        self.call_sites = max(self.call_sites, 1)
        extra_cond = self.cond_with_call(pure=self.foreach_depth > 0)
        self.call_sites = min(keep, self.call_sites)
        if extra_cond is None:
            return None
        w = self.fresh('w')
        self.declare(w, V('integer', frozen=True))
        pre = [['assign', w, ['int', 0]]]
        self.enter_loop()
        cond = ['bin', 'and', ['bin', '<', ['var', w], ['int', r.choice([1, 2, 2, 3])]], extra_cond]
        entry = self.snapshot()
        body = self.nested_block(depth, prelude=[['assign', w, ['bin', '+', ['var', w], ['int', 1]]]])
        end = self.snapshot()
        self.leave_loop()
        self.merge([entry, end])
        return pre + [['while', cond, body]]

    def st_select_where_call(self, depth):
        r = self.rng
        cls = r.choice(self.cls_names)
        keep = self.call_sites
        self.call_sites = max(self.call_sites, 1)
        self.pure_only += 1
        try:
            wh = self.cond_with_call(extra=[(['selected'], cls)], pure=True)
        finally:
            self.pure_only -= 1
        self.call_sites = min(keep, self.call_sites)
        if wh is None:
            return None
        if r.random() < 0.5:
            wh = ['bin', r.choice(['and', 'or']), wh, self._bool(1, True, extra=[(['selected'], cls)])]
        card = r.choice(['any', 'many', 'many'])
        if card == 'many':
            name = self.fresh(cls.lower() + 's')
            self.declare(name, V('set', cls))
        else:
            name = self.target_inst_var(cls)
            self.declare(name, V('inst', cls, ne=False))
        return [['select_from', card, name, cls, wh]]

    def nested_block(self, depth, prelude=(), min_stmts=1):
        self.scopes.append({})
        b = self.gen_block(depth + 1, min_stmts=min_stmts, prelude=prelude)
        self.scopes.pop()
        return b

    def st_if(self, depth):
        r = self.rng
        snaps = []
        base = self.snapshot()
        cond = self.gen_expr('boolean', 2)
        # a guard on a handle makes it usable inside the branch
        guards = [n for n in self.vars_of('inst') if not self.lookup(n).ne and not self.lookup(n).dead]
        guarded = None
        if guards and r.random() < 0.45:
            guarded = r.choice(guards)
            cond = ['un', 'not_empty', ['var', guarded]] if r.random() < 0.6 else \
                ['bin', 'and', ['un', 'not_empty', ['var', guarded]], cond]
            self.lookup(guarded).ne = True
        thn = self.nested_block(depth)
        snaps.append(self.snapshot())
        elifs = []
        for _ in range(r.choice([0, 0, 0, 1, 1, 2])):
            if self.budget <= 0:
                break
            self.restore(base)
            c = self.gen_expr('boolean', 2)
            b = self.nested_block(depth)
            elifs.append([c, b])
            snaps.append(self.snapshot())
        els = None
        self.restore(base)
        if r.random() < 0.45 and self.budget > 0:
            els = self.nested_block(depth)
            snaps.append(self.snapshot())
        else:
            snaps.append(base)
        self.merge(snaps)
        return [['if', cond, thn, elifs, els]]

    def enter_loop(self, loopvar=None, loopvar_cls=None):
        r = self.rng
        modes = {}
        for cls in self.cls_names:
            m = r.choice(['none', 'none', 'none', 'loopvar', 'any']) if self.allow_delete else 'none'
            if m == 'loopvar' and cls != loopvar_cls:
                m = 'none'
            modes[cls] = m
        reassign = set()
        for n, v in self.visible().items():
            if v.ty == 'inst' and not v.frozen and r.random() < 0.3:
                reassign.add(n)
        # weaken at loop entry what later iterations may have changed
        for n, v in self.visible().items():
            if v.ty in ('inst', 'set') and modes.get(v.cls) in ('loopvar', 'any') and n != loopvar:
                v.dead = True
            if n in reassign:
                v.ne = False
        self.loop_del = list(self.loop_del) + [modes]
        self.loop_reassign = list(self.loop_reassign) + [reassign]
        self.loop_scope_depth = tuple(self.loop_scope_depth) + (len(self.scopes),)
        self.loop_vars = tuple(self.loop_vars) + (loopvar,)
        self.loop_depth += 1
        return modes

    def leave_loop(self):
        if self.loop_depth == 1:
            self.str_bound += 400
            self.int_bits += 400
        self.loop_del = self.loop_del[:-1]
        self.loop_reassign = self.loop_reassign[:-1]
        self.loop_scope_depth = self.loop_scope_depth[:-1]
        self.loop_vars = self.loop_vars[:-1]
        self.loop_depth -= 1

    def st_while(self, depth):
        r = self.rng
        w = self.fresh('w')
        bound = r.choice([1, 2, 2, 3, 3, 4])
        self.declare(w, V('integer', frozen=True))
        pre = [['assign', w, ['int', 0]]]
        base_before = self.snapshot()
        self.enter_loop()
        cond = ['bin', '<', ['var', w], ['int', bound]]
        if r.random() < 0.4:
            cond = ['bin', 'and', cond, self.gen_expr('boolean', 1)]
        entry = self.snapshot()
        step = [['assign', w, ['bin', '+', ['var', w], ['int', 1]]]]
        body = self.nested_block(depth, prelude=step)
        end = self.snapshot()
        self.leave_loop()
        self.merge([entry, end])
        return pre + [['while', cond, body]]

    def st_foreach(self, depth):
        r = self.rng
        sets = self.vars_of('set')
        pre = []
        if not sets or r.random() < 0.3:
            s = None
            if r.random() < 0.5:
                s = self.st_select_rel(depth, force_many=True)
            if s is None:
                cls0 = r.choice(self.cls_names)
                s = [['select_from', 'many', self.fresh(cls0.lower() + 's'), cls0, self.where_for(cls0)]]
                self.declare(s[0][2], V('set', cls0))
            pre = s
            setv = s[0][2]
        else:
            setv = r.choice(sets)
        sv = self.lookup(setv)
        cls = sv.cls
        same = [n for n in self.vars_of('inst', cls) if not self.lookup(n).frozen and not self.loop_reassign]
        if same and r.random() < 0.2:
            lv = r.choice(same)
            fresh = False
        else:
            lv = self.fresh(cls.lower())
            fresh = True
        old = self.lookup(lv).copy() if not fresh else None
        if fresh:
            self.scopes[-1][lv] = V('inst', cls, ne=False, dead=sv.dead)
        modes = self.enter_loop(loopvar=lv, loopvar_cls=cls)
        self.foreach_depth += 1
        v = self.lookup(lv)
        v.ne = True
        v.dead = sv.dead or modes.get(cls) == 'any'
        v.frozen = True
        entry = self.snapshot()
        body = self.nested_block(depth)
        end = self.snapshot()
        self.foreach_depth -= 1
        self.leave_loop()
        self.merge([entry, end])
        v = self.lookup(lv)
        v.frozen = False
        if fresh:
            # unset when the set was empty: not usable after the loop
            del self.scopes[-1][lv]
        else:
            v.ne = old.ne
            v.dead = old.dead or v.dead
        if modes.get(cls) in ('loopvar', 'any'):
            self.lookup(setv).dead = True
        return pre + [['foreach', lv, setv, body]]

    def st_snapshot(self, depth):
        """an instance set held in a variable ACROSS creates / deletes: `select many` delivers a snapshot, not the live
        pool.  The cardinality of the held set - read inside the loop that creates / deletes, after it, and by iterating
        the held set once more - stays what it was; a second select sees the changed pool."""
        r = self.rng
        self.snapshot_done = True
        cls = r.choice(self.cls_names)
        mode = r.choice(['create', 'create', 'delete', 'both']) if self.allow_delete else 'create'
        if mode != 'create':
            for modes in self.loop_del:
                if modes.get(cls, 'none') != 'any':
                    mode = 'create'
        S, S2 = self.fresh(cls.lower() + 's'), self.fresh(cls.lower() + 's')
        c0, cin, c1, c2, k = [self.fresh('i') for _ in range(5)]
        e, e2, z = self.fresh(cls.lower()), self.fresh(cls.lower()), self.fresh('z')
        where = self.where_for(cls) if r.random() < 0.3 else None
        out = [['select_from', 'many', S, cls, where],
               ['assign', c0, ['un', 'cardinality', ['var', S]]],
               ['assign', cin, ['int', 0]]]
        body = []
        if mode in ('create', 'both'):
            body += [['create', z, cls], ['setattr', ['var', z], 'n', ['bin', '+', ['var', c0], ['int', 100]]]]
        if mode in ('delete', 'both'):
            body += [['delete', e]]
        body += [['assign', cin, ['bin', '+', ['bin', '*', ['var', cin], ['int', 2]], ['un', 'cardinality', ['var', S]]]]]
        out += [['foreach', e, S, body],
                ['assign', c1, ['un', 'cardinality', ['var', S]]],
                ['select_from', 'many', S2, cls, None],
                ['assign', c2, ['un', 'cardinality', ['var', S2]]],
                ['assign', k, ['int', 0]],
                ['foreach', e2, S, [['assign', k, ['bin', '+', ['var', k], ['int', 1]]]]]]
        if mode != 'create':
            self.mark_deleted(cls)
        self.declare(S, V('set', cls, dead=(mode != 'create')))
        self.declare(S2, V('set', cls))
        for n in (c0, cin, c1, c2, k):
            self.declare(n, V('integer'))
        return out

    def st_related_where(self, depth):
        """`select any / one ... related by ... where` along a link that reaches SEVERAL instances, with a clause that the
        first instance reached does not satisfy while a later one does: the result is the first instance that SATISFIES
        the clause (not "the first instance, if it satisfies it")"""
        r = self.rng
        self.related_where_done = True
        frm, to, rel, ph, _ = r.choice([e for e in self.edges if e[4] and e[0] != e[1] and (e[1], e[0], e[2], e[3], False) in self.edges]
                                       or [e for e in self.edges if e[4]])
        x = self.fresh(frm.lower())
        ys = [self.fresh(to.lower()) for _ in range(3)]
        base = r.choice([100, 200, 300])
        out = [['create', x, frm]]
        for j, y in enumerate(ys):
            out += [['create', y, to], ['setattr', ['var', y], 'n', ['int', base + j + 1]], ['relate', y, x, rel, ph]]
        ints = []
        for target in (base + 3, base + 2, base + 9):
            rv, iv = self.fresh(to.lower()), self.fresh('i')
            where = r.choice([['bin', '==', ['attr', ['selected'], 'n'], ['int', target]],
                              ['bin', '>=', ['attr', ['selected'], 'n'], ['int', target]]])
            out += [['select_rel', r.choice(['any', 'any', 'one']), rv, ['var', x], [[to, rel, ph]], where],
                    ['assign', iv, ['int', -1]],
                    ['if', ['un', 'not_empty', ['var', rv]], [['assign', iv, ['attr', ['var', rv], 'n']]], [], None]]
            self.declare(rv, V('inst', to, ne=False))
            ints.append(iv)
        self.declare(x, V('inst', frm, ne=True))
        for y in ys:
            self.declare(y, V('inst', to, ne=True))
        for n in ints:
            self.declare(n, V('integer'))
        return out

    def st_loop_where(self, depth):
        """the SAME select statement executed several times (inside a while) with a where clause whose sub-expressions that
        do not mention `selected` CHANGE between the executions (`selected.n == i * 2`, `selected.n > lim - i`,
        `... and not (want == 3)`): every execution evaluates the whole clause with the values of that moment"""
        r = self.rng
        self.loop_where_done = True
        cls = r.choice(self.cls_names)
        i, acc, want = self.fresh('i'), self.fresh('i'), self.fresh('i')
        hv, sv = self.fresh(cls.lower()), self.fresh(cls.lower() + 's')
        var, num = (lambda n: ['var', n]), (lambda n: ['int', n])
        seln = ['attr', ['selected'], 'n']
        w1 = r.choice([['bin', '==', seln, ['bin', '*', var(i), num(r.choice([1, 2, -1]))]],
                       ['bin', '>', seln, ['bin', '-', num(r.choice([3, 5, 8])), ['bin', '*', var(i), num(2)]]],
                       ['bin', '<=', seln, ['bin', '+', var(i), var(want)]]])
        w2 = ['bin', 'and', r.choice([['bin', '>=', seln, ['bin', '-', var(i), num(2)]], ['bin', '!=', seln, var(i)]]),
              ['un', 'not', ['bin', '==', var(want), num(r.choice([2, 3]))]]]
        card = r.choice(['any', 'any', 'one']) if False else 'any'
        body = [['select_from', card, hv, cls, w1],
                ['if', ['un', 'not_empty', var(hv)], [['assign', acc, ['bin', '+', ['bin', '*', var(acc), num(3)], ['attr', var(hv), 'n']]]], [],
                 [['assign', acc, ['bin', '-', var(acc), num(1)]]]],
                ['select_from', 'many', sv, cls, w2],
                ['assign', acc, ['bin', '+', ['bin', '*', var(acc), num(2)], ['un', 'cardinality', var(sv)]]],
                ['assign', want, ['bin', '+', var(want), num(1)]],
                ['assign', i, ['bin', '+', var(i), num(1)]]]
        for n in (i, acc, want):
            self.declare(n, V('integer'))
        out = [['assign', i, num(r.choice([-1, 0, 0]))], ['assign', acc, num(0)], ['assign', want, num(r.choice([0, 1]))],
               ['while', ['bin', '<', var(i), num(r.randint(3, 5))], body]]
        return out

    def st_else_ctl(self, depth):
        """`break` / `continue` inside an ELSE clause (and nested: an if/else inside an elif, inside an else) of a loop body
        that has statements AFTER the if: break ends the loop at once, continue skips the rest of the round - from an else
        clause as from anywhere else"""
        r = self.rng
        self.else_ctl_done = True
        k, n, w = self.fresh('i'), self.fresh('i'), self.fresh('i')
        lim = r.randint(4, 7)
        a, b, c = r.sample(range(1, lim + 1), 3)
        ctl1, ctl2 = [r.choice(['break']), r.choice(['continue'])] if r.random() < 0.5 else [['continue'], ['break']]
        ctl1, ctl2 = (ctl1 if isinstance(ctl1, list) else [ctl1]), (ctl2 if isinstance(ctl2, list) else [ctl2])
        bump = lambda v, d: ['assign', v, ['bin', '+', ['var', v], ['int', d]]]
        eq = lambda v, x: ['bin', '==', ['var', v], ['int', x]]
        shape = r.choice(['else', 'elif-else', 'else-else'])
        if shape == 'else':
            #  if (k == a) n += 10; else  <ctl when k == b, else n += 100>  (ctl in an else of an else)
            inner = ['if', eq(k, a), [bump(n, 10)], [], [['if', eq(k, b), [bump(n, 1000)], [], [ctl1] if r.random() < 0.5 else
                                                          [['if', eq(k, c), [ctl1], [], [bump(n, 100)]]]]]]
        elif shape == 'elif-else':
            inner = ['if', eq(k, a), [bump(n, 10)], [[eq(k, b), [['if', eq(w, 0), [bump(w, 1)], [], [ctl1]]]]],
                     [['if', eq(k, c), [ctl2], [], [bump(n, 100)]]]]
        else:
            inner = ['if', eq(k, a), [bump(n, 10)], [], [['if', eq(k, b), [bump(n, 20)], [], [['if', eq(k, c), [bump(n, 30)], [], [ctl1]]]]]]
        body = [bump(k, 1), inner, bump(n, 1)]
        self.declare(k, V('integer'))
        self.declare(n, V('integer'))
        self.declare(w, V('integer'))
        out = [['assign', k, ['int', 0]], ['assign', n, ['int', 0]], ['assign', w, ['int', 0]]]
        sets = [v for v in self.vars_of('set') if not self.lookup(v).dead]
        if sets and r.random() < 0.4:
            # the same inside a for each (the loop variable is not used: any set will do)
            lv = self.fresh('e')
            out.append(['foreach', lv, r.choice(sets), body])
        else:
            out.append(['while', ['bin', '<', ['var', k], ['int', lim]], body])
        return out

    def st_reflexive_using(self, depth):
        """relate / unrelate ... using across the REFLEXIVE association class R5 (X 'manages' <-- M --> 'is managed by' X),
        in either reading direction, then navigation from both ends and from the link instances"""
        r = self.rng
        self.reflexive_using_done = True
        x1, x2, x3, m1, m2 = [self.fresh(n) for n in ('x', 'x', 'x', 'm', 'm')]
        out = [['create', x1, 'X'], ['create', x2, 'X'], ['create', x3, 'X'], ['create', m1, 'M'], ['create', m2, 'M'],
               ['setattr', ['var', x1], 'n', ['int', 11]], ['setattr', ['var', x2], 'n', ['int', 12]],
               ['setattr', ['var', x3], 'n', ['int', 13]]]

        def using(kind, boss, sub, m):
            # `relate boss to sub across R5.'manages' using m`  ==  `relate sub to boss across R5.'is managed by' using m`
            if r.random() < 0.5:
                return [kind, boss, sub, 'R5', 'manages', m]
            return [kind, sub, boss, 'R5', 'is managed by', m]
        out += [using('relate_using', x1, x2, m1), using('relate_using', x1, x3, m2)]
        ints = []

        def count(handle, cls, phrase):
            sv, cv = self.fresh(cls.lower() + 's'), self.fresh('i')
            out.append(['select_rel', 'many', sv, ['var', handle], [[cls, 'R5', phrase]], None])
            out.append(['assign', cv, ['un', 'cardinality', ['var', sv]]])
            self.declare(sv, V('set', cls))
            ints.append(cv)

        def partner(m, phrase):
            pv, cv = self.fresh('x'), self.fresh('i')
            out.append(['select_rel', 'one', pv, ['var', m], [['X', 'R5', phrase]], None])
            out.append(['assign', cv, ['int', 0]])
            out.append(['if', ['un', 'not_empty', ['var', pv]], [['assign', cv, ['attr', ['var', pv], 'n']]], [], None])
            self.declare(pv, V('inst', 'X', ne=False))
            ints.append(cv)
        count(x1, 'M', 'manages')
        count(x1, 'M', 'is managed by')
        count(x2, 'M', 'is managed by')
        partner(m1, 'is managed by')
        partner(m1, 'manages')
        partner(m2, 'manages')
        if r.random() < 0.7:
            out.append(using('unrelate_using', x1, x3, m2))
            count(x1, 'M', 'manages')
            partner(m2, 'manages')
            partner(m2, 'is managed by')
            if r.random() < 0.5:
                out.append(using('relate_using', x2, x3, m2))
                count(x2, 'M', 'manages')
                partner(m2, 'is managed by')
        for n, c in ((x1, 'X'), (x2, 'X'), (x3, 'X'), (m1, 'M'), (m2, 'M')):
            self.declare(n, V('inst', c, ne=True))
        for n in ints:
            self.declare(n, V('integer'))
        return out

    def st_loopctl(self, depth):
        r = self.rng
        kind = r.choice(['break', 'continue', 'continue'])
        if r.random() < 0.75:
            cond = self.gen_expr('boolean', 2)
            return [['if', cond, [[kind]], [], None]]
        return [[kind]], True

    def st_return(self, depth):
        r = self.rng
        if self.ret_ty == 'any':
            ty = r.choice(['integer', 'integer', 'string', 'boolean', None])
        else:
            ty = self.ret_ty
        e = self.gen_expr(ty, 2) if ty else None
        stmt = ['return', e]
        if r.random() < 0.7:
            return [['if', self.gen_expr('boolean', 2), [stmt], [], None]]
        return [stmt], True

    def st_stop(self, depth):
        if self.rng.random() < 0.7:
            return [['if', self.gen_expr('boolean', 2), [['stop']], [], None]]
        return [['stop']], True


def _nonliteral_leaves(e):
    k = e[0]
    if k == 'bin':
        return _nonliteral_leaves(e[2]) + _nonliteral_leaves(e[3])
    if k == 'un':
        return _nonliteral_leaves(e[2])
    return 0 if k in ('int', 'str', 'bool') else 1


def _bits(e, cur):
    k = e[0]
    if k == 'int':
        return max(5, abs(e[1]).bit_length() + 1)
    if k == 'bin':
        a, b = _bits(e[2], cur), _bits(e[3], cur)
        if e[1] == '*':
            return a + b
        if e[1] in ('/', '%'):
            return a
        return max(a, b) + 1
    if k == 'un':
        return _bits(e[2], cur) if e[1] in ('-', '+') else 8
    return cur


def gen_kwargs(rng):
    params, kwargs = [], {}
    if rng.random() < 0.5:
        params.append(('p', 'integer'))
        kwargs['p'] = rng.choice([0, 1, 2, 5, -3])
    if rng.random() < 0.3:
        params.append(('q', 'string'))
        kwargs['q'] = rng.choice(STRINGS)
    if rng.random() < 0.3:
        params.append(('r', 'boolean'))
        kwargs['r'] = rng.random() < 0.5
    if 'p' in kwargs and rng.random() < 0.3:
        # two parameters whose names differ in letter case only are two parameters
        params.append(('P', 'integer'))
        kwargs['P'] = rng.choice([4, 9, -6, 11])
    return params, kwargs


def shrink_programs(prog):
    """smaller programs: drop one statement, replace a compound statement by one of its blocks"""
    for i, s in enumerate(prog):
        yield prog[:i] + prog[i + 1:]
    for i, s in enumerate(prog):
        if s[0] == 'if':
            yield prog[:i] + s[2] + prog[i + 1:]
            if s[4] is not None:
                yield prog[:i] + s[4] + prog[i + 1:]
            for sub in shrink_programs(s[2]):
                yield prog[:i] + [['if', s[1], sub, s[3], s[4]]] + prog[i + 1:]
            if s[3]:
                yield prog[:i] + [['if', s[1], s[2], [], s[4]]] + prog[i + 1:]
            if s[4] is not None:
                yield prog[:i] + [['if', s[1], s[2], s[3], None]] + prog[i + 1:]
                for sub in shrink_programs(s[4]):
                    yield prog[:i] + [['if', s[1], s[2], s[3], sub]] + prog[i + 1:]
        elif s[0] == 'while':
            for sub in shrink_programs(s[2]):
                yield prog[:i] + [['while', s[1], sub]] + prog[i + 1:]
        elif s[0] == 'foreach':
            for sub in shrink_programs(s[3]):
                yield prog[:i] + [['foreach', s[1], s[2], sub]] + prog[i + 1:]
