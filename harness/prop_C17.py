"""C17 — Ordered sets behave as insertion-ordered mathematical sets.

Cases are operation sequences over a 4-element universe {0,1,2,3} (0 is falsy on purpose) run on
`xtuml.OrderedSet` and `xtuml.QuerySet`; observables after every operation:
list(s), list(reversed(s)), len(s), first, last, plus the operation's own result.

  D  (property predicate, independent oracle = Python `set` + an insertion log):
     content is the mathematical set; single adds / `|=` keep first-insertion order; reversed is the
     exact reverse; len/in/first/last agree; `==` with duplicate-free ordered collections is list
     equality; iteration with removal of the visited element visits exactly the original elements.
     two of a kind: other sets of the same class (built before / after / copied from the set under test) are unaffected by
     its operations and do not affect it (signature other-set-changed).
     elements that are metamodel INSTANCES (level 'inst'): what the metamodel does to an element (delete / create / change it)
     is no operation on the set, every observer goes on agreeing with the history of the set operations; D and K (list level).
     equal but not identical elements (level 'eqv'): every operand is a freshly built object equal to the element meant; a set
     knows its elements up to equality, so an equal object arriving again changes nothing; D and K (list level).
     re-add loop (levels eqv / inst, ops iter-readd / riter-readd, D only): the loop body removes the visited element and puts
     it back; every other element is still visited exactly once, in order, and the re-added ones are last, in that order.
     no collection at all (every level-abs / exotic step, D only): `==` holds EXACTLY for ordered collections with the same
     elements in the same order, so the set - in whatever state, the empty one above all - never compares equal to None, 0,
     False, 0.0, 0j, a falsy non-iterable object, 1, True, 2.5, object(), Ellipsis, a type, a function (s == x, x == s, s != x,
     x != s; a refused comparison - TypeError - is "not equal"); signature eq-noncollection.
     the set as the RIGHT operand (level 'refl' and every level-abs | & - ^ step, D only): x - s, x & s, x | s, x ^ s with x a
     plain list / tuple / set / frozenset hold the elements the mathematical operation gives, both operands are left alone;
     signature rbinop-content.
  K  (correspondence): the same observables from lean/PyxModel/OSet.lean (abstract level) and, for
     add/discard/iter-rm sequences, lean/PyxModel/OSetPtr.lean (pointer level).
"""
import itertools
import operator

from sexp import Sym, dumps

PROP = 'C17'
U = [0, 1, 2, 3]
RULE = ('exhaustive op sequences (quick: length 3, thorough: length 4) over a fixed alphabet of the 16 operations '
        'with representative arguments on OrderedSet and QuerySet, plus random sequences (length up to 60 quick / '
        '400 thorough) with arbitrary arguments; on the pointer level (add / discard / iteration with removal / '
        'membership) exhaustive sequences of length 4 (quick) / 5 (thorough) and random long sequences of the same '
        'lengths; a case is non-trivial when the set reached >= 2 elements and a '
        'removing operation hit a present element; distinct = distinct (class, level, op sequence); in every case three OTHER sets '
        'of the same class live beside the set under test (one built from a list before it, an empty one built after it, a copy '
        'taken half way) and are changed between the steps: neither side may see the other; level inst: the elements are '
        'instances of a metamodel (two classes with the same attributes), the set is built by select_many (with / without filter), '
        'from a list, by single adds or by inst + inst, and between the set operations instances are deleted from / created in / '
        'changed in the metamodel: exhaustively who of three instances is deleted before / after the set was built for every '
        'route, plus random sequences (non-trivial: a held instance was deleted from the metamodel while the set held >= 2); '
        'level eqv: the elements are values (tuples, strings, frozensets, integers beyond the small-int cache, 1 / 1.0 / True / 1+0j '
        'in turn, small integers) and every operand is a freshly built EQUAL object: exhaustively which of three held elements '
        'arrives again by add / |= / construction, plus random sequences (non-trivial: a held element that is not last arrived '
        'again); re-add loops (the body removes the visited element by discard / remove / -= and adds it again by add / |=): '
        'exhaustively every non-empty subset of three elements x six bodies x both directions, plus random sequences; '
        'comparison with things that are no collection (D only): after EVERY step of every level-abs and exotic case the set is '
        'compared (s == x, x == s, s != x, x != s) with one of None / 0 / False / 0.0 / 0j / a falsy non-iterable object / 1 / True / '
        '2.5 / object() / Ellipsis / a type / a builtin function in rotation, and with all six falsy ones whenever the set is empty '
        '(so every way of emptying a set in the exhaustive family is covered); the set as RIGHT operand (D only): in every '
        'level-abs | & - ^ step the reflected operation x OP s is run as well with x a list / tuple / set / frozenset of the '
        'arguments (kind in rotation), and level refl: exhaustively s built from every ordered selection of <= 3 of 3 elements, '
        'then nothing / discard / pop-first / add-pop-add, x every ordered selection (plus two lists with duplicates) as list, '
        'tuple, set and frozenset, all of x - s, x & s, x | s, x ^ s, on both classes, plus random longer histories and operands '
        'over 12 elements (non-trivial: both operands non-empty and different)')
EXHAUSTIVE = {'quick': True, 'thorough': True}
ASSUMPTIONS = ['elements are hashable values compared by ==; the universe is small integers (level inst: instances of a '
               'metamodel, compared by identity; levels exotic / str / refl and the comparisons with non-collections: D only)',
               'CPython 3.12 collections.abc.MutableSet mixins are modelled from their source, tied by correspondence']
CHUNK = 4000
CASE_TIMEOUT_S = 5

ALPHABET = (
    [['add', k] for k in U] + [['discard', k] for k in (0, 1, 2)] + [['remove', 1], ['remove', 3]] +
    [['pop-last'], ['pop-first'], ['clear'],
     ['ior', 2, 0, 3], ['ior', 3, 1], ['ior-bad', 3, 1], ['ior-bad', 2], ['iand', 0, 3], ['iand', 3, 1, 2], ['isub', 1, 0], ['ixor', 3, 0, 1],
     ['or', 3, 0], ['and', 3, 2, 0], ['sub', 0, 2], ['xor', 3, 0], ['eq', 0, 1], ['eq', 1, 0],
     ['iter-rm', 0, 2], ['iter-rm', 1], ['riter-rm', 0, 2], ['riter-rm', 3], ['isub-self']]
)
PTR_ALPHABET = [['add', k] for k in U] + [['discard', k] for k in U] + [['iter-rm', 0, 2], ['iter-rm', 1, 3],
                                                                       ['iter-rm', 0, 1, 2, 3], ['riter-rm', 1, 2]]

_xtuml = None


def setup(ctx):
    global _xtuml
    import xtuml
    _xtuml = xtuml


def generate(ctx):
    depth = ctx.pick(3, 4)
    for cls in ('OrderedSet', 'QuerySet'):
        # prefixes are observed step by step, so only maximal sequences are run; seeds of length 1-2 add variety
        for pre in ([], [['add', 1], ['add', 0]], [['ior', 2, 3, 1, 0]]):
            for seq in itertools.product(ALPHABET, repeat=depth if not pre else depth - 1):
                yield {'cls': cls, 'level': 'abs', 'ops': pre + [list(o) for o in seq]}
    pdepth = ctx.pick(4, 5)
    for seq in itertools.product(PTR_ALPHABET, repeat=pdepth):
        yield {'cls': 'OrderedSet', 'level': 'ptr', 'ops': [list(o) for o in seq]}
    rng = ctx.rng.fork('random')
    n = ctx.pick(300, 6000)
    maxlen = ctx.pick(60, 400)
    names = ['add', 'discard', 'remove', 'pop-last', 'pop-first', 'clear', 'ior', 'ior-bad', 'iand', 'isub', 'ixor',
             'or', 'and', 'sub', 'xor', 'eq', 'iter-rm', 'riter-rm', 'isub-self', 'ixor-self', 'in']
    big = list(range(0, 12))
    for i in range(n):
        r = rng.fork(i)
        univ = U if r.random() < 0.5 else big
        ops = []
        for _ in range(r.randint(1, maxlen)):
            nm = r.choice(names) if r.random() < 0.6 else r.choice(['add', 'add', 'discard', 'ior', 'iter-rm'])
            if nm in ('add', 'discard', 'remove'):
                ops.append([nm, r.choice(univ)])
            elif nm in ('pop-last', 'pop-first', 'clear', 'isub-self', 'ixor-self'):
                ops.append([nm])
            else:
                k = r.randint(0, 5)
                ops.append([nm] + [r.choice(univ) for _ in range(k)])   # may contain duplicates
        yield {'cls': r.choice(['OrderedSet', 'QuerySet']), 'level': 'abs', 'ops': ops,
               'other': r.choice(['oset', 'list'])}
    # random LONG sequences on the pointer level: add / discard / iteration with removal / membership
    rngp = ctx.rng.fork('random-ptr')
    for i in range(ctx.pick(150, 3000)):
        r = rngp.fork(i)
        univ = U if r.random() < 0.3 else big
        ops = []
        for _ in range(r.randint(5, maxlen)):
            nm = r.choice(['add', 'add', 'add', 'discard', 'discard', 'iter-rm', 'riter-rm', 'in'])
            if nm in ('add', 'discard'):
                ops.append([nm, r.choice(univ)])
            else:
                ops.append([nm] + [r.choice(univ) for _ in range(r.randint(0, 4))])
        yield {'cls': r.choice(['OrderedSet', 'QuerySet']), 'level': 'ptr', 'ops': ops}
    # "replace the visited element" (removal of the visited element + addition of a fresh one inside the loop body); D, and K
    # against the pointer model (OSetPtr.iterReplace / reversedReplace)
    rngr = ctx.rng.fork('rmadd')
    for i in range(ctx.pick(400, 6000)):
        r = rngr.fork(i)
        univ = U if r.random() < 0.5 else big
        ops = [['add', k] for k in r.sample(univ, r.randint(1, len(univ)))]
        for _ in range(r.randint(1, 12)):
            nm = r.choice(['add', 'discard', 'iter-rm-add', 'riter-rm-add', 'iter-rm-add', 'iter-rm', 'pop-first'])
            if nm in ('add', 'discard'):
                ops.append([nm, r.choice(univ)])
            elif nm == 'pop-first':
                ops.append([nm])
            else:
                ops.append([nm] + [r.choice(univ) for _ in range(r.randint(1, 4))])
        yield {'cls': r.choice(['OrderedSet', 'QuerySet']), 'level': 'abs', 'ops': ops, 'fam': 'rmadd'}
    # D-only: falsy / None / mixed-type elements
    rnge = ctx.rng.fork('exotic')
    for i in range(ctx.pick(600, 8000)):
        r = rnge.fork(i)
        ops = []
        for _ in range(r.randint(2, 14)):
            nm = r.choice(['add', 'add', 'add', 'discard', 'new', 'ior', 'isub', 'iand', 'ixor', 'or', 'pop-last', 'pop-first', 'iter-rm'])
            if nm in ('add', 'discard'):
                ops.append([nm, r.randrange(len(EXOTIC))])
            elif nm in ('pop-last', 'pop-first'):
                ops.append([nm])
            else:
                ops.append([nm] + [r.randrange(len(EXOTIC)) for _ in range(r.randint(0, 5))])
        yield {'cls': r.choice(['OrderedSet', 'QuerySet']), 'level': 'exotic', 'ops': ops}
    # D-only: operands whose containment test differs from what they yield (str: substring test), string elements
    pool = ['a', 'ab', 'abc', 'x', 'b', '']
    for cls in ('OrderedSet', 'QuerySet'):
        for start in (['a', 'ab', 'abc', 'x'], ['x'], ['b', 'a'], []):
            for operand in ('abcdef', 'ab', '', 'x', 'ba', 'xxabc'):
                for nm in ('isub', 'iand', 'ixor', 'ior', 'sub', 'and', 'or', 'xor'):
                    yield {'cls': cls, 'level': 'str', 'start': start, 'operand': operand, 'op': nm}
    # elements that are real metamodel INSTANCES (what a query set holds in practice), with events of the metamodel between
    # the set operations: an element is deleted from / created in / changed in its metamodel before or after it entered the
    # set; sets built through the routes the library offers (select_many with and without a filter, construction from a
    # list, single adds, inst + inst).  D, and K against the list-level model (instances named by creation index; an event
    # of the metamodel is, for the model of ONE set, a membership question that leaves the set alone).
    # exhaustive part: who of three instances is deleted, before or after the set was built, for every building route
    for cls in ('OrderedSet', 'QuerySet'):
        for build in ([['select', 0]], [['ctor', 0, 1, 2]], [['add', 0], ['add', 1], ['add', 2]], [['ctor', 2, 0, 1]],
                      [['plus', 0, 1], ['add', 2]], [['where', 0, 0], ['add', 1]]):
            for mask in range(8):
                dels = [['delete', i, (i + mask) % 2] for i in range(3) if mask >> i & 1]
                for when in ('before', 'after'):
                    ops = (dels + build) if when == 'before' else (build + dels)
                    yield {'cls': cls, 'level': 'inst', 'kinds': [0, 0, 0], 'other': 'list',
                           'ops': ops + [['in', 0, 1, 2], ['pop-first'], ['pop-last'], ['pop-last']]}
    rngi = ctx.rng.fork('inst')
    set_ops = ['add', 'add', 'add', 'discard', 'remove', 'pop-last', 'pop-first', 'clear', 'ior', 'ior', 'iand', 'isub', 'ixor',
               'or', 'and', 'sub', 'xor', 'eq', 'in', 'iter-rm', 'riter-rm', 'iter-rm-del']
    for i in range(ctx.pick(500, 8000)):
        r = rngi.fork(i)
        kinds = [(r.randrange(2) if r.random() < 0.4 else 0) for _ in range(r.randint(1, 6))]

        def build():
            p = r.random()
            if p < 0.35:
                return ['select', r.randrange(2) if r.random() < 0.3 else 0]
            if p < 0.5:
                return ['where', 0, r.randrange(2)]
            if p < 0.6:
                return ['plus', r.randrange(12), r.randrange(12)]
            return ['ctor'] + [r.randrange(12) for _ in range(r.randint(0, 6))]
        ops = [build()] if r.random() < 0.8 else []
        for _ in range(r.randint(2, ctx.pick(14, 40))):
            p = r.random()
            if p < 0.3:
                ops.append(['delete', r.randrange(12), r.randrange(2)])
            elif p < 0.35:
                ops.append(['touch', r.randrange(12)])
            elif p < 0.41:
                ops.append(['new', r.randrange(2)])
            elif p < 0.47:
                ops.append(build())
            else:
                nm = r.choice(set_ops)
                if nm in ('add', 'discard', 'remove'):
                    ops.append([nm, r.randrange(12)])
                elif nm in ('pop-last', 'pop-first', 'clear'):
                    ops.append([nm])
                else:
                    ops.append([nm] + [r.randrange(12) for _ in range(r.randint(0, 5))])
        yield {'cls': r.choice(['OrderedSet', 'QuerySet', 'QuerySet']), 'level': 'inst', 'kinds': kinds, 'ops': ops,
               'other': r.choice(['oset', 'list'])}
    # EQUAL but not IDENTICAL elements (level 'eqv', same engine as level 'inst'; D, and K against the list-level model):
    # element i is a value and every operand is a freshly built object equal to it - a new tuple / string / frozenset, an
    # integer beyond CPython's cache, 1 / 1.0 / True / (1+0j) in turn; flavour 'int' = the small integers themselves.
    # A mathematical set knows elements up to equality: an equal object arriving again changes nothing.
    # And the re-add loop (levels eqv and inst, D only): the loop body removes the visited element and puts it back.
    flavours = ['tuple', 'str', 'bigint', 'frozenset', 'num', 'int']
    for cls in ('OrderedSet', 'QuerySet'):
        for fl in flavours:
            for j in range(3):
                for again in (['add', j], ['ior', j, 3], ['ior', 2, j], ['ctor', 0, 1, 2, j, 1]):
                    yield {'cls': cls, 'level': 'eqv', 'flavour': fl, 'n': 4, 'other': 'list',
                           'ops': [['ctor', 0, 1, 2], again, ['eq', 0, 1, 2], ['pop-first'], ['pop-last']]}
        for fl in ('int', 'tuple'):
            for how in range(6):
                for mask in range(1, 8):
                    for nm in ('iter-readd', 'riter-readd'):
                        yield {'cls': cls, 'level': 'eqv', 'flavour': fl, 'n': 3, 'other': 'list',
                               'ops': [['ctor', 0, 1, 2], [nm, how] + [i for i in range(3) if mask >> i & 1], ['pop-first']]}
    rngq = ctx.rng.fork('eqv')
    for i in range(ctx.pick(500, 8000)):
        r = rngq.fork(i)
        names = set_ops[:-1] + (['iter-readd', 'riter-readd', 'iter-readd', 'add', 'ior'] if r.random() < 0.4 else ['add', 'ior'])
        ops = [['ctor'] + [r.randrange(12) for _ in range(r.randint(0, 6))]] if r.random() < 0.7 else []
        for _ in range(r.randint(2, ctx.pick(14, 40))):
            nm = r.choice(names)
            if nm in ('add', 'discard', 'remove'):
                ops.append([nm, r.randrange(12)])
            elif nm in ('pop-last', 'pop-first', 'clear'):
                ops.append([nm])
            elif nm in ('iter-readd', 'riter-readd'):
                ops.append([nm, r.randrange(6)] + [r.randrange(12) for _ in range(r.randint(1, 4))])
            else:
                ops.append([nm] + [r.randrange(12) for _ in range(r.randint(0, 5))])
        case = {'cls': r.choice(['OrderedSet', 'QuerySet']), 'ops': ops, 'other': r.choice(['oset', 'list'])}
        if r.random() < 0.2:
            case.update(level='inst', kinds=[0] * r.randint(2, 6))
        else:
            case.update(level='eqv', flavour=r.choice(flavours), n=r.randint(2, 6))
        yield case
    # D-only: the set as the RIGHT operand of - & | ^ (left operand a plain list / tuple / set / frozenset)
    for case in _refl_cases(ctx):
        yield case


LEFT_KINDS = ['list', 'tuple', 'set', 'frozenset']
BINOPS = ['sub', 'and', 'or', 'xor']


def _refl_cases(ctx):
    """the ordered set / query set as the RIGHT operand of - & | ^, the left one a plain list / tuple / set / frozenset (python
    then asks the ordered set's reflected operator).  D only."""
    sel = [list(p) for n in range(4) for p in itertools.permutations([0, 1, 2], n)]
    tails = [[], [['discard', 0]], [['pop-first']], [['add', 2], ['pop-last'], ['add', 1]]]
    for cls in ('OrderedSet', 'QuerySet'):
        for right in sel:
            for tail in tails:
                for kind in LEFT_KINDS:
                    for left in sel + [[1, 1], [0, 2, 0]]:
                        yield {'cls': cls, 'level': 'refl', 'ops': [['ctor'] + right] + tail, 'left_kind': kind, 'left': left,
                               'binops': list(BINOPS)}
    rng = ctx.rng.fork('refl')
    for i in range(ctx.pick(400, 6000)):
        r = rng.fork(i)
        univ = U if r.random() < 0.4 else list(range(12))
        ops = [['ctor'] + [r.choice(univ) for _ in range(r.randint(0, 6))]] if r.random() < 0.6 else []
        for _ in range(r.randint(0, 10)):
            nm = r.choice(['add', 'add', 'add', 'discard', 'pop-first', 'pop-last', 'ior', 'isub', 'clear'])
            if nm in ('add', 'discard'):
                ops.append([nm, r.choice(univ)])
            elif nm in ('ior', 'isub'):
                ops.append([nm] + [r.choice(univ) for _ in range(r.randint(0, 4))])
            else:
                ops.append([nm])
        yield {'cls': r.choice(['OrderedSet', 'QuerySet']), 'level': 'refl', 'ops': ops, 'left_kind': r.choice(LEFT_KINDS),
               'left': [r.choice(univ) for _ in range(r.randint(0, 6))], 'binops': r.sample(BINOPS, r.randint(1, 4))}


def search(ctx, broken):
    """a tie to the source is broken: the D-only families of operand / comparison kinds first, then everything (enlarged)"""
    for case in _refl_cases(ctx):
        yield case
    for case in generate(ctx):
        if case.get('level') != 'refl':
            yield case


class _Nothing(object):
    """no collection, not iterable - and falsy"""
    def __bool__(self):
        return False

    def __repr__(self):
        return '<a falsy object that is not iterable>'


NONCOLL = [None, 0, False, 0.0, 0j, _Nothing(), 1, True, 2.5, object(), Ellipsis, int, len]
N_FALSY = 6


def _asked(f):
    """the answer of a comparison as a bool; None when the comparison was refused (raised)"""
    try:
        return bool(f())
    except Exception:
        return None


def _noncoll(s, items, step, fail, stats):
    """`==` holds exactly for ordered collections with the same elements in the same order: never for something that is no
    collection at all.  One of NONCOLL per step in rotation, all the falsy ones when the set is empty.  Refusing to compare
    (TypeError) is not comparing equal."""
    picks = [(step + len(items)) % len(NONCOLL)]
    if not items:
        picks = list(range(N_FALSY)) + [k for k in picks if k >= N_FALSY]
    stats['noncoll_compared'] = stats.get('noncoll_compared', 0) + len(picks)
    for j in picks:
        x = NONCOLL[j]
        got = [_asked(lambda: s == x), _asked(lambda: x == s), _asked(lambda: s != x), _asked(lambda: x != s)]
        if got[0] or got[1] or got[2] is False or got[3] is False:
            fail('eq-noncollection', 'the set holding %r compares EQUAL to %r, which is no collection at all (s == x: %r, x == s: %r, '
                 's != x: %r, x != s: %r; None = the comparison was refused)' % (items, x, got[0], got[1], got[2], got[3]))
            return


def _holds(r, want, univ):
    """does the result r of a set operation hold exactly the elements of the python set `want` (once each; len / in agree)?
    -> (ok, what was seen); never raises, whatever r is"""
    try:
        rl = list(r)
    except Exception as e:
        return False, 'something that cannot be iterated (%s): %r' % (type(e).__name__, r)
    try:
        ok = set(rl) == want and len(rl) == len(want) and len(r) == len(want) and all((k in r) == (k in want) for k in univ)
    except Exception as e:
        return False, '%r (%s while looking at it)' % (rl, type(e).__name__)
    return ok, '%r (len %d)' % (rl, len(r))


_OPS = {'sub': operator.sub, 'and': operator.and_, 'or': operator.or_, 'xor': operator.xor}
_SYM = {'sub': '-', 'and': '&', 'or': '|', 'xor': '^'}
_KIND = {'list': list, 'tuple': tuple, 'set': set, 'frozenset': frozenset}


def _reflected(nm, kind, elems, s, content, fail, univ):
    """x OP s with x = kind(elems) a plain python collection: the result holds what the mathematical operation gives, x is left
    alone (s is looked at by the caller).  `content` = the elements s holds according to the oracle."""
    left = _KIND[kind](elems)
    r = _OPS[nm](left, s)
    a, b = set(elems), set(content)
    want = {'sub': a - b, 'and': a & b, 'or': a | b, 'xor': a ^ b}[nm]
    ok, seen = _holds(r, want, univ)
    if not ok:
        fail('rbinop-content', '%s(%r) %s <the set holding %r> gave %s, the mathematical result is %r'
             % (kind, list(elems), _SYM[nm], list(content), seen, sorted(want)))
    if left != _KIND[kind](elems):
        fail('operand-changed', '%s(%r) %s <the set holding %r> changed its left operand to %r'
             % (kind, list(elems), _SYM[nm], list(content), left))


def _run_refl(case):
    cls = getattr(_xtuml, case['cls'])
    s = cls()
    oracle, fails, done = [], [], []
    univ = list(range(12))

    def fail(sig, what):
        fails.append({'sig': sig, 'what': '%s: %s after building the set by %s' % (case['cls'], what, dumps([[Sym(o[0])] + o[1:] for o in done]))})
    for op in case['ops']:
        nm, args = op[0], op[1:]
        done.append(op)
        if nm == 'ctor':
            s = cls(list(args))
            oracle = list(dict.fromkeys(args))
        elif nm == 'add':
            s.add(args[0])
            if args[0] not in oracle:
                oracle.append(args[0])
        elif nm == 'discard':
            s.discard(args[0])
            oracle = [k for k in oracle if k != args[0]]
        elif nm in ('pop-first', 'pop-last'):
            if oracle:
                s.pop(last=(nm == 'pop-last'))
                oracle = oracle[:-1] if nm == 'pop-last' else oracle[1:]
        elif nm == 'clear':
            s.clear()
            oracle = []
        elif nm == 'ior':
            s |= list(args)
            oracle = oracle + [k for k in dict.fromkeys(args) if k not in oracle]
        elif nm == 'isub':
            s -= list(args)
            oracle = [k for k in oracle if k not in args]
        else:
            raise ValueError(nm)
    stats = {'fam_refl': 1, 'refl_' + case['left_kind']: 1}
    if list(s) != oracle:
        same = sorted(list(s)) == sorted(oracle)
        fail('insertion-order' if same else 'content', 'the set iterates %r, an insertion-ordered mathematical set holds %r' % (list(s), oracle))
    else:
        for nm in case['binops']:
            _reflected(nm, case['left_kind'], case['left'], s, oracle, fail, univ)
            if list(s) != oracle or list(reversed(s)) != oracle[::-1] or len(s) != len(oracle):
                fail('operand-changed', '%s(%r) %s s changed the set on the right from %r to %r / reversed %r / len %d'
                     % (case['left_kind'], case['left'], _SYM[nm], oracle, list(s), list(reversed(s)), len(s)))
                break
    key = 'refl/%s/%s/%r/%s/%s' % (case['cls'], case['left_kind'], case['left'], ','.join(case['binops']),
                                   dumps([[Sym(o[0])] + o[1:] for o in case['ops']]))
    return {'obs': [], 'd_fail': fails[:3], 'nontrivial': bool(oracle) and bool(case['left']) and set(oracle) != set(case['left']),
            'key': key, 'stats': stats, 'model_line': None}


def _first_last(s, cls):
    if cls == 'QuerySet':
        return s.first, s.last
    return next(iter(s), None), next(reversed(s), None)


def _run_str(case):
    """set algebra with a str operand: the operand contributes the elements it YIELDS (its characters), whatever its own
    `in` does"""
    x = _xtuml
    cls = x.OrderedSet if case['cls'] == 'OrderedSet' else x.QuerySet
    s = cls(case['start'])
    start, other = list(case['start']), list(dict.fromkeys(case['operand']))
    nm = case['op']
    fails = []
    want = {'isub': [e for e in start if e not in other], 'sub': [e for e in start if e not in other],
            'iand': [e for e in start if e in other], 'and': [e for e in start if e in other],
            'ior': start + [e for e in other if e not in start], 'or': start + [e for e in other if e not in start],
            'ixor': [e for e in start if e not in other] + [e for e in other if e not in start],
            'xor': [e for e in start if e not in other] + [e for e in other if e not in start]}[nm]
    try:
        if nm == 'isub':
            s -= case['operand']
            got = list(s)
        elif nm == 'iand':
            s &= case['operand']
            got = list(s)
        elif nm == 'ixor':
            s ^= case['operand']
            got = list(s)
        elif nm == 'ior':
            s |= case['operand']
            got = list(s)
        else:
            r = {'sub': s.__sub__, 'and': s.__and__, 'or': s.__or__, 'xor': s.__xor__}[nm](case['operand'])
            got = list(r) if r is not NotImplemented else None
            if list(s) != start:
                fails.append({'sig': 'operand-changed', 'what': '%s %s %r changed the left operand to %r' % (start, nm, case['operand'], list(s))})
    except Exception as e:
        got = 'raised %s' % type(e).__name__
    if got is not None and (not isinstance(got, list) or set(got) != set(want) or len(got) != len(want)):
        fails.append({'sig': 'content', 'what': '%s(%r) %s %r gives %r, a mathematical set over the elements the operand yields holds %r'
                      % (case['cls'], start, nm, case['operand'], got, sorted(want))})
    return {'obs': [], 'd_fail': fails, 'nontrivial': bool(start) and bool(other), 'key': 'str/%r' % (sorted(case.items()),),
            'stats': {'fam_str': 1}, 'model_line': None}


EXOTIC = [None, '', 0, (), 'a', 1.5, frozenset(), b'']      # pairwise unequal, several of them falsy


def _run_exotic(case):
    """D only: elements that are falsy / None / of mixed types; the oracle is a plain insertion-ordered list"""
    x = _xtuml
    cls = x.OrderedSet if case['cls'] == 'OrderedSet' else x.QuerySet
    el = lambda i: EXOTIC[i]
    s = cls()
    oracle = []
    fails = []
    done = []
    xstats = {}

    def fail(sig, what):
        fails.append({'sig': sig, 'what': what + ' after ops %r' % (done,)})
    for op in case['ops']:
        nm, args = op[0], [el(i) for i in op[1:]]
        done.append([nm] + [repr(a) for a in args])
        try:
            if nm == 'add':
                s.add(args[0])
                if args[0] not in oracle:
                    oracle.append(args[0])
            elif nm == 'discard':
                s.discard(args[0])
                oracle = [k for k in oracle if k != args[0]]
            elif nm == 'new':
                s = cls(list(args))
                oracle = list(dict.fromkeys(args))
            elif nm == 'ior':
                s |= (cls(args) if len(done) % 2 else list(args))
                oracle += [k for k in dict.fromkeys(args) if k not in oracle]
            elif nm == 'isub':
                s -= list(args)
                oracle = [k for k in oracle if k not in args]
            elif nm == 'iand':
                s &= list(args)
                oracle = [k for k in oracle if k in args]
            elif nm == 'ixor':
                s ^= list(args)
                oracle = [k for k in oracle if k not in args] + [k for k in dict.fromkeys(args) if k not in oracle]
            elif nm == 'or':
                r = s | list(args)
                want = oracle + [k for k in dict.fromkeys(args) if k not in oracle]
                if list(r) != want:
                    fail('binop-content', 'a | b gave %r, it should hold %r' % (list(r), want))
            elif nm == 'pop-last':
                if oracle:
                    got = s.pop()
                    if got != oracle[-1] or type(got) is not type(oracle[-1]):
                        fail('pop-wrong-end', 'pop() returned %r, the last element is %r' % (got, oracle[-1]))
                    oracle = oracle[:-1]
            elif nm == 'pop-first':
                if oracle:
                    got = s.pop(last=False)
                    if got != oracle[0] or type(got) is not type(oracle[0]):
                        fail('pop-wrong-end', 'pop(last=False) returned %r, the first element is %r' % (got, oracle[0]))
                    oracle = oracle[1:]
            elif nm == 'iter-rm':
                visited = []
                before = list(oracle)
                for k in s:
                    visited.append(k)
                    if k in args:
                        s.discard(k)
                if visited != before:
                    fail('iter-remove-current', 'iteration with removal visited %r, the set held %r' % (visited, before))
                oracle = [k for k in oracle if k not in args]
        except Exception as e:
            fail('raises', '%s raised %s: %s' % (nm, type(e).__name__, e))
            break
        items = list(s)
        if nm == 'ixor' and sorted(map(repr, items)) == sorted(map(repr, oracle)):
            oracle = list(items)                                   # the order after ^= is not demanded
        fl = _first_last(s, case['cls'])
        if items != oracle or [type(k) for k in items] != [type(k) for k in oracle]:
            fail('content', 'the set holds %r, an insertion-ordered mathematical set holds %r' % (items, oracle))
            break
        if list(reversed(s)) != oracle[::-1] or len(s) != len(oracle) or [e in s for e in EXOTIC] != [e in oracle for e in EXOTIC]:
            fail('len-membership', 'reversed %r / len %d / membership %r disagree with the content %r'
                 % (list(reversed(s)), len(s), [e in s for e in EXOTIC], oracle))
        if case['cls'] == 'OrderedSet' or not oracle or (oracle[0] is not None and oracle[-1] is not None):
            # QuerySet.first / last answer None for an empty set: with None as an end element the two cannot be told apart
            if fl != ((oracle[0], oracle[-1]) if oracle else (None, None)):
                fail('first-last', 'first/last give %r for %r' % (fl, oracle))
        if not (s == list(oracle)) or (s != list(oracle)) or (len(oracle) > 1 and s == list(oracle[::-1])):
            fail('eq-spec', '== / != against lists of the same elements disagree for %r' % (oracle,))
        _noncoll(s, list(oracle), len(done), fail, xstats)
    return {'obs': [], 'd_fail': fails[:3], 'nontrivial': len(case['ops']) > 2, 'key': 'exotic/%r' % (sorted(case.items()),),
            'stats': dict(xstats, fam_exotic=1), 'model_line': None}


INST_KINDS = ['Dog', 'Cat']        # two classes with the same attributes (two of a kind)


def _run_inst(case):
    """Elements are instances of a metamodel; between the set operations the metamodel deletes / creates / changes them.
    A set is a collection of whatever was put into it: what the metamodel does to an element is no operation on the set, so
    every observer (iteration, reverse iteration, length, membership, first, last, ==) goes on agreeing with the history of
    the SET operations.  Oracle: the list of creation indices in first-insertion order, computed from the set operations
    only; instances are recognised by identity.  The content of a selection (select_many / inst + inst) is not this
    property's business: the set is taken as returned, provided it holds known instances once each.
    K: the same observables as on level 'abs' from the list-level model, instances named by creation index; for the model
    an event of the metamodel on instance k is the membership question `(in k)`."""
    x = _xtuml
    cls = getattr(x, case['cls'])
    qs = case['cls'] == 'QuerySet'
    m = x.MetaModel()
    for kind in INST_KINDS:
        m.define_class(kind, [('Name', 'string'), ('Nr', 'integer')])
    table, kind_of, live, ids = [], [], [], {}

    def new(kind):
        inst = m.new(INST_KINDS[kind], Name='n%d' % len(table), Nr=len(table))
        ids[id(inst)] = len(table)
        table.append(inst)
        kind_of.append(kind)
        live.append(True)

    def name(e):
        if e is None:
            return Sym('none')
        i = ids.get(id(e))
        return i if i is not None and table[i] is e else Sym('foreign')

    for kind in case.get('kinds', ()):
        new(kind)
    # level 'eqv': the elements are VALUES, and every time the harness hands element i to the set (or asks about it) it
    # builds a fresh object that is EQUAL to (same hash as), but not identical with, the one the set may already hold
    flavour = case.get('flavour')
    calls = [0]

    def mk(i):
        if flavour is None:
            return table[i]
        calls[0] += 1
        if flavour == 'tuple':
            return tuple(['k', i])
        if flavour == 'str':
            return ''.join(['key', str(i)])
        if flavour == 'bigint':
            return int(str(10 ** 12 + i))
        if flavour == 'frozenset':
            return frozenset(['x', i])
        if flavour == 'num':             # 1 == 1.0 == True == (1+0j): one mathematical element, several representatives
            return [int, float, complex, (lambda v: bool(v) if v < 2 else float(v))][calls[0] % 4](i)
        return i                         # 'int': small integers (identical objects in CPython)

    def size():
        return len(table) if flavour is None else case['n']

    if flavour is not None:
        def name(e):                     # noqa: F811 - values are recognised by EQUALITY, whichever representative is held
            if e is None:
                return Sym('none')
            try:
                i = {'tuple': lambda: e[1], 'str': lambda: int(e[3:]), 'bigint': lambda: e - 10 ** 12,
                     'frozenset': lambda: [v for v in e if v != 'x'][0], 'num': lambda: int(e.real), 'int': lambda: e}[flavour]()
                return i if isinstance(i, int) and 0 <= i < size() and mk(i) == e else Sym('foreign')
            except Exception:
                return Sym('foreign')
    s = cls()
    oracle = []                  # creation indices of the present elements, first insertion first
    obs, mops, fails, done = [], [], [], []
    stats = {'fam_inst': 1} if case.get('flavour') is None else {'fam_eqv': 1, 'eqv_' + case['flavour']: 1}
    nontrivial = False
    stop = False
    no_model = False

    def fail(sig, what):
        how = ('instances as elements (kinds %r; delete / touch / new are events of the metamodel, not of the set)' % (case['kinds'],)
               if flavour is None else 'elements named by number, flavour %s (element 1 = %r; but for flavour int every operand is '
               'a freshly built EQUAL object, not the identical one)' % (flavour, mk(1)))
        fails.append({'sig': sig, 'what': '%s with %s: %s after ops %s'
                      % (case['cls'], how, what, dumps([[Sym(o[0])] + o[1:] for o in done]))})

    def ends():
        f, l = (s.first, s.last) if qs else (next(iter(s), None), next(reversed(s), None))
        return name(f), name(l)

    def want_ends(lst):
        return (lst[0], lst[-1]) if lst else (Sym('none'), Sym('none'))

    def operand(args):
        insts = [mk(i) for i in args]
        return cls(insts) if case.get('other', 'oset') == 'oset' else insts

    for op in case['ops']:
        if stop or not size():
            break
        nm = op[0]
        if flavour is not None and nm in ('select', 'where', 'new', 'delete', 'touch', 'plus', 'iter-rm-del'):
            continue                     # events of a metamodel: level 'inst' only
        args = [i % size() for i in op[1:]] if nm not in ('select', 'where', 'new') else list(op[1:])
        done.append([nm] + args)
        before = list(oracle)
        res = Sym('ok')
        order_known = True
        mop = None               # the model's operation(s) for this step
        if nm == 'delete':
            k = args[0]
            if live[k]:
                if args[1]:
                    x.delete(table[k])
                else:
                    x.get_metaclass(table[k]).delete(table[k], disconnect=False)
                live[k] = False
                if k in oracle:
                    nontrivial |= len(oracle) >= 2
                    stats['inst_deleted_while_held'] = stats.get('inst_deleted_while_held', 0) + 1
                    if k in (oracle[0], oracle[-1]):
                        stats['inst_deleted_at_an_end'] = stats.get('inst_deleted_at_an_end', 0) + 1
            res, mop = [table[k] in s], [[Sym('in'), k]]
        elif nm == 'touch':
            k = args[0]
            table[k].Name = 'changed%d' % len(done)
            res, mop = [table[k] in s], [[Sym('in'), k]]
        elif nm == 'new':
            if len(table) < 12:
                new(args[0] % 2)
            k = len(table) - 1
            res, mop = [table[k] in s], [[Sym('in'), k]]
        elif nm in ('select', 'where', 'plus', 'ctor'):
            # the set under test is REPLACED by one built through another route; for the model: clear, then |=
            if nm == 'select':
                q = m.select_many(INST_KINDS[args[0] % 2])
                hist = [i for i in range(len(table)) if live[i] and kind_of[i] == args[0] % 2]
            elif nm == 'where':
                q = m.select_many(INST_KINDS[args[0] % 2], lambda sel, par=args[1] % 2: sel.Nr % 2 == par)
                hist = [i for i in range(len(table)) if live[i] and kind_of[i] == args[0] % 2 and i % 2 == args[1] % 2]
            elif nm == 'plus':
                q = table[args[0]] + table[args[1]]
                hist = list(dict.fromkeys(args))
            else:
                q = [mk(i) for i in args]
                hist = list(dict.fromkeys(args))
            s = q if (nm != 'ctor' and qs) else cls(q)
            got = [name(e) for e in s]
            if nm == 'ctor':
                oracle = hist                       # construction from an iterable = in-place union into an empty set
            elif all(isinstance(i, int) for i in got) and len(set(got)) == len(got):
                oracle = got                        # a selection is taken as returned (its content is C09's / C02's matter)
                if got != hist:
                    stats['inst_selection_differs'] = 1
            else:
                stats['inst_selection_unusable'] = 1
                break
            obs.append([Sym('ok'), [], [], 0, Sym('none'), Sym('none')])
            mop = [[Sym('clear')], [Sym('ior')] + oracle]
        elif nm == 'add':
            s.add(mk(args[0]))
            if args[0] in oracle[:-1]:
                nontrivial |= flavour is not None        # an element that is held, and not last, arrives again
                stats['readded_while_held'] = stats.get('readded_while_held', 0) + 1
            if args[0] not in oracle:
                oracle.append(args[0])
        elif nm == 'discard':
            s.discard(mk(args[0]))
            oracle = [k for k in oracle if k != args[0]]
        elif nm == 'remove':
            try:
                s.remove(mk(args[0]))
                if args[0] not in before:
                    fail('remove-absent-accepted', 'remove of the absent instance %d did not raise KeyError' % args[0])
            except KeyError:
                res = Sym('KeyError')
                if args[0] in before:
                    fail('remove-present-rejected', 'remove of the present instance %d raised KeyError' % args[0])
            oracle = [k for k in oracle if k != args[0]]
        elif nm in ('pop-last', 'pop-first'):
            try:
                res = name(s.pop(last=(nm == 'pop-last')))
                want = (before[-1] if nm == 'pop-last' else before[0]) if before else None
                if not before:
                    fail('pop-empty-accepted', 'pop on an empty set returned %r' % (res,))
                elif res != want:
                    fail('pop-wrong-end', '%s returned instance %r, the %s element is instance %r' % (nm, res, nm[4:], want))
                oracle = [k for k in oracle if k != res]
            except KeyError:
                res = Sym('KeyError')
                if before:
                    fail('pop-nonempty-rejected', 'pop on a non-empty set raised KeyError')
        elif nm == 'clear':
            s.clear()
            oracle = []
        elif nm == 'ior':
            s |= operand(args)
            oracle = oracle + [k for k in dict.fromkeys(args) if k not in oracle]
        elif nm == 'iand':
            s &= operand(args)
            oracle = [k for k in oracle if k in args]
        elif nm == 'isub':
            s -= operand(args)
            oracle = [k for k in oracle if k not in args]
        elif nm == 'ixor':
            s ^= operand(args)
            oracle = [k for k in oracle if k not in args] + [k for k in dict.fromkeys(args) if k not in before]
            order_known = False
        elif nm in ('or', 'and', 'sub', 'xor'):
            o = operand(args)
            r = {'or': lambda: s | o, 'and': lambda: s & o, 'sub': lambda: s - o, 'xor': lambda: s ^ o}[nm]()
            want = {'or': set(before) | set(args), 'and': set(before) & set(args), 'sub': set(before) - set(args),
                    'xor': set(before) ^ set(args)}[nm]
            res = [name(e) for e in r]
            if set(res) != want or len(res) != len(want):
                fail('binop-content', '%s gave the instances %r, the mathematical result is %r' % (nm, res, sorted(want)))
            if not isinstance(r, cls):
                fail('binop-type', '%s returned a %s' % (nm, type(r).__name__))
            if nm == 'or' and res[:len(before)] != before:
                fail('or-order', 'a | b does not start with a in a\'s order: %r' % (res,))
        elif nm == 'eq':
            insts = [mk(i) for i in args]
            r1, r2, r3, r4 = (s == list(insts)), (s == tuple(insts)), (s == cls(insts)), not (s != list(insts))
            res = bool(r1)
            if not (r1 == r2 == r3 == r4):
                fail('eq-inconsistent', '== differs between list/tuple/set/!= forms: %r' % ([r1, r2, r3, r4],))
            if len(set(args)) == len(args) and bool(r1) != (before == args):
                fail('eq-spec', 'the set of instances %r == the list of instances %r gave %r' % (before, args, r1))
        elif nm == 'in':
            res = [(mk(k) in s) for k in args]
            if res != [(k in before) for k in args]:
                fail('membership', 'in gave %r for the instances %r on %r' % (res, args, before))
        elif nm in ('iter-rm', 'riter-rm', 'iter-rm-del'):
            # the loop body removes the visited element from the set (iter-rm-del: and deletes it from its metamodel) and
            # reads the ends of the set it is iterating
            visited = []
            back = nm == 'riter-rm'
            for e in (reversed(s) if back else s):
                k = name(e)
                visited.append(k)
                if k in args:
                    s.discard(e)
                    if nm == 'iter-rm-del' and live[k]:
                        x.delete(e)
                        live[k] = False
                now = [j for j in before if not (j in args and j in visited)]
                if ends() != want_ends(now):
                    fail('iter-inner-view', 'inside an iteration with removal (visited so far %r) first/last give %r, the set '
                         'holds %r' % (visited, ends(), now))
                if len(visited) > len(before) + 5:
                    break
            if visited != (before[::-1] if back else before):
                fail('iter-remove-current', '%siteration with removal of the visited element visited the instances %r, '
                     'the set held %r' % ('REVERSE ' if back else '', visited, before))
            res = visited[::-1] if back else visited      # level abs: the model's forward iteration with removal
            oracle = [k for k in oracle if k not in args]
            mop = [[Sym('iter-rm')] + args]
        elif nm in ('iter-readd', 'riter-readd'):
            # D only: while an element is visited the loop body REMOVES it (discard / remove / -=) and puts it back (add / |=),
            # once per element and at most four times: the element leaves and arrives anew (it is last now); every OTHER element
            # is still visited exactly once, in order.  The new arrival is behind a forward walk (which may or may not reach
            # it once more) and was passed by a backward walk.
            how, want_re = op[1] if len(op) > 1 else 0, args[1:]
            back = nm == 'riter-readd'
            visited, re_added = [], []
            for e in (reversed(s) if back else s):
                k = name(e)
                visited.append(k)
                if k in want_re and k not in re_added and len(re_added) < 4:
                    if how % 3 == 0:
                        s.discard(mk(k))
                    elif how % 3 == 1:
                        s.remove(mk(k))
                    else:
                        s -= [mk(k)]
                    if (how // 3) % 2 == 0:
                        s.add(mk(k))
                    else:
                        s |= [mk(k)]
                    re_added.append(k)
                if len(visited) > 3 * (len(before) + 5):
                    break
            firsts, seen_re = [], set()
            for k in visited:
                if k in re_added and k in seen_re:
                    continue                     # the new arrival of a re-added element, met once more
                if k in re_added:
                    seen_re.add(k)
                firsts.append(k)
            if firsts != (before[::-1] if back else before) or any(visited.count(k) > 2 for k in re_added):
                fail('iter-remove-current', '%siteration whose body removes the visited element and adds it again (elements %r) '
                     'visited %r, the set held %r: another element was skipped or repeated'
                     % ('REVERSE ' if back else '', re_added, visited, before))
            oracle = [k for k in oracle if k not in re_added] + re_added
            if re_added and len(before) >= 2:
                nontrivial = True
                stats['readd_loops'] = stats.get('readd_loops', 0) + 1
            no_model = True
            mop = []
        else:
            raise ValueError(nm)
        mops += mop if mop is not None else [[Sym(nm)] + args]
        # every observer against the history of the set operations
        items = [name(e) for e in s]
        rev = [name(e) for e in reversed(s)]
        n = len(s)
        fl = ends()
        if sorted(map(repr, items)) != sorted(map(repr, oracle)):
            fail('content', 'after %s the set holds the instances %r, a mathematical set holds %r' % (done[-1], items, sorted(oracle)))
            stop = True
        elif order_known and items != oracle:
            fail('insertion-order', 'after %s iteration order is %r, first-insertion order is %r' % (done[-1], items, oracle))
            oracle = list(items)
        elif not order_known:
            oracle = list(items)
        if rev != items[::-1]:
            fail('reversed', 'reversed gives the instances %r for %r' % (rev, items))
        if n != len(items):
            fail('len', 'len gives %d for %r' % (n, items))
        mem = [mk(k) in s for k in range(size())]
        if mem != [k in items for k in range(size())]:
            fail('membership', 'in gives %r over all instances, the set holds %r' % (mem, items))
        if fl != want_ends(items):
            dead = [k for k in items if isinstance(k, int) and flavour is None and not live[k]]
            fail('first-last', 'first/last give the instances %r, the set iterates %r (instances deleted from the metamodel: %r)'
                 % (fl, items, dead))
        same = [mk(k) for k in items if isinstance(k, int)]
        if len(same) == len(items) and (not (s == same) or (s != same) or (len(same) > 1 and s == same[::-1])):
            fail('eq-spec', '== / != against the list of its own elements (and its reverse) disagree for %r' % (items,))
        if len(items) >= 2 and flavour is None and any(isinstance(k, int) and not live[k] for k in items):
            nontrivial = True
        obs.append([res, items, rev, n, fl[0], fl[1]])
    key = '%s/%s/%r/%s' % (case['cls'], case['level'], case.get('kinds', flavour), dumps([[Sym(o[0])] + o[1:] for o in case['ops']]))
    return {'obs': _norm(obs), 'd_fail': fails[:3], 'nontrivial': nontrivial, 'key': key, 'stats': stats,
            'model_line': dumps([Sym('oset')] + mops) if mops and not no_model else None}


def run_impl(case):
    if case.get('level') in ('inst', 'eqv'):
        return _run_inst(case)
    if case.get('level') == 'str':
        return _run_str(case)
    if case.get('level') == 'exotic':
        return _run_exotic(case)
    if case.get('level') == 'refl':
        return _run_refl(case)
    cls = getattr(_xtuml, case['cls'])
    # two of a kind: other sets of the same class live beside `s` - one built (from an iterable) BEFORE it, one (empty) AFTER
    # it, one copied from it half way; whatever happens to `s` must leave them alone, and what happens to them must leave `s`
    # alone (state shared through the class, a default argument or a module-level sentinel would show here)
    elder_src = [101, 100, 102]
    elder = cls(elder_src)
    elder_oracle = list(elder_src)
    s = cls()
    younger = cls()
    copy_of_s, copy_oracle = None, None
    oracle = []           # first-insertion order of the present elements
    obs = []
    fails = []
    nontrivial = False
    reached2 = False
    other_kind = case.get('other', 'oset')
    ptr = case['level'] == 'ptr'
    xstats = {}

    def fail(sig, what):
        fails.append({'sig': sig, 'what': what + ' after ops %s' % dumps([[Sym(o[0])] + o[1:] for o in case['ops'][:len(obs) + 1]])})

    def look_inside(visited, args):
        # re-entrancy: on every other step the loop body also READS the set it is iterating (its own nested iterations,
        # length, membership, ends, comparison) after the removal; the reads see the set without the elements removed so
        # far and leave the outer iteration where it was
        if len(obs) % 2 == 0:
            return
        now = [k for k in oracle if not (k in args and k in visited)]
        inner = list(s)
        back = list(reversed(s))
        if inner != now or back != now[::-1] or len(s) != len(now) or [k in s for k in U] != [k in now for k in U] or \
                _first_last(s, case['cls']) != ((now[0], now[-1]) if now else (None, None)) or not (s == list(now)):
            fail('iter-inner-view', 'inside an iteration with removal (visited so far %r) the set reads %r / reversed %r / len %d, '
                 'it holds %r' % (visited, inner, back, len(s), now))

    def bystanders(step, op):
        nonlocal copy_of_s, copy_oracle, elder_oracle
        for name, t, want in (('built before it', elder, elder_oracle), ('built after it', younger, []),
                              ('copied from it earlier', copy_of_s, copy_oracle)):
            if t is None:
                continue
            if list(t) != want or list(reversed(t)) != want[::-1] or len(t) != len(want) or \
                    _first_last(t, case['cls']) != ((want[0], want[-1]) if want else (None, None)):
                fail('other-set-changed', 'after %s on one set, ANOTHER set (%s) holds %r / reversed %r / len %d, it should hold %r'
                     % (op, name, list(t), list(reversed(t)), len(t), want))
                if t is elder:
                    elder_oracle = list(t)
                elif t is copy_of_s:
                    copy_oracle = list(t)
        if elder_src != [101, 100, 102]:
            fail('argument-changed', 'the list a set was built from changed to %r' % (elder_src,))
        # now the other way round: operations on the bystanders must not show in `s`
        mine = (list(s), list(reversed(s)), len(s))
        k = 100 + (step * 7) % 5
        if step % 2:
            elder.add(k)
            if k not in elder_oracle:
                elder_oracle.append(k)
        else:
            elder.discard(k)
            elder_oracle = [e for e in elder_oracle if e != k]
        if step == len(case['ops']) // 2:
            copy_of_s = cls(s)
            copy_oracle = list(mine[0])
        elif copy_of_s is not None and step % 3 == 0:
            copy_of_s.add(300 + step)
            copy_oracle.append(300 + step)
        if (list(s), list(reversed(s)), len(s)) != mine:
            fail('other-set-changed', 'operations on OTHER sets (add / discard / copy construction) changed this set from %r to %r'
                 % (mine[0], list(s)))

    for step, op in enumerate(case['ops']):
        nm, args = op[0], op[1:]
        before = list(s)
        bset = set(before)
        res = Sym('ok')
        order_known = True
        mk_other = (lambda: cls(args)) if other_kind == 'oset' else (lambda: list(args))
        try:
            if nm == 'add':
                s.add(args[0])
                expect = bset | {args[0]}
                if args[0] not in bset:
                    oracle.append(args[0])
            elif nm == 'discard':
                s.discard(args[0])
                expect = bset - {args[0]}
                nontrivial |= (args[0] in bset and reached2)
                oracle = [k for k in oracle if k != args[0]]
            elif nm == 'remove':
                expect = bset - {args[0]}
                if args[0] in bset:
                    nontrivial |= reached2
                    oracle = [k for k in oracle if k != args[0]]
                try:
                    s.remove(args[0])
                    if args[0] not in bset:
                        fail('remove-absent-accepted', 'remove(%r) of an absent element did not raise KeyError' % args[0])
                except KeyError:
                    res = Sym('KeyError')
                    if args[0] in bset:
                        fail('remove-present-rejected', 'remove(%r) of a present element raised KeyError' % args[0])
            elif nm in ('pop-last', 'pop-first'):
                try:
                    k = s.pop(last=(nm == 'pop-last'))
                    res = k
                    want = (oracle[-1] if nm == 'pop-last' else oracle[0]) if oracle else None
                    if not before:
                        fail('pop-empty-accepted', 'pop on an empty set returned %r' % (k,))
                    elif k != want:
                        fail('pop-wrong-end', '%s returned %r, the %s element is %r' % (nm, k, nm[4:], want))
                    expect = bset - {k}
                    oracle = [x for x in oracle if x != k]
                    nontrivial |= reached2
                except KeyError:
                    res = Sym('KeyError')
                    expect = bset
                    if before:
                        fail('pop-nonempty-rejected', 'pop on a non-empty set raised KeyError')
            elif nm == 'clear':
                s.clear()
                expect = set()
                oracle = []
            elif nm == 'ior-bad':
                # an in-place union that is REJECTED half way: the operand yields its elements and then fails (an unhashable
                # element / a generator that raises); what was taken in before stays, and the set stays consistent
                def failing(xs=tuple(args), how=len(args) % 2):
                    for k in xs:
                        yield k
                    if how:
                        yield []
                    else:
                        raise RuntimeError('operand failed')
                try:
                    s |= failing()
                    fail('bad-operand-accepted', '|= with a failing operand raised nothing')
                except (TypeError, RuntimeError):
                    pass
                expect = bset | set(args)
                for k in args:
                    if k not in oracle:
                        oracle.append(k)
            elif nm == 'ior':
                o = mk_other()
                s |= o
                (o.add if hasattr(o, 'add') else o.append)(78)      # the operand stays independent of `s`
                expect = bset | set(args)
                for k in args:
                    if k not in oracle:
                        oracle.append(k)
            elif nm == 'iand':
                o = mk_other()
                s &= o
                (o.add if hasattr(o, 'add') else o.append)(78)      # the operand stays independent of `s`
                expect = bset & set(args)
                oracle = [k for k in oracle if k in expect]
                nontrivial |= (reached2 and expect != bset)
            elif nm == 'isub':
                o = mk_other()
                s -= o
                (o.add if hasattr(o, 'add') else o.append)(78)      # the operand stays independent of `s`
                expect = bset - set(args)
                oracle = [k for k in oracle if k in expect]
                nontrivial |= (reached2 and expect != bset)
            elif nm == 'ixor':
                o = mk_other()
                s ^= o
                (o.add if hasattr(o, 'add') else o.append)(78)      # the operand stays independent of `s`
                expect = bset ^ set(args)
                order_known = False
            elif nm == 'isub-self':
                s -= s
                expect = set()
                oracle = []
            elif nm == 'ixor-self':
                s ^= s
                expect = set()
                oracle = []
            elif nm in ('or', 'and', 'sub', 'xor'):
                o = mk_other()
                r = {'or': lambda: s | o, 'and': lambda: s & o, 'sub': lambda: s - o, 'xor': lambda: s ^ o}[nm]()
                want = {'or': bset | set(args), 'and': bset & set(args), 'sub': bset - set(args),
                        'xor': bset ^ set(args)}[nm]
                rl = list(r)
                res = rl
                # the result is a new set: changing it (or the operand) afterwards must not change `s`
                # (checked by the content observation of `s` below)
                try:
                    r.add(77)
                    if rl:
                        r.discard(rl[0])
                    if hasattr(o, 'add'):
                        o.add(78)
                except Exception:
                    pass
                if set(rl) != want or len(rl) != len(set(rl)):
                    fail('binop-content', '%s gave %r, the mathematical result is %r' % (nm, rl, sorted(want)))
                if not isinstance(r, cls):
                    fail('binop-type', '%s returned a %s' % (nm, type(r).__name__))
                if nm == 'or' and rl[:len(before)] != before:
                    fail('or-order', 'a | b does not start with a in a\'s order: %r' % (rl,))
                # the same operation with the set on the RIGHT and a plain python collection on the left (D only; that `s` is
                # left alone shows in the content observation below)
                _reflected(nm, LEFT_KINDS[(step + len(args)) % 4], list(args), s, before, fail, U)
                expect = bset
            elif nm == 'eq':
                dupfree = len(set(args)) == len(args)
                r1 = (s == list(args))
                r2 = (s == tuple(args))
                r3 = (s == cls(args))
                r4 = not (s != list(args))
                res = bool(r1)
                if not (r1 == r2 == r3 == r4):
                    fail('eq-inconsistent', '== differs between list/tuple/set/!= forms: %r' % ([r1, r2, r3, r4],))
                if dupfree and bool(r1) != (before == list(args)):
                    fail('eq-spec', '%r == %r gave %r' % (before, list(args), r1))
                expect = bset
            elif nm == 'in':
                res = [(k in s) for k in args]
                if res != [(k in bset) for k in args]:
                    fail('membership', 'in gave %r on %r' % (res, before))
                expect = bset
            elif nm in ('iter-rm-add', 'riter-rm-add'):
                # D only ("replace the visited element"): the consumer removes the visited element AND adds a fresh one before
                # the iterator advances; every ORIGINAL element is still visited exactly once, in order (a fresh element is
                # appended behind: a forward walk may or may not reach it, a backward walk never does)
                visited, added = [], []
                fresh = 1000 + 10 * len(obs)
                back = nm == 'riter-rm-add'
                try:
                    for x in (reversed(s) if back else s):
                        visited.append(x)
                        if x in args and x < 1000 and len(added) < 4:
                            s.discard(x)
                            s.add(fresh + len(added))
                            added.append(fresh + len(added))
                        if len(visited) > 3 * (len(before) + 5):
                            break
                except Exception as e:
                    fail('iter-remove-raises', 'iteration that replaces the visited element raised %s: %s after visiting %r'
                         % (type(e).__name__, e, visited))
                orig = [v for v in visited if v in bset]
                if orig != (before[::-1] if back else before):
                    fail('iter-remove-current', '%siteration that removes the visited element and adds a fresh one visited the '
                         'original elements %r, the set held %r' % ('REVERSE ' if back else '', orig, before))
                res = list(visited)          # K: the pointer model runs the same loop (OSetPtr.iterReplace / reversedReplace)
                gone = set(list(x for x in visited if x in args and x < 1000)[:len(added)])
                expect = (bset - gone) | set(added)
                oracle = [k for k in oracle if k in expect] + added
                nontrivial |= (reached2 and bool(added))
            elif nm == 'riter-rm':
                # the same walking BACKWARDS (reversed(s)): every element is visited once, in reverse order
                visited = []
                try:
                    for x in reversed(s):
                        visited.append(x)
                        if x in args:
                            s.discard(x)
                        look_inside(visited, args)
                except Exception as e:
                    fail('iter-remove-raises', 'REVERSE iteration with removal of the visited element raised %s: %s after visiting %r'
                         % (type(e).__name__, e, visited))
                    for x in args:
                        s.discard(x)
                # abstract level: observation in forward order (the model's iteration with removal); pointer level: the
                # visit list as visited - the model walks `prev` itself (OSetPtr.reversedRem)
                res = list(visited) if ptr else visited[::-1]
                if visited != before[::-1]:
                    fail('iter-remove-current', 'REVERSE iteration with removal of the visited element visited %r, '
                         'the set held %r' % (visited, before))
                expect = bset - set(args)
                oracle = [k for k in oracle if k in expect]
                nontrivial |= (reached2 and expect != bset)
            elif nm == 'iter-rm':
                visited = []
                try:
                    for x in s:
                        visited.append(x)
                        if x in args:
                            s.discard(x)
                        look_inside(visited, args)
                except Exception as e:
                    fail('iter-remove-raises', 'iteration with removal of the visited element raised %s: %s after visiting %r'
                         % (type(e).__name__, e, visited))
                    for x in args:
                        s.discard(x)
                res = visited
                if visited != before:
                    fail('iter-remove-current', 'iteration with removal of the visited element visited %r, '
                         'the set held %r' % (visited, before))
                expect = bset - set(args)
                oracle = [k for k in oracle if k in expect]
                nontrivial |= (reached2 and expect != bset)
            else:
                raise ValueError(nm)
        except KeyError:
            raise
        items = list(s)
        rev = list(reversed(s))
        fl = _first_last(s, case['cls'])
        if set(items) != expect or len(items) != len(expect):
            fail('content', 'after %s the set holds %r, a mathematical set holds %r' % (op, items, sorted(expect)))
            oracle = list(items)
        elif order_known and items != oracle:
            fail('insertion-order', 'after %s iteration order is %r, first-insertion order is %r' % (op, items, oracle))
            oracle = list(items)
        elif not order_known:
            oracle = list(items)
        if rev != items[::-1]:
            fail('reversed', 'reversed gives %r for %r' % (rev, items))
        if len(s) != len(items):
            fail('len', 'len gives %d for %r' % (len(s), items))
        if [(k in s) for k in U] != [(k in expect) for k in U]:
            fail('membership', 'in disagrees with content %r' % (items,))
        if fl != ((items[0], items[-1]) if items else (None, None)):
            fail('first-last', 'first/last give %r for %r' % (fl, items))
        if len(items) >= 2:
            reached2 = True
        _noncoll(s, items, step, fail, xstats)
        bystanders(step, op)
        # the same observables on both levels (the pointer level reads first / last / len / membership off the pointers)
        obs.append([res, items, rev, len(s), fl[0] if fl[0] is not None else Sym('none'),
                    fl[1] if fl[1] is not None else Sym('none')])
    key = '%s/%s/%s' % (case['cls'], case['level'], dumps([[Sym(o[0])] + o[1:] for o in case['ops']]))
    return {'obs': _norm(obs), 'd_fail': fails[:3], 'nontrivial': nontrivial, 'key': key,
            'stats': dict(xstats, **{'ops': len(case['ops']), 'cases_' + case['level']: 1})}


def _norm(x):
    if isinstance(x, bool):
        return Sym('T') if x else Sym('F')
    if isinstance(x, (list, tuple)):
        return [_norm(e) for e in x]
    return x


def model_line(case):
    if case.get('fam') == 'rmadd':
        # pointer model: the loop body needs the fresh base of the step (1000 + 10 * step index), sent as first argument
        ops = []
        for step, o in enumerate(case['ops']):
            if o[0] in ('iter-rm-add', 'riter-rm-add'):
                ops.append([Sym(o[0]), 1000 + 10 * step] + o[1:])
            else:
                ops.append([Sym(o[0])] + o[1:])
        return dumps([Sym('osetp')] + ops)
    head = 'osetp' if case['level'] == 'ptr' else 'oset'
    # a rejected in-place union has taken in the elements its operand yielded before failing: for the model it is that union;
    # a backward iteration with removal visits the same elements and leaves the same set as the forward one: on the abstract
    # level the harness reports the visit list in forward order and the model runs its iteration with removal; on the pointer
    # level the model walks `prev` itself (riter-rm -> OSetPtr.reversedRem) and the visit list is compared as visited
    ren = {'ior-bad': 'ior'} if case['level'] == 'ptr' else {'ior-bad': 'ior', 'riter-rm': 'iter-rm'}
    return dumps([Sym(head)] + [[Sym(ren.get(o[0], o[0]))] + o[1:] for o in case['ops']])


def model_obs(case, ans):
    return ans


def shrink_candidates(case):
    if 'ops' not in case:
        return
    ops = case['ops']
    for i in range(len(ops)):
        c = dict(case)
        c['ops'] = ops[:i] + ops[i + 1:]
        yield c
    if case.get('level') == 'refl':
        for nm in case['binops'] if len(case['binops']) > 1 else ():
            yield dict(case, binops=[nm])
        for i in range(len(case['left'])):
            yield dict(case, left=case['left'][:i] + case['left'][i + 1:])
