"""S-expression wire format shared with lean/PyxModel/Sexp.lean.

Python values map as:  Sym('x') <-> symbol, int <-> integer, str <-> "string",
list/tuple <-> ( ... ).  bool maps to the symbols T / F, None to the symbol none.
"""


class Sym(str):
    __slots__ = ()

    def __repr__(self):
        return 'Sym(%s)' % str.__repr__(self)


T = Sym('T')
F = Sym('F')
NONE = Sym('none')


def _esc(s):
    out = []
    for ch in s:
        o = ord(ch)
        if 32 <= o < 127 and ch not in '"\\':
            out.append(ch)
        else:
            out.append('\\u{%x}' % o)
    return ''.join(out)


def dumps(x):
    if isinstance(x, Sym):
        return str(x)
    if x is True:
        return 'T'
    if x is False:
        return 'F'
    if x is None:
        return 'none'
    if isinstance(x, int):
        return '%d' % x
    if isinstance(x, str):
        return '"' + _esc(x) + '"'
    if isinstance(x, (list, tuple)):
        return '(' + ' '.join(dumps(e) for e in x) + ')'
    raise TypeError('cannot encode %r' % (x,))


_DELIM = set('() "\n\t\r')


def loads(s):
    pos = 0
    n = len(s)

    def skip():
        nonlocal pos
        while pos < n and s[pos] in ' \t\r\n':
            pos += 1

    def one():
        nonlocal pos
        skip()
        if pos >= n:
            raise ValueError('unexpected end')
        c = s[pos]
        if c == '(':
            pos += 1
            out = []
            while True:
                skip()
                if pos >= n:
                    raise ValueError('unterminated list')
                if s[pos] == ')':
                    pos += 1
                    return out
                out.append(one())
        if c == ')':
            raise ValueError('unexpected )')
        if c == '"':
            pos += 1
            buf = []
            while True:
                if pos >= n:
                    raise ValueError('unterminated string')
                ch = s[pos]
                if ch == '"':
                    pos += 1
                    return ''.join(buf)
                if ch == '\\' and s.startswith('\\u{', pos):
                    end = s.index('}', pos)
                    buf.append(chr(int(s[pos + 3:end], 16)))
                    pos = end + 1
                    continue
                buf.append(ch)
                pos += 1
        start = pos
        while pos < n and s[pos] not in _DELIM:
            pos += 1
        tok = s[start:pos]
        try:
            return int(tok)
        except ValueError:
            return Sym(tok)

    return one()


def to_plain(x):
    """Sexp value -> JSON-friendly value (symbols become strings prefixed with ':')."""
    if isinstance(x, Sym):
        return ':' + str(x)
    if isinstance(x, list):
        return [to_plain(e) for e in x]
    return x
