"""C16 — Reflexive sorting yields the succession order and terminates.

A reflexive, conditional one-to-one association R2 (phrases 'precedes' / 'succeeds') over one class.
Arrangements of n instances into ordered chains are built through the API (relate consecutive members),
then xtuml.sort_reflexive is called on QuerySets holding the members in several orders, across both phrases.

Construction routes: the API, and (family `loaded`) xtuml.ModelLoader: instances and chain / ring links are written as
SQL text (rows with explicit Id and Next_Id / Other_Id values) and loaded; edits and sorts run on the loaded model.

Family `variant` varies what the statement is silent about (so the result may not depend on it): WHEN
Association.formalize() is called (before the instances exist / once the chains are built / after the last edit / never:
relate() and navigation work on the links alone, formalize only turns the referential attributes into views of them), the
TYPE and VALUES of the identifying attribute (generator ids, or explicit unique_id / integer / string values incl. the
type's null value 0 / ''), and members that were removed from the instance pool with delete(inst, disconnect=False) AFTER
the set was selected (they are still members of the set and still linked into their chain).

  D  from the construction recipe (the harness knows the chains it built): whole-chain sets come back as
     every member exactly once, each chain contiguous, starting at the member without partner across the
     phrase and following the opposite phrase; chains in the set-order of those starting members; the other
     phrase gives each chain reversed; a single ring comes back once around from the set's first member;
     the empty set gives the empty result; every call terminates (watchdog), also on arbitrary subsets and
     on sets mixing rings and chains, where the result must be duplicate-free members of the set.
  K  lean/PyxModel/Reflexive.lean (`sortReflexiveSt` over the L2 state) run by the driver.
"""
import itertools

import meta_common as mc
from sexp import Sym, dumps

PROP = 'C16'
RULE = ('exhaustive: every arrangement of n labelled instances into ordered chains (sets of lists: 1, 3, 13, 73, 501, '
        '4051, 37633 for n = 1..7; quick n <= 6, thorough n <= 7), each sorted across both phrases with the set in '
        'creation order and in one permuted order; every ring of n <= 6 (thorough 7) instances in every cyclic order; '
        'arbitrary subsets and ring+chain mixtures for termination; random sets of 50-500 instances. Non-trivial: a '
        'chain of >= 2 members or a ring; distinct = distinct (arrangement, set order, phrase); family `loaded`: a sample of all of '
        'these with the arrangement loaded from SQL text by xtuml.ModelLoader instead of built with relate(); family `variant`: random '
        'arrangements of 1-7 instances (chains, or one ring) with the association formalized first / once built / last / never, '
        'generator or explicit unique_id / integer / string identifiers incl. the null value, and members deleted with '
        'disconnect=False after the set was selected')
EXHAUSTIVE = {'quick': True, 'thorough': True}
ASSUMPTIONS = ['the association is reflexive, conditional 1:1 with two distinct phrases; chains are built with relate() or '
               '(family loaded) loaded from SQL text; a member deleted with disconnect=False after the set was selected is still a member '
               'of the set and of its chain (family variant)']
CHUNK = 1500
CASE_TIMEOUT_S = 10
SCHEMA = mc.SHAPES['reflexive']
# the same class with a SECOND reflexive association (own referential attribute), with other / with the same phrases
SCHEMAS = {
    'r1': SCHEMA,
    'r2': {'classes': [mc.C('N', 'Id', [('Next_Id', 'unique_id'), ('Other_Id', 'unique_id')])],
           'assocs': [mc.A('R2', 0, ['Next_Id'], False, True, 'precedes', 0, ['Id'], False, True, 'succeeds'),
                      mc.A('R7', 0, ['Other_Id'], False, True, 'leads', 0, ['Id'], False, True, 'follows')]},
    'r2s': {'classes': [mc.C('N', 'Id', [('Next_Id', 'unique_id'), ('Other_Id', 'unique_id')])],
            'assocs': [mc.A('R2', 0, ['Next_Id'], False, True, 'precedes', 0, ['Id'], False, True, 'succeeds'),
                       mc.A('R7', 0, ['Other_Id'], False, True, 'precedes', 0, ['Id'], False, True, 'succeeds')]},
}
PHRASES = {'r1': {'R2': ('precedes', 'succeeds')},
           'r2': {'R2': ('precedes', 'succeeds'), 'R7': ('leads', 'follows')},
           'r2s': {'R2': ('precedes', 'succeeds'), 'R7': ('precedes', 'succeeds')}}
_x = None


def setup(ctx):
    global _x
    import xtuml
    _x = xtuml
    mc.bind(xtuml)


# --------------------------------------------------------------------------------------------- family `variant`: the model
FORMALIZE = ('first', 'built', 'last', 'never')     # when Association.formalize() is called; 'first' is what mc.Model does
ID_TYPES = ('unique_id', 'integer', 'string')


def typed_schema(schema, ty):
    """the schema with every unique_id attribute (identifying and referential) declared as `ty`"""
    return {'classes': [dict(c, attrs=[(n, ty if t == 'unique_id' else t) for n, t in c['attrs']]) for c in schema['classes']],
            'assocs': schema['assocs']}


def is_plain(case):
    """the case uses none of the `variant` dimensions"""
    return case.get('formalize', 'first') == 'first' and not case.get('ids') and not case.get('ghosts')


class VariantModel(mc.Model):
    """mc.Model whose associations are formalized on demand (`formalize_all`), whose instances get the explicit identifying
    values `ids['values'][creation index]` (type `ids['type']`), and which understands the op ['ghost', i] =
    xtuml.delete(inst, disconnect=False): out of the pool, still linked"""
    ids = None            # (what from_sql leaves: the loader has formalized, the identifiers are the text's)
    formalized = True

    def __init__(self, schema, formalize_first=True, ids=None):
        x = _x
        if ids:
            schema = typed_schema(schema, ids['type'])
        self.schema = schema
        self.ids = ids
        self.m = x.MetaModel(x.IntegerGenerator())
        self.metaclasses = [self.m.define_class(c['name'], list(c['attrs'])) for c in schema['classes']]
        self.assocs = []
        for a in schema['assocs']:
            self.assocs.append(self.m.define_association(
                a['rel'], schema['classes'][a['src']]['name'], list(a['skeys']), a['smany'], a['scond'], a['sphrase'],
                schema['classes'][a['tgt']]['name'], list(a['tkeys']), a['tmany'], a['tcond'], a['tphrase']))
        self.formalized = False
        self.insts = []
        self.index = {}
        if formalize_first:
            self.formalize_all()

    def formalize_all(self):
        if not self.formalized:
            for ass in self.assocs:
                ass.formalize()
            self.formalized = True

    def new(self, k, *args, **kwargs):
        if self.ids and self.schema['classes'][k]['id']:
            kwargs = dict(kwargs)
            kwargs[self.schema['classes'][k]['id']] = self.ids['values'][len(self.insts)]
        return mc.Model.new(self, k, *args, **kwargs)

    def apply(self, op):
        if op[0] == 'ghost':
            try:
                _x.delete(self.insts[op[1]], disconnect=False)
                return Sym('ok')
            except _x.DeleteException:
                return Sym('DeleteException')
        return mc.Model.apply(self, op)


def arrangements(n):
    """all sets of non-empty lists partitioning range(n), each as a sorted tuple of tuples"""
    seen = set()
    items = list(range(n))
    for perm in itertools.permutations(items):
        for cuts in itertools.product([0, 1], repeat=n - 1):
            chains, cur = [], [perm[0]]
            for c, x in zip(cuts, perm[1:]):
                if c:
                    chains.append(tuple(cur))
                    cur = [x]
                else:
                    cur.append(x)
            chains.append(tuple(cur))
            key = tuple(sorted(chains))
            if key not in seen:
                seen.add(key)
                yield key


def build_ops(n, chains, rings=(), edits=(), chains_b=(), fwd_b='leads'):
    """the recipe as operations; `rejected` = indexes of the relate attempts the recipe EXPECTS to be refused"""
    ops = [['new', 0] for _ in range(n)]
    for c in chains:
        for a, b in zip(c, c[1:]):
            ops.append(['relate', a, b, 'R2', 'precedes'])
    for r in rings:
        for a, b in zip(r, r[1:] + r[:1]):
            ops.append(['relate', a, b, 'R2', 'precedes'])
    for c in chains_b:         # the second reflexive association holds its own, unrelated chains
        for a, b in zip(c, c[1:]):
            ops.append(['relate', a, b, 'R7', fwd_b])
    for e in edits:            # the chains are EDITED after they were built: unrelate / relate / delete
        if e[0] == 'delete':
            ops.append(['delete', e[1]])
        elif e[0] == 'tryrelate':   # an attempt that must be refused and must leave no trace
            ops.append(['relate', e[1], e[2], 'R2', 'precedes'])
        else:
            ops.append([e[0], e[1], e[2], 'R2', 'precedes'])
    return ops


def case_ops(case):
    sch = case.get('schema', 'r1')
    fwd_b = PHRASES[sch].get('R7', ('leads',))[0]
    ops = build_ops(case['n'], case['chains'], case['rings'], case.get('edits', ()), case.get('chains_b', ()), fwd_b)
    k = len(ops) - len(case.get('edits', ()))
    if case.get('route') == 'sql':
        # the arrangement (everything before the edits) is loaded from SQL text: the same links in the order the loader makes them
        pre = mc.canonical_prefix(SCHEMAS[sch], ops[:k])
        if len(pre) != k:
            raise ValueError('the recipe holds links the text cannot express: %r' % (ops[:k],))
        ops = pre + ops[k:]
    rejected = set(k + i for i, e in enumerate(case.get('edits', ())) if e[0] == 'tryrelate')
    return ops, rejected


def structure_after(case):
    """(chains, rings, live members) after the edits, derived from the recipe alone"""
    nxt = {}
    for c in case['chains']:
        for a, b in zip(c, c[1:]):
            nxt[a] = b
    for r in case['rings']:
        for a, b in zip(r, r[1:] + r[:1]):
            nxt[a] = b
    live = set(range(case['n']))
    for e in case.get('edits', []):
        if e[0] == 'unrelate':
            if nxt.get(e[1]) == e[2]:
                del nxt[e[1]]
        elif e[0] == 'relate':
            nxt[e[1]] = e[2]
        elif e[0] == 'delete':
            live.discard(e[1])
            nxt.pop(e[1], None)
            for k in [k for k, v in nxt.items() if v == e[1]]:
                del nxt[k]
    prev = dict((v, k) for k, v in nxt.items())
    chains, rings, seen = [], [], set()
    for x in sorted(live):
        if x not in prev:
            c = [x]
            while c[-1] in nxt:
                c.append(nxt[c[-1]])
            chains.append(c)
            seen.update(c)
    for x in sorted(live):
        if x not in seen:
            r = [x]
            while nxt[r[-1]] != x:
                r.append(nxt[r[-1]])
            rings.append(r)
            seen.update(r)
    return chains, rings, live


def generate(ctx):
    """every case of _generate; a sample of them is run a second time with the arrangement (instances and chain / ring links,
    everything before the edits) LOADED FROM SQL TEXT by xtuml.ModelLoader instead of built through the API (family `loaded`:
    'route': 'sql', 'prefix': number of ops loaded); the edits and the sorts then run on the loader-built model"""
    lr = ctx.rng.fork('loaded')
    quota = {'chains': ctx.pick(250, 3000), 'ring': ctx.pick(80, 800), 'mix': ctx.pick(60, 600), 'edited': ctx.pick(250, 3000),
             'two': ctx.pick(120, 1500), 'big': ctx.pick(3, 30), 'empty': 1, 'variant': ctx.pick(60, 600)}
    for case in _generate(ctx):
        yield case
        if case['n'] == 0 or case['fam'] == 'long':
            continue
        if case.get('formalize', 'first') != 'first' or case.get('ids'):
            continue        # the loader formalizes every association and reads the identifiers from the text
        # small arrangements are many: take them with a probability that favours the larger ones
        p = {'chains': 0.03 if case['n'] >= 6 else 0.3, 'ring': 0.15, 'mix': 0.5, 'edited': 0.2, 'two': 0.25, 'big': 0.3, 'variant': 0.5}[case['fam']]
        if quota[case['fam']] > 0 and lr.random() < p:
            quota[case['fam']] -= 1
            c = dict(case)
            c['via'] = case['fam']
            c['fam'] = 'loaded'
            c['route'] = 'sql'
            c['prefix'] = len(case_ops(case)[0]) - len(case.get('edits', ()))
            yield c


def _generate(ctx):
    nmax = ctx.pick(6, 7)
    rng = ctx.rng.fork('c16')
    yield {'n': 0, 'chains': [], 'rings': [], 'sorts': [[[], 'R2', 'precedes'], [[], 'R2', 'succeeds']], 'fam': 'empty'}
    for n in range(1, nmax + 1):
        for arr in arrangements(n):
            chains = [list(c) for c in arr]
            members = list(range(n))
            perm = list(members)
            rng.shuffle(perm)
            sorts = []
            for order in (members, perm):
                for ph in ('precedes', 'succeeds'):
                    sorts.append([list(order), 'R2', ph])
            if n <= 4:
                sorts.append([list(members), 'R2', ''])          # unknown phrase
                sorts.append([list(members), 'R9', 'precedes'])    # unknown association
                for k in range(1, n):                              # arbitrary subsets (termination)
                    sub = rng.sample(members, k)
                    sorts.append([sub, 'R2', rng.choice(['precedes', 'succeeds'])])
            yield {'n': n, 'chains': chains, 'rings': [], 'sorts': sorts, 'fam': 'chains'}
    for n in range(1, nmax + 1):
        for rest in itertools.permutations(range(1, n)):
            ring = [0] + list(rest)
            sorts = []
            orders = [list(range(n))]
            p = list(range(n))
            rng.shuffle(p)
            orders.append(p)
            for order in orders:
                for ph in ('precedes', 'succeeds'):
                    sorts.append([list(order), 'R2', ph])
            yield {'n': n, 'chains': [], 'rings': [ring], 'sorts': sorts, 'fam': 'ring'}
    # mixtures of a ring and chains, and two rings (termination, duplicate-freedom)
    for i in range(ctx.pick(150, 1500)):
        r = rng.fork('mix', i)
        n = r.randint(3, 9)
        members = list(range(n))
        r.shuffle(members)
        k = r.randint(1, n - 1)
        ring, rest = members[:k], members[k:]
        chains, cur = [], []
        for x in rest:
            cur.append(x)
            if r.random() < 0.4:
                chains.append(cur)
                cur = []
        if cur:
            chains.append(cur)
        order = list(range(n))
        r.shuffle(order)
        sub = r.sample(order, r.randint(1, n))
        yield {'n': n, 'chains': chains, 'rings': [ring], 'fam': 'mix',
               'sorts': [[order, 'R2', 'precedes'], [order, 'R2', 'succeeds'], [sub, 'R2', r.choice(['precedes', 'succeeds'])]]}
    # chains and rings EDITED before sorting: unrelate in the middle, move a member, delete a member, open a ring
    for i in range(ctx.pick(1500, 20000)):
        r = rng.fork('edit', i)
        n = r.randint(2, 7)
        members = list(range(n))
        r.shuffle(members)
        chains, cur = [], []
        for x in members:
            cur.append(x)
            if r.random() < 0.35:
                chains.append(cur)
                cur = []
        if cur:
            chains.append(cur)
        rings = []
        if len(chains) > 1 and r.random() < 0.3:
            rings = [chains.pop()]
        case = {'n': n, 'chains': chains, 'rings': rings, 'edits': [], 'fam': 'edited'}
        for _ in range(r.randint(1, 3)):
            cs, rs, live = structure_after(case)
            links = [(a, b) for c in cs for a, b in zip(c, c[1:])] + [(a, b) for rg in rs for a, b in zip(rg, rg[1:] + rg[:1])]
            kind = r.choice(['unrelate', 'unrelate', 'delete', 'move', 'try', 'try'])
            if kind == 'try':
                # a relate that must be REFUSED (the referrer already has a partner, or the referred one has):
                # the rejected attempt must not leave half a link behind that a later sort would follow
                nxt = dict(links)
                prv = dict((b, a) for a, b in links)
                cands = [(a, b) for a in sorted(live) for b in sorted(live) if (a in nxt or b in prv) and nxt.get(a) != b]
                if cands:
                    a, b = r.choice(cands)
                    case['edits'].append(['tryrelate', a, b])
            elif kind == 'unrelate' and links:
                a, b = r.choice(links)
                case['edits'].append(['unrelate', a, b])
            elif kind == 'delete' and len(live) > 1:
                case['edits'].append(['delete', r.choice(sorted(live))])
            elif kind == 'move' and links:
                a, b = r.choice(links)
                case['edits'].append(['unrelate', a, b])
                cs2, rs2, live2 = structure_after(case)
                tails = [c[-1] for c in cs2 if c[-1] != b and b not in c]
                heads_of_b = [c for c in cs2 if c[0] == b]
                if tails and heads_of_b:
                    case['edits'].append(['relate', r.choice(tails), b])
        cs, rs, live = structure_after(case)
        order = sorted(live)
        r.shuffle(order)
        case['sorts'] = [[sorted(live), 'R2', 'precedes'], [sorted(live), 'R2', 'succeeds'],
                         [order, 'R2', 'precedes'], [order, 'R2', 'succeeds']]
        yield case
    # a class with TWO reflexive associations: each sort follows its own association only
    for i in range(ctx.pick(600, 8000)):
        r = rng.fork('two', i)
        sch = r.choice(['r2', 'r2s'])
        n = r.randint(2, 6)

        def arrangement():
            members = list(range(n))
            r.shuffle(members)
            chains, cur = [], []
            for x in members:
                cur.append(x)
                if r.random() < 0.3:
                    chains.append(cur)
                    cur = []
            if cur:
                chains.append(cur)
            return chains
        order = list(range(n))
        r.shuffle(order)
        sorts = []
        for rel in ('R2', 'R7'):
            for ph in PHRASES[sch][rel]:
                sorts.append([list(range(n)), rel, ph])
                sorts.append([list(order), rel, ph])
        yield {'n': n, 'chains': arrangement(), 'rings': [], 'chains_b': arrangement(), 'schema': sch, 'fam': 'two', 'sorts': sorts}
    # what the statement is silent about, VARIED: when the association is formalized (if at all), type and values of the
    # identifying attribute (incl. the type's null value), members deleted with disconnect=False after the set was selected
    for i in range(ctx.pick(1000, 12000)):
        r = rng.fork('variant', i)
        n = r.randint(1, 7)
        members = list(range(n))
        r.shuffle(members)
        chains, rings, cur = [], [], []
        if r.random() < 0.2:
            rings = [members]
        else:
            for x in members:
                cur.append(x)
                if r.random() < 0.3:
                    chains.append(cur)
                    cur = []
            if cur:
                chains.append(cur)
        case = {'n': n, 'chains': chains, 'rings': rings, 'edits': [], 'fam': 'variant'}
        if not rings and r.random() < 0.3:
            links = [(a, b) for c in chains for a, b in zip(c, c[1:])]
            if links and r.random() < 0.6:
                case['edits'].append(['unrelate'] + list(r.choice(links)))
            elif n > 1:
                case['edits'].append(['delete', r.choice(members)])
        cs, rs, live = structure_after(case)
        dims = [d for d in ('formalize', 'ids', 'ghosts') if r.random() < 0.5] or [r.choice(['formalize', 'ids', 'ghosts'])]
        if 'formalize' in dims:
            case['formalize'] = r.choice(FORMALIZE[1:])
        if 'ids' in dims:
            ty = r.choice(ID_TYPES)
            vals = r.sample(['a', 'b', 'c', 'd', 'e', 'f', 'g', 'A'] if ty == 'string' else list(range(1, 12)), n)   # distinct
            if r.random() < 0.6:                              # one instance carries the type's null value ('' / 0)
                vals[r.randrange(n)] = '' if ty == 'string' else 0
            case['ids'] = {'type': ty, 'values': vals}
        if 'ghosts' in dims:
            case['ghosts'] = sorted(r.sample(sorted(live), r.randint(1, min(2, len(live)))))
        order = sorted(live)
        r.shuffle(order)
        case['sorts'] = [[sorted(live), 'R2', 'precedes'], [sorted(live), 'R2', 'succeeds'],
                         [order, 'R2', 'precedes'], [order, 'R2', 'succeeds']]
        if len(live) > 1:
            case['sorts'].append([r.sample(order, r.randint(1, len(live) - 1)), 'R2', r.choice(['precedes', 'succeeds'])])
        yield case
    # LONG chains and rings (beyond CPython's default recursion depth): the walk must not be recursive in the chain length
    for n, ringed in ((1500, False), (1500, True)) + (((4000, False), (3000, True)) if not ctx.quick() else ()):
        members = list(range(n))
        order = list(members)
        rng.fork('long', n).shuffle(order)
        yield {'n': n, 'chains': [] if ringed else [members], 'rings': [members] if ringed else [], 'fam': 'long',
               'sorts': [[order, 'R2', 'precedes'], [order, 'R2', 'succeeds']]}
    for i in range(ctx.pick(12, 150)):
        r = rng.fork('big', i)
        n = r.randint(50, ctx.pick(200, 500))
        members = list(range(n))
        r.shuffle(members)
        chains, cur = [], []
        for x in members:
            cur.append(x)
            if r.random() < 0.15:
                chains.append(cur)
                cur = []
        if cur:
            chains.append(cur)
        order = list(range(n))
        r.shuffle(order)
        yield {'n': n, 'chains': chains, 'rings': [], 'fam': 'big',
               'sorts': [[order, 'R2', 'precedes'], [order, 'R2', 'succeeds']]}


def expected(case, order, phrase, rel='R2'):
    """the statement, evaluated from the recipe; None = the statement does not determine the result"""
    chains, rings, live = structure_after(case)
    fwd = PHRASES[case.get('schema', 'r1')][rel][0]
    if rel == 'R7':
        used = set(x for c in case['chains_b'] for x in c)
        chains, rings = [list(c) for c in case['chains_b']] + [[x] for x in sorted(live) if x not in used], []
    phrase = 'precedes' if phrase == fwd else 'succeeds'
    if not order:
        return []
    whole = sorted(order) == sorted(live) and len(set(order)) == len(order)
    if not whole:
        return None
    if rings and chains:
        return None
    if rings:
        if len(rings) != 1:
            return None
        ring = rings[0]
        i = ring.index(order[0])
        around = ring[i:] + ring[:i]                      # following 'precedes' from the first member
        if phrase == 'precedes':
            # sorting across 'precedes' continues along 'succeeds'
            return [around[0]] + around[1:][::-1]
        return around
    # chains: x -precedes-> next.  Across 'precedes' the start is the member without 'precedes' partner (the last),
    # continuing along 'succeeds' (towards the first): the chain reversed.  Across 'succeeds': the chain itself.
    seqs = [c[::-1] for c in chains] if phrase == 'precedes' else [list(c) for c in chains]
    seqs.sort(key=lambda s: order.index(s[0]))
    return [x for s in seqs for x in s]


def run_impl(case):
    sch = case.get('schema', 'r1')
    ops, rejected = case_ops(case)
    k0 = (len(ops) - len(case.get('edits', ()))) if case.get('route') == 'sql' else 0
    formalize, ghosts = case.get('formalize', 'first'), list(case.get('ghosts', ()))
    if is_plain(case):
        model = mc.Model.from_sql(SCHEMAS[sch], ops[:k0]) if k0 else mc.Model(SCHEMAS[sch])
    elif k0:
        # the loader formalizes and writes its own identifiers: only the ghosts vary on this route
        model = VariantModel.from_sql(SCHEMAS[sch], ops[:k0])
    else:
        model = VariantModel(SCHEMAS[sch], formalize == 'first', case.get('ids'))
    built = len(ops) - len(case.get('edits', ()))
    obs, fails = [], []
    for i, op in enumerate(ops):
        if i < k0:
            continue
        if i == built and formalize == 'built' and not k0:
            model.formalize_all()
        out = model.apply(op)
        if i in rejected:
            if str(out) == 'ok':
                fails.append({'sig': 'recipe-relate-accepted', 'what': 'the relate %s on a conditional 1:1 association was accepted '
                              'although a partner exists (recipe %s)' % (op, ops[:i])})
        elif str(out) != 'ok':
            # every op of the recipe is legal on the structure built so far: a refusal is a finding, not a harness error
            fails.append({'sig': 'recipe-op-rejected', 'what': 'the legal operation %s was refused with %s after %s' % (op, out, ops[:i])})
    if formalize in ('built', 'last') and not k0:
        model.formalize_all()
    # (an association formalized late or never leaves the values new() stored under the attribute's name: not this property's concern)
    for (i, key, v) in (model.ref_copies() if formalize == 'first' or k0 else ()):
        fails.append({'sig': 'referential-copy-in-dict', 'what': 'instance %d keeps %r = %r in its own dictionary although the '
                      'attribute is referential (route %s)' % (i, key, v, case.get('route', 'api'))})
    sets = {}
    if ghosts:
        # the sets are selected first; then some of their members are removed from the instance pool WITHOUT being disconnected:
        # they are still members of the sets and of their chains
        for (order, rel, ph) in case['sorts']:
            if tuple(order) not in sets:
                sets[tuple(order)] = _x.QuerySet([model.insts[i] for i in order])
        for g in ghosts:
            out = model.apply(['ghost', g])
            if str(out) != 'ok':
                fails.append({'sig': 'recipe-op-rejected', 'what': 'delete(instance %d, disconnect=False) was refused with %s after %s'
                              % (g, out, ops)})
    for (order, rel, ph) in case['sorts']:
        # the SAME QuerySet object is handed to every sort of the case that uses this member order: sorting must not
        # consume or reorder the caller's set
        qs = sets.get(tuple(order))
        if qs is None:
            qs = sets[tuple(order)] = _x.QuerySet([model.insts[i] for i in order])
        elif [model.idx(i) for i in qs] != list(order):
            fails.append({'sig': 'argument-set-changed', 'what': 'an earlier sort_reflexive call changed its argument set from %s to %s'
                          % (list(order), [model.idx(i) for i in qs])})
            qs = sets[tuple(order)] = _x.QuerySet([model.insts[i] for i in order])
        try:
            res = [model.idx(i) for i in _x.sort_reflexive(qs, rel, ph)]
        except _x.UnknownLinkException:
            res = Sym('UnknownLinkException')
        obs.append(res)
        if rel not in PHRASES[sch] or ph not in PHRASES[sch][rel]:
            if order and res != Sym('UnknownLinkException'):
                fails.append({'sig': 'unknown-phrase-accepted', 'what': 'sort_reflexive(%s, %s, %r) returned %r' % (order, rel, ph, res)})
            continue
        if res == Sym('UnknownLinkException'):
            fails.append({'sig': 'known-phrase-rejected', 'what': 'sort_reflexive(%s, %s, %r) raised UnknownLinkException' % (order, rel, ph)})
            continue
        want = expected(case, order, ph, rel)
        if want is not None and res != want:
            fails.append({'sig': 'order-' + case['fam'], 'what': 'chains %s rings %s: sort_reflexive(set in order %s, %s, %r) returned %s, '
                          'the succession order is %s%s' % (case['chains'], case['rings'], order, rel, ph, res, want, variant_text(case))})
        if len(set(res)) != len(res) or not set(res) <= set(order):
            fails.append({'sig': 'not-a-subset', 'what': 'sort_reflexive(%s, %r) returned %s (duplicates or non-members); chains %s rings %s'
                          % (order, ph, res, case['chains'], case['rings']) + variant_text(case)})
    # a non-QuerySet is rejected with the metamodel exception
    try:
        _x.sort_reflexive([model.insts[i] for i in sorted(structure_after(case)[2])], 'R2', 'precedes')
        fails.append({'sig': 'list-accepted', 'what': 'sort_reflexive accepted a plain list'})
    except _x.MetaException:
        pass
    nontrivial = any(len(c) >= 2 for c in case['chains']) or bool(case['rings'])
    if rejected:
        stats_extra = {'rejected_relates': len(rejected)}
    else:
        stats_extra = {}
    if not is_plain(case):
        stats_extra['formalize_' + formalize] = 1
        if case.get('ids'):
            stats_extra['ids_' + case['ids']['type']] = 1
            stats_extra['ids_with_null_value'] = 1 if any(v in (0, '') for v in case['ids']['values']) else 0
        if ghosts:
            stats_extra['ghost_members'] = len(ghosts)
    return {'obs': obs, 'd_fail': fails[:3], 'nontrivial': nontrivial,
            'key': dumps([str(case['chains']), str(case['rings']), str(case['sorts']), case.get('route', 'api')]
                         + ([] if is_plain(case) else [variant_text(case)])),
            'stats': dict({'fam_' + case['fam']: 1, 'sorts': len(case['sorts']), 'route_sql': 1 if k0 else 0}, **stats_extra)}


def variant_text(case):
    if is_plain(case):
        return ''
    out = []
    if case.get('formalize', 'first') != 'first':
        out.append('association formalized: %s' % case['formalize'])
    if case.get('ids'):
        out.append('identifiers (%s) %r' % (case['ids']['type'], case['ids']['values']))
    if case.get('ghosts'):
        out.append('members %s deleted with disconnect=False after the sets were selected' % list(case['ghosts']))
    return ' [' + '; '.join(out) + ']'


def model_line(case):
    # when formalize() is called and which identifying values the instances carry has no counterpart in the model's link
    # state (sortReflexiveSt reads the links alone, as the code does); a ghost is `(ghost i)`: out of the pool, links kept
    ops, _ = case_ops(case)
    return dumps([Sym('sortrefl'), mc.schema_sexp(SCHEMAS[case.get('schema', 'r1')]),
                  [Sym('ops')] + [mc.op_sexp(o) for o in ops] + [[Sym('ghost'), g] for g in case.get('ghosts', ())],
                  [Sym('sorts')] + [[[Sym('set')] + list(o), r, p] for (o, r, p) in case['sorts']]])


def model_obs(case, ans):
    return ans


# ---------------------------------------------------------------------------------------------------------- minimisation
def _recipe_ok(case):
    """every edit of the recipe is what its kind says on the structure built so far (legal, or a relate that must be refused)"""
    nxt = {}
    for c in case['chains']:
        for a, b in zip(c, c[1:]):
            nxt[a] = b
    for rg in case['rings']:
        for a, b in zip(rg, rg[1:] + rg[:1]):
            nxt[a] = b
    if len(set(nxt.values())) != len(nxt):
        return False
    live = set(range(case['n']))
    for e in case.get('edits', ()):
        prv = dict((b, a) for a, b in nxt.items())
        if e[0] == 'delete':
            if e[1] not in live:
                return False
            live.discard(e[1])
            nxt.pop(e[1], None)
            if e[1] in prv:
                del nxt[prv[e[1]]]
            continue
        a, b = e[1], e[2]
        if a not in live or b not in live:
            return False
        if e[0] == 'unrelate':
            if nxt.get(a) != b:
                return False
            del nxt[a]
        elif e[0] == 'relate':
            if a in nxt or b in prv:
                return False
            nxt[a] = b
        elif e[0] == 'tryrelate':
            if not (a in nxt or b in prv) or nxt.get(a) == b:
                return False
    members = set(x for c in case['chains'] for x in c) | set(x for rg in case['rings'] for x in rg)
    return (members == set(range(case['n'])) and all(set(o) <= live for (o, _, _) in case['sorts'])
            and set(case.get('ghosts', ())) <= live)


def _without(case, x):
    """the case without instance x (the later ones renumbered); None when an edit or the second association speaks about x"""
    if any(x in e[1:] for e in case.get('edits', ())) or case['n'] <= 1:
        return None
    ren = lambda i: i - 1 if i > x else i
    strip = lambda seqs: [s for s in ([ren(i) for i in c if i != x] for c in seqs) if s]
    c = dict(case)
    c['n'] = case['n'] - 1
    c['chains'], c['rings'] = strip(case['chains']), strip(case['rings'])
    if 'chains_b' in case:
        c['chains_b'] = strip(case['chains_b'])
    c['edits'] = [[e[0]] + [ren(i) for i in e[1:]] for e in case.get('edits', ())]
    c['sorts'] = [[[ren(i) for i in o if i != x], rel, ph] for (o, rel, ph) in case['sorts']]
    if case.get('ghosts'):
        c['ghosts'] = [ren(i) for i in case['ghosts'] if i != x]
    if case.get('ids'):
        c['ids'] = dict(case['ids'], values=[v for i, v in enumerate(case['ids']['values']) if i != x])
    return c


def shrink_candidates(case):
    """one sort; a default for each varied dimension; fewer edits; fewer instances; a chain cut in two"""
    def ok(c):
        try:
            if not _recipe_ok(c):
                return False
            if c.get('route') == 'sql':
                case_ops(c)
            return True
        except (ValueError, KeyError, IndexError):
            return False
    out = []
    if len(case['sorts']) > 1:
        out += [dict(case, sorts=[s]) for s in case['sorts']]
    if case.get('route') == 'sql':
        out.append(dict((k, v) for k, v in case.items() if k not in ('route', 'prefix')))
    if case.get('formalize', 'first') != 'first':
        out.append(dict(case, formalize='first'))
        if case['formalize'] != 'never':
            out.append(dict(case, formalize='never'))
    if case.get('ids'):
        out.append(dict((k, v) for k, v in case.items() if k != 'ids'))
    for g in case.get('ghosts', ()):
        out.append(dict(case, ghosts=[h for h in case['ghosts'] if h != g]))
    for i in range(len(case.get('edits', ())) - 1, -1, -1):
        out.append(dict(case, edits=case['edits'][:i] + case['edits'][i + 1:]))
    for x in range(case['n'] - 1, -1, -1)[:40]:
        c = _without(case, x)
        if c is not None:
            out.append(c)
    for i, ch in enumerate(case['chains']):
        if len(ch) > 2 and case['n'] <= 12:
            out.append(dict(case, chains=case['chains'][:i] + [ch[:len(ch) // 2], ch[len(ch) // 2:]] + case['chains'][i + 1:]))
    for c in out:
        if ok(c):
            if c.get('route') == 'sql':
                c = dict(c, prefix=len(case_ops(c)[0]) - len(c.get('edits', ())))
            yield c
