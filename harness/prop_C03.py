"""C03 — Loading links exactly the key-matching pairs, independent of input order.

A case is a generated population (list of statements over a generated schema, keys drawn from a tiny value
pool so that duplicate, dangling and null keys are the normal case) plus a list of *variants*: a permutation
of the statements, a partition of the permuted list into parts, and a route by which the parts reach a loader
(`input` calls, files given to `xtuml.load_metamodel`, files in a directory tree / members of a zip archive /
a single file read by `bridgepoint.ooaofooa.ModelLoader.filename_input`; routes `bp-pkgdir` / `bp-pkgzip`: a BridgePoint
project of nested packages <name>/<name>.xtuml read by a loader with or without the predefined globals - the variant
carries `names` and `globals`).  Optionally the same rows are created
through `MetaModel.new` (referred rows first) and by cloning the loaded instances into an empty metamodel.
A case may carry `runit` = k: its REAL payloads then count multiples of 2**-k instead of 10**-6 (family `real-fine`: keys
that are neighbours on a fine grid; the Lean model treats a REAL payload as an opaque integer, so K covers them as well).

A case with `donly` (family `reflexive`: an association from a class to itself whose two ends carry the same phrase)
has no model counterpart (model_line returns None); D is evaluated on it as on every other case.

  D  (property predicate; oracle = a nested loop over the rows' raw values *as generated*):
       linked(x, y) over association a  <=>  every referential value of x is non-null (not unset / id 0 / '')
       and equals y's corresponding identifying value — checked on both link directions and through the public
       navigation API; every variant yields the same metamodel as the first one (classes, identifiers,
       associations as a multiset, multiset of rows per class, link relation on rows identified by their
       INSERT statement) — instance and partner ORDER is not demanded by D (the property speaks of the link
       relation); it is the model's claim (build_perm_ordered) and compared by K; the API and clone routes yield
       the same links (referred rows first).  Where the real code contradicts that, the route must equal EXACTLY what
       an independent simulation of the three OPEN known findings predicts (`_ApiSim`: api-phrased-direction,
       api-dangling-chained-key, api-cardinality-rejected, each proved about the model in Props/C03.lean); the difference
       is then reported under the signatures of the findings that caused it; any other difference fails.
  K  (correspondence): the ordered dump of every variant (classes in metaclass order with their stored rows,
       associations in definition order with the ordered partner lists in both directions, or `error`) equals
       the answer of the Lean model `Pyx.Load.build` (hash join with the index cache, five phases); API and
       clone routes equal `Pyx.Load.Api.apiBuild` / `cloneBuild` including their exception outcomes.
"""
import hashlib
import itertools
import os
import shutil
import tempfile
import warnings
import zipfile
from fractions import Fraction

import loadgen as G
from sexp import Sym, dumps

PROP = 'C03'
RULE = ('random schemas (1-4 classes, 0-3 associations with 0-3 key attributes of every core type, shared referential '
        'attributes, reflexive and phrased associations, several associations to one referred class over the same '
        'identifying attributes listed in different orders, short positional rows that leave trailing referential attributes unset, type names spelled in any letter case attribute by '
        'attribute, identifiers, classes inferred from INSERTs) populated from '
        'a pool of <= 4 values per type (every fifth population from a pool of values with colliding hash(): -1 / -2, 1 / 2**61; '
        'family real-fine: mostly REAL keys whose values are neighbours on a grid of 2**-30 - a base value of magnitude <= 2**20 + 1, the values '
        'one step of 2**-30 / 2**-24 / 2**-20 / 2**-19 / 0.25 above and below it, one unrelated value - written with their exact '
        'decimal expansion: values that differ only beyond the sixth decimal, the seventh significant digit or single precision are '
        'different keys on every route); per population: ALL permutations of the statements when there are <= 7 '
        '(quick: <= 6, and <= 7 on a sample), 50 random permutations otherwise; random partitions into 1-4 input '
        'calls / files / directory chain / wide directory (directory and file names with a leading dot, blanks and the glob characters [ ] * ?; sometimes two trees with equally named files) / members of one zip archive (in half of them consecutive members carry the SAME name) or of two archives with equally named members / one file through the bridgepoint loader, each part '
        'ending with a newline, right after its last `;`, with a `-- comment` that no newline ends, or with a bare `--`; '
        'family bp-pkg (a further variant of small, big and reflexive populations): the parts reach a bridgepoint loader as a BridgePoint project - part i is the file '
        '<name i>/<name i>.xtuml of a package nested in the package of part i - 1, in a directory tree or as the members of a zip archive, the package names drawn '
        'from names a model may have, among them the names BridgePoint and the library use for resources of their own (Globals, globals, System, Datatypes, types, '
        'ooaofooa, schema, sql, models, External Entities, Functions) - and the loader is one WITH the predefined globals (load_globals=True, the default; 60 %) or '
        'without them: the generated classes, their rows and links must be those of one input() call; '
        'family reflexive (D only, no model counterpart: Pyx.Load.inDomain demands distinct link keys): a plain population plus one or two associations from a class to ITSELF '
        'whose two ends carry the SAME phrase (none in 75 %), 1-2 key attributes, the referential values of a row being the identifying values of another (mostly earlier) row, '
        'a pool value, a null, or unset - loaded in 3 permutations / partitions / files / a bp-pkg project, created through new (referred rows first) and by cloning when the '
        'expected links are acyclic; the link relation is checked in both directions, navigation across such an association is not (its two directions have one name); '
        'API and clone construction; rejected inputs (duplicate class, a class declaring an attribute name twice, unknown class or key in an association or '
        'identifier, key lists of different length, named INSERT with unequal lengths). Non-trivial = some association has both a linked and an '
        'unlinked (null, dangling) candidate pair; distinct = distinct statement text')
EXHAUSTIVE = {'quick': False, 'thorough': False}
ASSUMPTIONS = [
    'kinds and attribute NAMES are spelled with one letter case throughout (case folding of names is property C10); '
    'type names are spelled in any letter case',
    'no attribute is named __x__ (define_class / define_association reject names that python reserves, property C12)',
    'corresponding referential / identifying attributes have the same declared type (Python compares 1 == 1.0 == True)',
    'positional INSERTs carry a value for every declared attribute, or leave out only trailing REFERENTIAL attributes (these stay '
    'unset: an unset key refers to nothing); any other missing attribute would take a generator-drawn / type default (C19)',
    'REAL values are dyadic rationals with at most six fraction digits (float() and %f are exact on them), in the family '
    'real-fine multiples of 2**-30 below 2**21 written with all their (at most 30) fraction digits (float() is exact on them)',
    'a reflexive association whose two ends carry the same phrase is a schema of the property (the loader accepts it and the property speaks of every association); '
    'which of its two directions a navigation by (kind, number, phrase) takes is not demanded',
    'the generated kinds (KA..KE, KX, KY, KT, KX1, KX2) are not classes of the ooaofooa schema nor of its predefined globals (checked in setup)',
    'the order in which os.walk lists sibling files is the operating system\'s; the harness takes it from its own os.walk of the tree',
]
TRUSTED_EXTRA = ['harness/loadgen.py (generator, SQL text writer, nested-loop oracle)']
CHUNK = 60
CASE_TIMEOUT_S = 120
BUDGET_S = {'quick': 70, 'thorough': 700}
SEARCH_S = {'quick': 60, 'thorough': 300}

_x = None
_bp = None
_tmp = None
_DOC = None
# observations are compared as digests of their canonical text (results stay small: a case has up to 5040
# variants); PYXVERIF_FULL_OBS=1 keeps the full dumps, e.g. when replaying a correspondence disagreement
FULL_OBS = bool(os.environ.get('PYXVERIF_FULL_OBS'))


def _digest(x):
    if FULL_OBS or isinstance(x, Sym):
        return x
    return hashlib.sha1(dumps(x).encode('utf-8')).hexdigest()[:20]


def setup(ctx):
    global _x, _bp, _tmp, _DOC
    import xtuml
    import bridgepoint.ooaofooa as bp
    _x, _bp = xtuml, bp
    _DOC = (xtuml.MetaException, xtuml.ParsingException)
    _tmp = str(ctx.ws.tmp('c03'))
    l = xtuml.ModelLoader()       # writes the PLY tables once, before the pool forks
    l.input('CREATE TABLE W (a INTEGER);')
    l.build_metamodel()
    m = bp.ModelLoader(load_globals=False).build_metamodel()
    clash = [k for k in G.KINDS + ['KX', 'KY', 'KT', 'KX1', 'KX2'] if k in m.metaclasses]
    if clash:
        raise RuntimeError('generated kinds clash with the ooaofooa schema: %s' % clash)


# ----------------------------------------------------------------------------- generation

def _partition(rng, n, kmax=4):
    k = rng.randint(1, kmax)
    cuts = sorted(rng.randint(0, n) for _ in range(k - 1))
    sizes = [b - a for a, b in zip([0] + cuts, cuts + [n])]
    return sizes


def _variants(rng, n, n_all, n_rand, routes):
    out = [{'order': list(range(n)), 'parts': [n], 'route': 'input'}]
    if n <= n_all:
        orders = [list(p) for p in itertools.permutations(range(n))][1:]
    else:
        orders = []
        for _ in range(n_rand):
            o = list(range(n))
            rng.shuffle(o)
            orders.append(o)
    for o in orders:
        # the bulk of the permutations reuses the parsed statement objects (`loader.statements`, the state the
        # property names); one in eight goes through the SQL text again, possibly split over several input calls
        if rng.random() < 0.125:
            out.append({'order': o, 'parts': [n] if rng.random() < 0.5 else _partition(rng, n), 'route': 'input'})
        else:
            out.append({'order': o, 'parts': [n], 'route': 'stmts'})
    for r in routes:
        o = list(range(n))
        if rng.random() < 0.7:
            rng.shuffle(o)
        # a second kind of permutation: keeps the relative order of the INSERTs of every class
        out.append({'order': o, 'parts': _partition(rng, n), 'route': r})
    return out


def _keep_insert_order(rng, stmts):
    """a permutation that moves schema statements and interleaves classes but keeps each class's INSERT order"""
    n = len(stmts)
    o = list(range(n))
    rng.shuffle(o)
    by_kind = {}
    for i in range(n):
        if stmts[i]['t'] == 'insert':
            by_kind.setdefault(stmts[i]['kind'], []).append(i)
    slots = {}
    for pos, i in enumerate(o):
        if stmts[i]['t'] == 'insert':
            slots.setdefault(stmts[i]['kind'], []).append(pos)
    for k, ids in by_kind.items():
        for pos, i in zip(slots[k], ids):
            o[pos] = i
    return o


def _error_case(rng):
    stmts = None
    while not stmts or not any(s['t'] == 'cls' for s in stmts):
        stmts = G.gen_population(rng, max_rows=2, max_stmts=7)
    kind = rng.choice(['dup-class', 'dup-attr', 'rop-class', 'rop-key', 'rop-len', 'uniq-class', 'named-len'])
    classes = [s for s in stmts if s['t'] == 'cls']
    c = rng.choice(classes)
    if kind == 'dup-class':
        stmts.append({'t': 'cls', 'kind': c['kind'], 'attrs': [['z', 'INTEGER']]})
    elif kind == 'dup-attr':
        # a further class declaring the same attribute name twice (define_class raises MetaModelException)
        stmts.append({'t': 'cls', 'kind': 'KY', 'attrs': [['z', 'INTEGER'], ['y', 'STRING'], ['z', rng.choice(['INTEGER', 'STRING'])]]})
    elif kind == 'rop-class':
        a = {'t': 'assoc', 'rel': 'R9', 'sk': c['kind'], 'scard': 'MC', 'skeys': [c['attrs'][0][0]], 'sph': '',
             'tk': 'KZ', 'tcard': '1C', 'tkeys': ['a0'], 'tph': ''}
        if rng.random() < 0.5:
            a['sk'], a['tk'] = a['tk'], a['sk']
        if rng.random() < 0.5:
            # an undeclared class that only exists through its INSERTs is unknown in phase 3 as well
            stmts.append({'t': 'insert', 'kind': 'KZ', 'names': None, 'vals': [['i', 1]], 'lex': ['1']})
        stmts.append(a)
    elif kind == 'rop-key':
        stmts.append({'t': 'assoc', 'rel': 'R9', 'sk': c['kind'], 'scard': 'MC', 'skeys': [c['attrs'][0][0]], 'sph': 'p',
                      'tk': c['kind'], 'tcard': '1C', 'tkeys': ['nokey'], 'tph': 'q'})
    elif kind == 'rop-len':
        # key lists of different length
        stmts.append({'t': 'assoc', 'rel': 'R9', 'sk': c['kind'], 'scard': 'MC', 'skeys': [c['attrs'][0][0]], 'sph': 'p',
                      'tk': c['kind'], 'tcard': '1C', 'tkeys': [c['attrs'][0][0], c['attrs'][-1][0]], 'tph': 'q'})
    elif kind == 'uniq-class':
        stmts.append({'t': 'uniq', 'kind': 'KZ', 'name': 'I1', 'attrs': ['a0']})
    else:
        stmts.append({'t': 'insert', 'kind': c['kind'], 'names': [c['attrs'][0][0]], 'vals': [['i', 1], ['i', 2]],
                      'lex': ['1', '2']})
    rng.shuffle(stmts)
    return stmts, kind


_RUNIT = 30        # the `real-fine` family counts REAL values in multiples of 2**-30 (about 9.3e-10)


def _real_fine_population(rng):
    """a population whose keys are mostly of type REAL and whose REAL values come from a pool of NEIGHBOURS on a fine
    dyadic grid: a base value, the values one step above and below it, and an unrelated value; the step is 2**-30,
    2**-24 (lost in single precision), 2**-20 (just below the sixth decimal), 2**-19 (just above it) or 0.25 (lost in
    the seventh significant digit of the large bases).  Different values, hence no link; equal values link - whatever
    number of digits some printed form of them keeps.  Every REAL lexeme is the exact decimal expansion of its value."""
    u = 2 ** _RUNIT
    bases = [0, u // 2, 3 * u // 2, -u // 4, u, 5 * u // 2, -3 * u, 2 ** 20 * u + u // 2, 123456 * u + u // 8]
    base = rng.choice(bases)
    eps = rng.choice([1, 1, 2 ** 6, 2 ** 10, 2 ** 11, u // 4])
    other = rng.choice([b for b in bases[:4] if b != base])
    pool = G._ByType(dict(G.POOL))
    pool['REAL'] = [base, base + eps, base - eps, other]
    stmts = G.gen_population(rng, max_rows=rng.choice([2, 3, 4]), phrase_mode='plain' if rng.random() < 0.75 else 'mixed',
                             inferred_p=0.0, allow_empty_keys=False,
                             types=['REAL', 'REAL', 'REAL', 'INTEGER', 'STRING', 'UNIQUE_ID'], pool=pool)
    for s in stmts:
        if s['t'] == 'insert':
            for k, tv in enumerate(s['vals']):
                if tv[0] == 'r':
                    s['lex'][k] = _fine_lexeme(tv[1], _RUNIT, rng.choice([0, 0, 1, 2]))
    return stmts


_FAMILIES = ['small', 'seven', 'reflexive', 'real-fine', 'big', 'api', 'shared', 'err']

# BridgePoint stores a package P in the file P/P.xtuml and its sub-packages below P/: names of packages a model may
# legitimately have, among them the names that BridgePoint / the library use for resources of their own
_PKG_NAMES = ['Globals', 'types', 'System', 'Globals', 'Datatypes', 'globals', 'External Entities', 'ooaofooa', 'schema',
              'Globals', 'Functions', 'sql', 'models']
_PKG_ROUTES = ['bp-pkgdir', 'bp-pkgzip']


def _pkg_variants(rng, stmts, k):
    """k variants that reach a bridgepoint loader as a BridgePoint project: part number i is the file of a package
    (<name i>/<name i>.xtuml) nested in the package of part i - 1, in a directory tree or as the members of a zip archive;
    the loader is one WITH the predefined globals (the default of the library) or without them"""
    n = len(stmts)
    out = []
    for _ in range(k):
        o = list(range(n))
        if rng.random() < 0.7:
            rng.shuffle(o)
        parts = _partition(rng, n)
        out.append({'order': o, 'parts': parts, 'route': rng.choice(_PKG_ROUTES),
                    'names': [rng.choice(_PKG_NAMES) for _ in parts], 'globals': rng.random() < 0.6})
    return out


def _add_reflexive(rng, stmts):
    """adds to a population (in place) an association from a class to ITSELF whose two ends carry the SAME phrase (mostly
    none at all): new referential attributes at the end of the class, which the rows of the class fill with the
    identifying values of another row (mostly an earlier one, so that 'referred rows first' is possible), a null, a value
    from the pool, or leave unset"""
    classes = [s_ for s_ in stmts if s_['t'] == 'cls']
    if not classes:
        return False
    c = rng.choice(classes)
    kind = c['kind']
    old = len(c['attrs'])
    refs = _referential(stmts, kind)
    plain = [a[0] for a in c['attrs'] if a[0] not in refs]
    cands = plain if (plain and rng.random() < 0.8) else [a[0] for a in c['attrs']]
    klen = min(len(cands), 1 if rng.random() < 0.7 else 2)
    tkeys = rng.sample(cands, klen)
    tys = dict((n_, t_) for n_, t_ in c['attrs'])
    rows = [s_ for s_ in stmts if s_['t'] == 'insert' and s_['kind'] == kind]
    before = [G.raw_row(stmts, r_) for r_ in rows]
    skeys = []
    for tkey in tkeys:
        name = 'a%d' % len(c['attrs'])
        c['attrs'].append([name, G.spell(rng, tys[tkey].upper())])
        skeys.append(name)
    for k, r_ in enumerate(rows):
        if r_['names'] is None and len(r_['vals']) > old:
            # a surplus value must not become the value of a new attribute
            r_['vals'], r_['lex'] = r_['vals'][:old], r_['lex'][:old]
        x = rng.random()
        if x < 0.6 and len(rows) > 1:
            j = rng.randrange(k) if (k and rng.random() < 0.8) else rng.choice([j_ for j_ in range(len(rows)) if j_ != k])
            vals = [before[j].get(tk_) for tk_ in tkeys]
        elif x < 0.8:
            vals = [[G.TAG[tys[tk_]], rng.choice(G.POOL[tys[tk_]])] for tk_ in tkeys]
        elif x < 0.9:
            vals = [[G.TAG[tys[tk_]], {'u': 0, 's': ''}.get(G.TAG[tys[tk_]], rng.choice(G.POOL[tys[tk_]]))] for tk_ in tkeys]
        else:
            vals = [None for _ in tkeys]
        if any(v_ is None for v_ in vals):
            continue                        # left out: the attribute stays unset
        vals = [list(v_) for v_ in vals]
        if r_['names'] is None:
            if len(r_['vals']) == old:
                r_['vals'] = r_['vals'] + vals
                r_['lex'] = r_['lex'] + [G.lexeme(v_, rng) for v_ in vals]
        else:
            r_['names'] = r_['names'] + skeys
            r_['vals'] = r_['vals'] + vals
            r_['lex'] = r_['lex'] + [G.lexeme(v_, rng) for v_ in vals]
    nrel = 1 + max([int(a['rel'][1:]) for a in stmts if a['t'] == 'assoc'] or [0])
    ph = '' if rng.random() < 0.75 else rng.choice(G.PHRASES)
    stmts.insert(rng.randint(0, len(stmts)),
                 {'t': 'assoc', 'rel': 'R%d' % nrel, 'sk': kind, 'scard': rng.choice(G.CARDS), 'skeys': skeys, 'sph': ph,
                  'tk': kind, 'tcard': rng.choice(G.CARDS), 'tkeys': tkeys, 'tph': ph})
    return True


def _reflexive_population(rng):
    stmts = None
    while not stmts or not any(s_['t'] == 'insert' and G.class_of(stmts, s_['kind']) for s_ in stmts):
        stmts = G.gen_population(rng, max_rows=rng.choice([2, 3, 4]), phrase_mode='plain', inferred_p=0.0,
                                 allow_empty_keys=False, n_classes=rng.choice([1, 2, 2, 3]), max_assocs=rng.choice([0, 1, 2]))
    _add_reflexive(rng, stmts)
    if rng.random() < 0.2:
        _add_reflexive(rng, stmts)
    return stmts


def generate(ctx):
    return _gen(ctx, _FAMILIES)


def search(ctx, broken):
    """the enlarged search (an obligation or the correspondence is broken, no failing input yet): the same families
    with their thorough sizes, INTERLEAVED - every chunk of 60 cases holds cases of every family, so that the search
    budget is not spent on the first family alone"""
    gens = [(_gen(ctx, fams), share) for fams, share in ((['small', 'seven'], 10), (['reflexive'], 10), (['real-fine'], 10), (['big'], 4),
                                                         (['api'], 20), (['shared'], 10), (['err'], 6))]
    while gens:
        alive = []
        for g, share in gens:
            took = 0
            for c in itertools.islice(g, share):
                took += 1
                yield c
            if took == share:
                alive.append((g, share))
        gens = alive


def _gen(ctx, fams):
    rng = ctx.rng.fork('gen')
    n_fine = ctx.pick(40, 400) * ('real-fine' in fams)
    n_small = ctx.pick(110, 900) * ('small' in fams)
    n_seven = ctx.pick(3, 40) * ('seven' in fams)
    n_big = ctx.pick(60, 600) * ('big' in fams)
    n_api = ctx.pick(260, 3000) * ('api' in fams)
    n_err = ctx.pick(40, 300) * ('err' in fams)
    n_shared = ctx.pick(60, 600) * ('shared' in fams)
    n_refl = ctx.pick(40, 400) * ('reflexive' in fams)
    all_routes = ['files', 'bp-file', 'bp-dir', 'bp-dirwide', 'bp-zip', 'bp-load', 'keep-order']
    i = 0
    # small populations: every permutation
    made = 0
    while made < n_small:
        i += 1
        r = rng.fork('small', i)
        cap = r.choice([3, 4, 5, 5, 6, 6])
        stmts = G.gen_population(r, max_rows=2, max_stmts=cap, n_classes=r.choice([1, 2, 2, 3]), max_assocs=2)
        if not stmts or len(stmts) < 2:
            continue
        made += 1
        routes = r.sample(all_routes, 2) if made % 3 == 0 else ['keep-order']
        yield {'fam': 'small', 'stmts': stmts, 'variants': _fix(r, stmts, _variants(r, len(stmts), 6, 0, routes))
               + (_pkg_variants(r.fork('pkg'), stmts, 1) if made % 2 == 1 else []), 'api': made % 2 == 0}
    made = 0
    while made < n_seven:
        i += 1
        r = rng.fork('seven', i)
        stmts = G.gen_population(r, max_rows=2, max_stmts=7, n_classes=2, max_assocs=2)
        if not stmts or len(stmts) != 7 or not any(s['t'] == 'assoc' for s in stmts):
            continue
        made += 1
        yield {'fam': 'seven', 'stmts': stmts, 'variants': _fix(r, stmts, _variants(r, 7, 7, 0, [])), 'api': False}
    # reflexive associations whose two ends carry the same phrase (D only: outside `Pyx.Load.inDomain`, which demands
    # distinct link keys): loader, permutations, files, API and clone
    for j in range(n_refl):
        r = rng.fork('reflexive', j)
        stmts = _reflexive_population(r)
        yield {'fam': 'reflexive', 'donly': True, 'stmts': stmts,
               'variants': _fix(r, stmts, _variants(r, len(stmts), 0, 3, ['keep-order', 'files']))
               + _pkg_variants(r.fork('pkg'), stmts, 1), 'api': True}
    # REAL keys that differ only beyond the precision of a printed / narrowed form (every route: loader, files, new,
    # clone, batch_relate)
    for j in range(n_fine):
        r = rng.fork('real-fine', j)
        stmts = _real_fine_population(r)
        if len(stmts) < 2:
            continue
        yield {'fam': 'real-fine', 'runit': _RUNIT, 'stmts': stmts,
               'variants': _fix(r, stmts, _variants(r, len(stmts), 0, 3, ['keep-order'] + r.sample(all_routes[:6], 1))),
               'api': True}
    # larger populations: 50 random permutations, all routes
    for j in range(n_big):
        r = rng.fork('big', j)
        stmts = G.gen_population(r, max_rows=ctx.pick(4, 6))
        if len(stmts) < 2:
            continue
        routes = list(all_routes) if j % 2 == 0 else r.sample(all_routes, 3)
        yield {'fam': 'big', 'stmts': stmts, 'variants': _fix(r, stmts, _variants(r, len(stmts), 7, 50, routes))
               + _pkg_variants(r.fork('pkg'), stmts, 1 + j % 2), 'api': True}
    # API / clone construction: 'plain' = the family on which D runs at full strength
    for j in range(n_api):
        r = rng.fork('api', j)
        mode = 'plain' if j % 3 != 2 else 'mixed'
        stmts = G.gen_population(r, max_rows=r.choice([2, 3, 4]), phrase_mode=mode, inferred_p=0.0,
                                 allow_empty_keys=False)
        if len(stmts) < 2:
            continue
        yield {'fam': 'api-' + mode, 'stmts': stmts,
               'variants': _fix(r, stmts, _variants(r, len(stmts), 0, 2, ['keep-order'])), 'api': True}
    # several associations reach one referred class over the same identifying attributes listed in different orders
    # (populate_connections shares one index per referred class and SET of key attribute names)
    for j in range(n_shared):
        r = rng.fork('shared', j)
        stmts = G.gen_shared_index_population(r)
        yield {'fam': 'shared-index', 'stmts': stmts,
               'variants': _fix(r, stmts, _variants(r, len(stmts), 0, 8, ['keep-order'] + r.sample(all_routes[:6], 1))),
               'api': j % 2 == 0}
    for j in range(n_err):
        r = rng.fork('err', j)
        stmts, kind = _error_case(r)
        yield {'fam': 'error', 'err': kind, 'stmts': stmts,
               'variants': _fix(r, stmts, _variants(r, len(stmts), 5, 6, ['files'])), 'api': False}


def _fix(rng, stmts, variants):
    for v in variants:
        if v['route'] == 'keep-order':
            v['order'] = _keep_insert_order(rng, stmts)
            v['route'] = 'input'
    return variants


# ----------------------------------------------------------------------------- running the implementation

def _parts(stmts, v):
    seq = [stmts[i] for i in v['order']]
    out, pos = [], 0
    for n in v['parts']:
        out.append(seq[pos:pos + n])
        pos += n
    return out


def _parsed(stmts, cache):
    """the loader's own statement objects, one per generated statement (parsed once per case)"""
    if 'objs' not in cache:
        l = _x.ModelLoader()
        objs = []
        for s in stmts:
            n = len(l.statements)
            l.input(G.stmt_text(s))
            assert len(l.statements) == n + 1
            objs.append(l.statements[n])
        cache['objs'] = objs
        cache['loader'] = _x.ModelLoader()
    return cache['objs'], cache['loader']


def _part_text(p, n, v):
    """the text of part number n of a variant.  How a part ENDS is varied (chosen from the variant, so a replay writes
    the same bytes): with a newline; right after the last `;`; with a `-- comment` that no newline terminates; with a
    bare `--`.  Every part is a text of its own (an input call, a file, a zip member): whatever ends one part must
    not reach into the next."""
    text = G.text_of(p) if p else ''
    style = (sum(v['order'][:3]) + 3 * n + len(v['parts'])) % 4
    if style == 1:
        return text[:-1] if text.endswith('\n') else text
    if style == 2:
        return text + '-- end of part %d' % n
    if style == 3:
        return text + '--'
    return text


_ROOT_NAMES = ['root', 'types[v2]', 'my model', 'a*b', 'what?', '.hidden', 'r]x[']
_SUB_NAMES = ['sub', '.shared', 'pk[1]', 'sub dir', 'x*', 'q?', '.git']


def _load(stmts, v, mine, cache=None):
    """-> (metamodel, order in which the loader saw the statements); may raise a documented exception"""
    route = v['route']
    if route == 'stmts':
        objs, l = _parsed(stmts, cache if cache is not None else {})
        del l.statements[:]
        l.statements.extend(objs[i] for i in v['order'])
        return l.build_metamodel(), v['order']
    parts = _parts(stmts, v)
    if route == 'input':
        l = _x.ModelLoader()
        for n, p in enumerate(parts):
            l.input(_part_text(p, n, v))
        return l.build_metamodel(), v['order']
    d = tempfile.mkdtemp(dir=_tmp)
    try:
        if route == 'files':
            names = []
            for n, p in enumerate(parts):
                fn = os.path.join(d, 'p%d.sql' % n)
                with open(fn, 'w') as f:
                    f.write(_part_text(p, n, v))
                names.append(fn)
            return _x.load_metamodel(names if len(names) > 1 else names[0]), v['order']
        if route == 'bp-load':
            # bridgepoint.ooaofooa.load_metamodel with a LIST of resources of all three sorts: a file, a directory, an archive
            paths = []
            for n, p in enumerate(parts):
                if n % 3 == 0:
                    fn = os.path.join(d, 'f%d.xtuml' % n)
                    with open(fn, 'w') as f:
                        f.write(_part_text(p, n, v))
                elif n % 3 == 1:
                    fn = os.path.join(d, 'dir %d' % n)
                    os.mkdir(fn)
                    with open(os.path.join(fn, 'p.xtuml'), 'w') as f:
                        f.write(_part_text(p, n, v))
                else:
                    fn = os.path.join(d, 'arch%d.zip' % n)
                    with zipfile.ZipFile(fn, 'w') as z:
                        z.writestr('models/p.xtuml', _part_text(p, n, v))
                paths.append(fn)
            return _bp.load_metamodel(paths if len(paths) > 1 else paths[0], load_globals=False), v['order']
        decoy = "INSERT INTO %s VALUES (1);\n" % (sorted(mine)[0] if mine else 'KA')   # wrong suffix: must not be read
        if route in _PKG_ROUTES:
            # a BridgePoint project: the package of part i is stored in <name i>/<name i>.xtuml below the package of part
            # i - 1 (a chain: a top-down walk lists a directory's files before its sub-directories, an archive lists its
            # members in the order they were written); names and the load_globals flag are part of the variant
            names = [str(x) for x in (v.get('names') or [])] or ['pkg']
            l = _bp.ModelLoader(load_globals=bool(v.get('globals')))
            rel = ['proj', 'models', 'proj']
            members = []
            for n, p in enumerate(parts):
                name = names[n % len(names)].replace('/', '_') or 'pkg'
                rel = rel + [name]
                members.append((rel + [name + '.xtuml'], _part_text(p, n, v)))
            if route == 'bp-pkgdir':
                os.makedirs(os.path.join(d, *rel))
                with open(os.path.join(d, 'proj', '.project'), 'w') as f:
                    f.write(decoy)
                for path_, text in members:
                    with open(os.path.join(d, *path_), 'w') as f:
                        f.write(text)
                l.filename_input(os.path.join(d, 'proj'))
            else:
                fn = os.path.join(d, 'proj.zip')
                with zipfile.ZipFile(fn, 'w') as z:
                    z.writestr('proj/.project', decoy)
                    for path_, text in members:
                        z.writestr('/'.join(path_), text)
                l.filename_input(fn)
            return l.build_metamodel(), v['order']
        l = _bp.ModelLoader(load_globals=False)
        if route == 'bp-file':
            fn = os.path.join(d, 'all.xtuml')
            with open(fn, 'w') as f:
                f.write(''.join(G.text_of(p) for p in parts))
            l.filename_input(fn)
        elif route in ('bp-dir', 'bp-dirwide'):
            # directory and file names a model tree may legitimately have: a leading dot (hidden package directories,
            # dot-files), blanks, and the characters [ ] * ? that a glob pattern would read as wildcards; chosen from
            # the variant, so that a replay builds the same tree
            pick = sum(v['order'][:2]) + len(v['parts'])
            root = os.path.join(d, _ROOT_NAMES[pick % len(_ROOT_NAMES)])
            cur = root
            os.mkdir(cur)
            with open(os.path.join(cur, 'notes.txt'), 'w') as f:
                f.write(decoy)
            # TWO trees fed to the one loader, holding files of the same relative names (the same file name in two
            # places is not the same input)
            half = len(parts) // 2 if (route == 'bp-dir' and len(parts) >= 2 and pick % 3 == 0) else None
            roots = [root]
            for n, p in enumerate(parts):
                if half is not None and n == half:
                    os.mkdir(os.path.join(d, 'second'))
                    cur = os.path.join(d, 'second', os.path.basename(root))
                    os.mkdir(cur)
                    roots.append(cur)
                k = n - half if half is not None and n >= half else n
                dot = '.' if (pick + k) % 4 == 1 else ''
                with open(os.path.join(cur, '%sp%d.xtuml' % (dot, n if half is None else k)), 'w') as f:
                    f.write(_part_text(p, n, v))
                if route == 'bp-dir':
                    # one file per directory level: os.walk visits a directory's files before its sub-directories
                    cur = os.path.join(cur, _SUB_NAMES[(pick + k) % len(_SUB_NAMES)])
                    os.mkdir(cur)
            walked = []     # the order in which a top-down walk of the tree lists the files: from the file system,
            for r_ in roots:   # not from the loader
                for path_, _, files_ in os.walk(r_):
                    walked.extend(int(f_.lstrip('.')[1:-6]) for f_ in files_ if f_.endswith('.xtuml'))
            for r_ in roots:
                l.filename_input(r_)
        elif route == 'bp-zip':
            # one archive — or TWO archives fed to the one loader whose members carry the same names; in half of the
            # variants consecutive members of ONE archive carry the same name as well (legal: what updating an archive in
            # append mode leaves behind) — every ENTRY of an archive is a member, a name does not identify one
            pick = sum(v['order'][:2]) + len(v['parts'])
            same_names = pick % 4 in (1, 2)
            half = len(parts) // 2 if (len(parts) >= 2 and pick % 2 == 0) else len(parts)
            groups = [g for g in (list(enumerate(parts))[:half], list(enumerate(parts))[half:]) if g]
            for gi, group in enumerate(groups):
                fn = os.path.join(d, 'model%d.zip' % gi)
                with zipfile.ZipFile(fn, 'w') as z, warnings.catch_warnings():
                    warnings.simplefilter('ignore')         # zipfile warns about a repeated member name
                    z.writestr('readme.txt', decoy)
                    for k, (n, p) in enumerate(group):
                        if same_names:
                            z.writestr('models/p%d.xtuml' % (k // 2), _part_text(p, n, v))
                            continue
                        z.writestr(('models/pkg%d/' % k if k % 2 else 'models/') + 'p%d.xtuml' % k, _part_text(p, n, v))
                l.filename_input(fn)
        else:
            raise ValueError(route)
        order = v['order']
        if route == 'bp-dirwide':
            # the directory walk order of sibling files is the operating system's: taken from the harness's own os.walk
            seen = walked
            starts = [sum(v['parts'][:k]) for k in range(len(v['parts']))]
            order = [i for k in seen for i in v['order'][starts[k]:starts[k] + v['parts'][k]]]
            if sorted(order) != sorted(v['order']):
                order = v['order']
        return l.build_metamodel(), order
    finally:
        shutil.rmtree(d, ignore_errors=True)


def _rden(unit):
    """REAL payloads of a case count multiples of 10**-6, or - case['runit'] = k - multiples of 2**-k"""
    return 2 ** unit if unit else 10 ** 6


def _py(tv, unit):
    """typed value -> the Python value (exact: the REAL values generated are dyadic rationals of < 53 bits)"""
    if unit and tv[0] == 'r':
        return float(Fraction(tv[1], 2 ** unit))
    return G.py_value(tv)


def _fine_lexeme(n, unit, style=0):
    """the EXACT decimal expansion of n / 2**unit (it has at most `unit` fraction digits, float() reads it back exactly)"""
    sign = '-' if n < 0 else ''
    whole, rem = divmod(abs(n), 2 ** unit)
    frac = ('%0*d' % (unit, rem * 5 ** unit)).rstrip('0')
    if not frac and style == 1 and not sign:
        return '%d' % whole             # a REAL column accepts an integer lexeme
    if style == 2:
        frac += '00'
    return '%s%d.%s' % (sign, whole, frac or '0')


def _canon_val(v, ty, unit=0):
    ty = ty.upper()
    if v is None:
        return Sym('none')
    if ty == 'BOOLEAN' and isinstance(v, bool):
        return [Sym('b'), Sym('T') if v else Sym('F')]
    if ty == 'INTEGER' and isinstance(v, int) and not isinstance(v, bool):
        return [Sym('i'), v]
    if ty == 'UNIQUE_ID' and isinstance(v, int) and not isinstance(v, bool) and v >= 0:
        return [Sym('u'), v]
    if ty == 'STRING' and isinstance(v, str):
        return [Sym('s'), v]
    if ty == 'REAL' and isinstance(v, float):
        f = Fraction(v) * _rden(unit)      # exact arithmetic, no float comparison
        if f.denominator == 1:
            return [Sym('r'), f.numerator]
    return [Sym('odd'), repr(v)]


def _dump(m, mine, unit=0):
    """ordered dump in the format of Driver/LoadCodec.lean"""
    classes = []
    pos = {}
    for key, mc in m.metaclasses.items():
        if mine is not None and mc.kind not in mine:
            continue
        tys = dict((n, t) for n, t in mc.attributes)
        rows = []
        for i, inst in enumerate(mc.storage):
            pos[id(inst)] = i
            rows.append([[n, _canon_val(v, tys[n], unit)] for n, v in inst.__dict__.items() if n in tys])
        classes.append([mc.kind, [[n, Sym(G.TYSYM.get(t.upper(), t))] for n, t in mc.attributes],
                        [[n, list(a)] for n, a in mc.indices.items()], rows])
    assocs = []
    for ass in m.associations:
        sc, tc = ass.source_link.to_metaclass, ass.target_link.to_metaclass
        if mine is not None and (sc.kind not in mine or tc.kind not in mine):
            continue
        tgt = [[pos.get(id(o), -1) for o in ass.target_link.get(inst, ())] for inst in sc.storage]
        src = [[pos.get(id(o), -1) for o in ass.source_link.get(inst, ())] for inst in tc.storage]
        assocs.append([ass.rel_id, tgt, src])
    return [Sym('ok'), Sym('T'), classes, assocs]


def _ids_by_kind(stmts, order):
    """kind -> statement ids of its INSERTs in the order the loader sees them"""
    out = {}
    for i in order:
        if stmts[i]['t'] == 'insert':
            out.setdefault(stmts[i]['kind'], []).append(i)
    return out


def _expected_links(stmts, raw):
    """association statement id -> set of (source INSERT id, target INSERT id): the property's predicate"""
    out = {}
    for ai, a in enumerate(stmts):
        if a['t'] != 'assoc':
            continue
        S = [i for i, s in enumerate(stmts) if s['t'] == 'insert' and s['kind'] == a['sk']]
        T = [i for i, s in enumerate(stmts) if s['t'] == 'insert' and s['kind'] == a['tk']]
        out[ai] = set((i, j) for i in S for j in T if G.key_match(a, raw[i], raw[j]))
    return out


def _iso(stmts, order, dump):
    """order-independent content of a dump, instances named by their INSERT statement"""
    if dump[0] != 'ok':
        return ('error',)
    ids = _ids_by_kind(stmts, order)
    classes = {}
    for kind, attrs, indices, rows in dump[2]:
        names = ids.get(kind, [])
        classes[kind] = (repr(attrs), repr(sorted(indices)),
                         tuple(sorted((names[i] if i < len(names) else -1, repr(r)) for i, r in enumerate(rows))))
    ai = [i for i in order if stmts[i]['t'] == 'assoc']
    links = []
    for n, (rel, tgt, src) in enumerate(dump[3]):
        a = stmts[ai[n]] if n < len(ai) else None
        if a is None:
            links.append(('?', rel))
            continue
        S, T = ids.get(a['sk'], []), ids.get(a['tk'], [])
        f = set((S[i], T[j]) for i, js in enumerate(tgt) for j in js if i < len(S) and 0 <= j < len(T))
        b = set((S[i], T[j]) for j, is_ in enumerate(src) for i in is_ if j < len(T) and 0 <= i < len(S))
        links.append((ai[n], tuple(sorted(f)), tuple(sorted(b))))
    return (tuple(sorted(classes.items())), tuple(sorted(links)))


def _check_exact(stmts, v, m, dump, expected, fail):
    """D: linked <=> key predicate, on the raw link dicts (both directions) and through navigation"""
    ids = _ids_by_kind(stmts, v['order'])
    ai = [i for i in v['order'] if stmts[i]['t'] == 'assoc']
    txt = None
    for n, (rel, tgt, src) in enumerate(dump[3]):
        if n >= len(ai):
            fail('association-count', 'the metamodel holds more associations than the input defines')
            return
        a = stmts[ai[n]]
        S, T = ids.get(a['sk'], []), ids.get(a['tk'], [])
        want = expected[ai[n]]
        if len(tgt) != len(S) or len(src) != len(T):
            fail('instance-count', 'class %s/%s holds %d/%d instances, the input has %d/%d INSERTs'
                 % (a['sk'], a['tk'], len(tgt), len(src), len(S), len(T)))
            return
        fwd = set((S[i], T[j]) if 0 <= j < len(T) else (S[i], None) for i, js in enumerate(tgt) for j in js)
        bwd = set((S[i], T[j]) if 0 <= i < len(S) else (None, T[j]) for j, is_ in enumerate(src) for i in is_)
        for name, got in (('target_link', fwd), ('source_link', bwd)):
            if got != want:
                txt = txt or G.text_of([stmts[i] for i in v['order']])
                extra, missing = sorted(got - want), sorted(want - got)
                what = 'links a pair whose keys do not match' if extra else 'misses a key-matching pair'
                pair = (extra or missing)[0]
                fail('linked-pair-extra' if extra else 'linked-pair-missing',
                     '%s of %s %s: (%s, %s); linked %s, key predicate gives %s; input (route %s, parts %s):\n%s'
                     % (name, rel, what, _show(stmts, pair[0]), _show(stmts, pair[1]), sorted(got), sorted(want),
                        v['route'], v['parts'], txt))
                return
        # order of the partner lists: referred instances in their class's instance order and vice versa
        for i, js in enumerate(tgt):
            if js != sorted(js) or len(set(js)) != len(js):
                fail('partner-order', 'partners of %s over %s are not in instance order: %r' % (_show(stmts, S[i]), rel, js))
                return
        for j, is_ in enumerate(src):
            if is_ != sorted(is_) or len(set(is_)) != len(is_):
                fail('partner-order', 'partners of %s over %s are not in instance order: %r' % (_show(stmts, T[j]), rel, is_))
                return


_TY_OF_TAG = {'i': 'INTEGER', 's': 'STRING', 'b': 'BOOLEAN', 'u': 'UNIQUE_ID', 'r': 'REAL'}


def _canon_raw(tv):
    if tv is None:
        return Sym('none')
    tag, val = tv
    if tag == 'b':
        return [Sym('b'), Sym('T') if val else Sym('F')]
    return [Sym(tag), val]


def _check_rows(stmts, v, dump, raw, fail):
    """D, from the INPUT alone: every class holds the attributes and identifiers its statements give it, and its i-th
    instance holds the values of the i-th INSERT of the kind — every attribute that is not referential with the value
    as written (None when left out), no referential attribute at all.  (The positions by which the link checks name
    the instances are thereby tied to the generated rows, not to anything read from the metamodel.)"""
    ids = _ids_by_kind(stmts, v['order'])
    got = dict((c[0], c) for c in dump[2])
    kinds = []
    for i in v['order']:
        s = stmts[i]
        if s['t'] == 'cls' and s['kind'] not in kinds:
            kinds.append(s['kind'])
    for i in v['order']:
        s = stmts[i]
        if s['t'] == 'insert' and s['kind'] not in kinds:
            kinds.append(s['kind'])
    if sorted(kinds) != sorted(got):
        fail('class-set', 'the metamodel holds the classes %s, the input gives %s; input:\n%s'
             % (sorted(got), sorted(kinds), G.text_of([stmts[k] for k in v['order']])))
        return
    for kind in kinds:
        c = G.class_of(stmts, kind)
        first = [stmts[i] for i in ids.get(kind, [])][:1]
        if c is not None:
            attrs = [[n, Sym(G.TYSYM[t])] for n, t in c['attrs']]
        else:
            names = first[0]['names'] if first[0]['names'] else ['_%d' % k for k in range(len(first[0]['vals']))]
            attrs = [[n, Sym(G.TYSYM[_TY_OF_TAG[tv[0]]])] for n, tv in zip(names, first[0]['vals'])]
        uniq = {}
        for i in v['order']:
            s = stmts[i]
            if s['t'] == 'uniq' and s['kind'] == kind and s['attrs']:
                uniq[s['name']] = list(s['attrs'])
        refs = _referential(stmts, kind)
        _, gattrs, gidx, grows = got[kind]
        if gattrs != attrs or sorted(map(repr, gidx)) != sorted(repr([n, a]) for n, a in uniq.items()):
            fail('class-shape', 'class %s has attributes %s / identifiers %s, the input gives %s / %s; input:\n%s'
                 % (kind, dumps(gattrs), dumps(gidx), dumps(attrs), dumps([[n, a] for n, a in uniq.items()]),
                    G.text_of([stmts[k] for k in v['order']])))
            return
        S = ids.get(kind, [])
        if len(grows) != len(S):
            fail('instance-count', 'class %s holds %d instances, the input has %d INSERTs' % (kind, len(grows), len(S)))
            return
        for k, row in enumerate(grows):
            want = sorted(repr([n, _canon_raw(raw[S[k]].get(n))]) for n, _ in attrs if n not in refs)
            if sorted(map(repr, row)) != want:
                fail('row-differs', 'instance %d of %s holds %s; %s gives %s (referential attributes %s are not stored); '
                     'input (route %s, parts %s):\n%s' % (k, kind, dumps(row), _show(stmts, S[k]), want, sorted(refs),
                                                          v['route'], v['parts'], G.text_of([stmts[j] for j in v['order']])))
                return


def _check_navigation(stmts, v, m, expected, fail, mine):
    ids = _ids_by_kind(stmts, v['order'])
    for ai, a in enumerate(stmts):
        if a['t'] != 'assoc':
            continue
        if a['sk'] == a['tk'] and a['sph'] == a['tph']:
            # (kind, number, phrase) names both directions of this association: which one a navigation takes is not
            # something the property speaks of; its links are checked on the link relation itself (_check_exact)
            continue
        try:
            sc, tc = m.find_metaclass(a['sk']), m.find_metaclass(a['tk'])
        except _DOC:
            return
        S, T = ids.get(a['sk'], []), ids.get(a['tk'], [])
        if len(sc.storage) != len(S) or len(tc.storage) != len(T):
            return
        tpos = dict((id(o), T[j]) for j, o in enumerate(tc.storage))
        spos = dict((id(o), S[i]) for i, o in enumerate(sc.storage))
        want = expected[ai]
        for i, inst in enumerate(sc.storage):
            got = set(tpos.get(id(o)) for o in _x.navigate_many(inst).nav(a['tk'], a['rel'], a['sph'])())
            w = set(t for (s, t) in want if s == S[i])
            if got != w:
                fail('navigate-differs', 'navigating from %s to %s[%s%s] yields INSERTs %s, the key predicate gives %s; input:\n%s'
                     % (_show(stmts, S[i]), a['tk'], a['rel'], ", '%s'" % a['sph'] if a['sph'] else '', sorted(got, key=str),
                        sorted(w), G.text_of([stmts[k] for k in v['order']])))
                return
        for j, inst in enumerate(tc.storage):
            got = set(spos.get(id(o)) for o in _x.navigate_many(inst).nav(a['sk'], a['rel'], a['tph'])())
            w = set(s for (s, t) in want if t == T[j])
            if got != w:
                fail('navigate-differs', 'navigating from %s to %s[%s%s] yields INSERTs %s, the key predicate gives %s; input:\n%s'
                     % (_show(stmts, T[j]), a['sk'], a['rel'], ", '%s'" % a['tph'] if a['tph'] else '', sorted(got, key=str),
                        sorted(w), G.text_of([stmts[k] for k in v['order']])))
                return


def _show(stmts, i):
    if i is None:
        return '<unknown instance>'
    return '[%d] %s' % (i, G.stmt_text(stmts[i]))


def _same_insert_order(stmts, o1, o2):
    return _ids_by_kind(stmts, o1) == _ids_by_kind(stmts, o2)


# ----------------------------------------------------------------------------- API and clone routes

def _phrased(a):
    """the associations the open finding `api-phrased-direction` is about"""
    return a['sk'] == a['tk'] or a['sph'] != a['tph']


def _referential(stmts, kind):
    out = set()
    for a in stmts:
        if a['t'] == 'assoc' and a['sk'] == kind:
            out.update(a['skeys'])
    return out


def has_chain(stmts):
    """some identifying attribute used as a key is itself referential in its class (read through links)"""
    return any(a['t'] == 'assoc' and set(a['tkeys']) & _referential(stmts, a['tk']) for a in stmts)


def _creation_order(stmts, expected):
    """INSERT ids, referred rows first (topological order of the expected links); None if impossible"""
    ins = [i for i, s in enumerate(stmts) if s['t'] == 'insert']
    deps = dict((i, set()) for i in ins)
    for pairs in expected.values():
        for s, t in pairs:
            if s == t:
                return None
            deps[s].add(t)
    # also class-wise where the class graph allows it (keeps a class's rows together when possible)
    out, done = [], set()
    while len(out) < len(ins):
        ready = [i for i in ins if i not in done and deps[i] <= done]
        if not ready:
            return None
        out.append(ready[0])
        done.add(ready[0])
    return out


def _schema_into(m, stmts):
    for s in stmts:
        if s['t'] == 'cls':
            m.define_class(s['kind'], [(n, t) for n, t in s['attrs']])
    for s in stmts:
        if s['t'] == 'uniq':
            m.define_unique_identifier(s['kind'], s['name'], *s['attrs'])
    for s in stmts:
        if s['t'] == 'assoc':
            ass = m.define_association(s['rel'], s['sk'], list(s['skeys']), 'M' in s['scard'], 'C' in s['scard'], s['sph'],
                                       s['tk'], list(s['tkeys']), 'M' in s['tcard'], 'C' in s['tcard'], s['tph'])
            ass.formalize()


class _Cyclic(Exception):
    pass


def _api_guard(stmts, raw, expected):
    """None, or the reason the API route cannot be exercised at all"""
    for ai in expected:
        a = stmts[ai]
        if not a['skeys'] or not a['tkeys']:
            return 'empty-keys'      # there is no referential value to create the row with
    return None


class _ApiSim(object):
    """What creating the rows through `new` / `clone` does AS THE CODE IS NOW, written down independently of the
    implementation and of the Lean model, from the three open findings:

      api-phrased-direction      `new` calls relate(found, new, rel, phrase of the link that STARTS at the new instance's
                                 class); `_find_link` compares that phrase with the link that starts at the FIRST
                                 argument's class (first association of the number that passes one of its two tests);
      api-dangling-chained-key   the query of `new` reads a referential attribute of a candidate through the links made so
                                 far (last formalised association first, first partner), None without a partner;
      api-cardinality-rejected   relate() connects with the cardinality check and raises RelateException; `new` is aborted.

    Every deviation from the property's statement that one of these causes is recorded in `triggers`; D accepts a
    difference between the API route and the loader only if the API route equals this simulation exactly, and reports it
    under the signatures in `triggers`."""

    def __init__(self, stmts, raw):
        self.stmts, self.raw = stmts, raw
        self.assocs = [(ai, a) for ai, a in enumerate(stmts) if a['t'] == 'assoc']
        self.src = dict((ai, {}) for ai, _ in self.assocs)      # association -> referred row -> referring rows
        self.tgt = dict((ai, {}) for ai, _ in self.assocs)      # association -> referring row -> referred rows
        self.rows = {}                                          # kind -> rows in creation order
        self.triggers = set()

    def referential(self, kind):
        return _referential(self.stmts, kind)

    def links_of(self, kind):
        """`metaclass.links` (a dict keyed by (other kind, number, phrase)): (own role, association, key map other->own,
        other kind, phrase)"""
        out = {}
        for ai, a in self.assocs:
            if a['tk'] == kind:
                out[(a['sk'], a['rel'], a['tph'])] = ('referred', ai, dict(zip(a['skeys'], a['tkeys'])), a['sk'], a['tph'])
            if a['sk'] == kind:
                out[(a['tk'], a['rel'], a['sph'])] = ('referring', ai, dict(zip(a['tkeys'], a['skeys'])), a['tk'], a['sph'])
        return list(out.values())

    def read(self, i, attr, tgt=None, seen=()):
        if (i, attr) in seen:
            raise _Cyclic()
        tgt = self.tgt if tgt is None else tgt
        kind = self.stmts[i]['kind']
        if attr not in self.referential(kind):
            return self.raw[i].get(attr)
        for bi, b in reversed(self.assocs):
            if b['sk'] == kind and attr in b['skeys']:
                partners = tgt[bi].get(i, [])
                if partners:
                    return self.read(partners[0], dict(zip(b['skeys'], b['tkeys']))[attr], tgt, seen + ((i, attr),))
        return None

    def relate(self, other, inst, rel, phrase, role, own_ai):
        k1, k2 = self.stmts[other]['kind'], self.stmts[inst]['kind']
        found = None
        for ai, a in self.assocs:
            if a['rel'] != rel:
                continue
            if a['tk'] == k1 and a['sk'] == k2 and a['tph'] == phrase:
                found = (ai, other, inst)
                break
            if a['sk'] == k1 and a['tk'] == k2 and a['sph'] == phrase:
                found = (ai, inst, other)
                break
        right = (own_ai, other, inst) if role == 'referring' else (own_ai, inst, other)
        if found != right:
            self.triggers.add('api-phrased-direction')
        if found is None:
            return 'UnknownLinkException'
        ai, t, s = found
        a = self.stmts[ai]
        L = self.src[ai].setdefault(t, [])
        if s not in L:
            if L and 'M' not in a['scard']:
                self.triggers.add('api-cardinality-rejected')
                return 'RelateException'
            L.append(s)
        M = self.tgt[ai].setdefault(s, [])
        if t not in M:
            if M and 'M' not in a['tcard']:
                if s in L:
                    L.remove(s)
                self.triggers.add('api-cardinality-rejected')
                return 'RelateException'
            M.append(t)
        return 'ok'

    def new(self, i, given):
        """`given`: attribute -> value handed to new()"""
        kind = self.stmts[i]['kind']
        self.rows.setdefault(kind, []).append(i)
        c = G.class_of(self.stmts, kind)
        refs = dict((n, given.get(n)) for n, _ in c['attrs'] if n in self.referential(kind))
        if not refs:
            return 'ok'
        try:
            for role, ai, km, okind, phrase in self.links_of(kind):
                if set(km.values()) - set(refs):
                    continue
                kwargs = {}
                for okey, own in km.items():
                    if G.is_null(refs[own]):
                        kwargs = None
                        break
                    kwargs[okey] = refs[own]
                if not kwargs:
                    continue
                for other in list(self.rows.get(okind, [])):
                    hit = True
                    for k, v in kwargs.items():
                        got = self.read(other, k)
                        if got != v:
                            if got is None and self.raw[other].get(k) == v:
                                self.triggers.add('api-dangling-chained-key')
                            hit = False
                            break
                    if hit:
                        res = self.relate(other, i, self.stmts[ai]['rel'], phrase, role, ai)
                        if res != 'ok':
                            return res
        except _Cyclic:
            return 'RecursionError'
        return 'ok'

    def run(self, order, clone_links=None):
        """rows created in `order`; clone_links: the loader's links (association -> referring row -> referred rows in
        storage order) when the values are those READ from the loaded instances"""
        outcomes = []
        for i in order:
            c = G.class_of(self.stmts, self.stmts[i]['kind'])
            if clone_links is None:
                given = dict(self.raw[i])
            else:
                given = {}
                for n, _ in c['attrs']:
                    given[n] = self.read(i, n, clone_links)
                    if given[n] != self.raw[i].get(n):
                        self.triggers.add('api-dangling-chained-key')
            outcomes.append(self.new(i, given))
        return outcomes

    def link_sets(self):
        out = {}
        for ai, _ in self.assocs:
            f = set((s_, t_) for s_, ts in self.tgt[ai].items() for t_ in ts)
            b = set((s_, t_) for t_, ss in self.src[ai].items() for s_ in ss)
            out[ai] = (f, b)
        return out


def _route_api(stmts, raw, order, clone_from=None, unit=0):
    """rows created through new() (or clone()) in `order` -> (dump, outcomes, statement ids per kind)"""
    m = _x.MetaModel(_x.IntegerGenerator())
    _schema_into(m, stmts)
    outcomes = []
    for i in order:
        s = stmts[i]
        c = G.class_of(stmts, s['kind'])
        try:
            if clone_from is not None:
                m.clone(clone_from[i])
            else:
                args = [None if raw[i].get(n) is None else _py(raw[i][n], unit) for n, _ in c['attrs']]
                m.new(s['kind'], *args)
            outcomes.append(Sym('ok'))
        except _x.RelateException:
            outcomes.append(Sym('RelateException'))
        except _x.UnknownLinkException:
            outcomes.append(Sym('UnknownLinkException'))
        except RecursionError:
            # reading a referential attribute whose chain of identifying attributes is cyclic (A.x -> B.y -> A.x)
            outcomes.append(Sym('RecursionError'))
    return m, outcomes


def _api_links(stmts, order, dump):
    ids = _ids_by_kind(stmts, order)
    ai = [i for i, s in enumerate(stmts) if s['t'] == 'assoc']
    out = {}
    for n, (rel, tgt, src) in enumerate(dump[3]):
        a = stmts[ai[n]]
        S, T = ids.get(a['sk'], []), ids.get(a['tk'], [])
        f = set((S[i], T[j]) for i, js in enumerate(tgt) for j in js)
        b = set((S[i], T[j]) for j, is_ in enumerate(src) for i in is_)
        out[ai[n]] = (f, b)
    return out


def _check_api(route, stmts, raw, order, dump, outcomes, expected, fail, modelled):
    """D for the API / clone route: the links are those of loading the same rows (the property's statement), or — where
    the code as it is contradicts that — exactly what the independent simulation `_ApiSim` of the three OPEN findings
    gives; then the difference is reported under the signatures of the findings that caused it.  Anything else fails."""
    links = _api_links(stmts, order, dump)
    got_out = [str(o) for o in outcomes]
    if all(o == 'ok' for o in got_out) and all(f == expected[ai] and b == expected[ai] for ai, (f, b) in links.items()):
        return None
    sim = _ApiSim(stmts, raw)
    clone_links = None
    if route == 'clone':
        # the loaded metamodel: the loader's links, partners in storage (= statement) order
        clone_links = dict((ai, {}) for ai in expected)
        for ai, pairs in expected.items():
            for (s_, t_) in sorted(pairs, key=lambda p: (p[0], p[1])):
                clone_links[ai].setdefault(s_, []).append(t_)
    try:
        want_out = sim.run(order, clone_links)
    except _Cyclic:
        return 'cyclic'
    want = sim.link_sets()

    def context():
        return 'rows created in the order %s; outcomes %s; input:\n%s' % (order, got_out, G.text_of(stmts))

    for ai, (f, b) in sorted(links.items()):
        if (f, b) != want[ai]:
            first = sorted((f ^ want[ai][0]) | (b ^ want[ai][1]))[0]
            fail('%s-links-differ' % route,
                 '%s route: %s links %s / %s; loading the same rows links %s, and the open findings %s explain only %s / %s '
                 '(first difference: %s / %s); %s' % (route, stmts[ai]['rel'], sorted(f), sorted(b), sorted(expected[ai]),
                                                     sorted(sim.triggers), sorted(want[ai][0]), sorted(want[ai][1]),
                                                     _show(stmts, first[0]), _show(stmts, first[1]), context()))
            return None
    if got_out != want_out:
        k = [n for n, (x, y) in enumerate(zip(got_out, want_out)) if x != y][0]
        fail('%s-raises' % route, '%s route: creating %s gave %s; the open findings %s explain %s; %s'
             % (route, _show(stmts, order[k]), got_out[k], sorted(sim.triggers), want_out[k], context()))
        return None
    # the route does what the open findings predict, and that differs from the property's statement
    if not sim.triggers or not modelled:
        ai = [ai for ai in sorted(links) if links[ai] != (expected[ai], expected[ai])]
        fail('%s-links-differ' % route if ai else '%s-raises' % route,
             '%s route differs from loading the same rows (%s) and no open finding accounts for it; %s'
             % (route, stmts[ai[0]]['rel'] if ai else got_out, context()))
        return None
    diff = [ai for ai in sorted(links) if links[ai] != (expected[ai], expected[ai])]
    where = ('%s links %s, loading the same rows links %s' % (stmts[diff[0]]['rel'], sorted(links[diff[0]][0] | links[diff[0]][1]),
                                                              sorted(expected[diff[0]]))) if diff else ('outcomes %s' % got_out)
    for sig in sorted(sim.triggers):
        fail(sig, '%s route: %s; %s' % (route, where, context()))
    return None


def _check_batch_relate(stmts, raw, expected, fail, stats, unit=0):
    """`Association.batch_relate`, the second implementation of the join in xtuml/meta.py (a query per referring
    instance instead of the loader's hash index), used the supported way: classes and associations are defined, the
    rows are created through the API with their referential values as plain attributes (the associations are not
    formalised yet), every association is batch-related and only then formalised.  D: the links are exactly the
    key-matching pairs."""
    if not all(G.class_of(stmts, s_['kind']) for s_ in stmts if s_['t'] == 'insert'):
        return
    m = _x.MetaModel(_x.IntegerGenerator())
    inst_of = {}
    try:
        for s_ in stmts:
            if s_['t'] == 'cls':
                m.define_class(s_['kind'], [(n, t) for n, t in s_['attrs']])
        asses = []
        for s_ in stmts:
            if s_['t'] == 'assoc':
                asses.append(m.define_association(s_['rel'], s_['sk'], list(s_['skeys']), 'M' in s_['scard'], 'C' in s_['scard'],
                                                  s_['sph'], s_['tk'], list(s_['tkeys']), 'M' in s_['tcard'], 'C' in s_['tcard'],
                                                  s_['tph']))
        for i, s_ in enumerate(stmts):
            if s_['t'] == 'insert':
                c = G.class_of(stmts, s_['kind'])
                inst_of[i] = m.new(s_['kind'], *[None if raw[i].get(n) is None else _py(raw[i][n], unit) for n, _ in c['attrs']])
        for ass in asses:
            ass.batch_relate()
        for ass in asses:
            ass.formalize()
    except RecursionError:
        return
    except _DOC as e:
        fail('batch-relate-raises', 'Association.batch_relate raised %s: %s; input:\n%s' % (type(e).__name__, e, G.text_of(stmts)))
        return
    stats['batch_relate'] = 1
    stmt_of = dict((id(o), i) for i, o in inst_of.items())
    ai = [i for i, s_ in enumerate(stmts) if s_['t'] == 'assoc']
    for n, ass in enumerate(asses):
        a = stmts[ai[n]]
        f = set((stmt_of.get(id(i_)), stmt_of.get(id(o))) for i_, os_ in ass.target_link.items() for o in os_)
        b = set((stmt_of.get(id(o)), stmt_of.get(id(i_))) for i_, os_ in ass.source_link.items() for o in os_)
        if f != expected[ai[n]] or b != expected[ai[n]]:
            fail('batch-relate-differs', 'Association.batch_relate (before formalize) links %s / %s over %s, the key predicate '
                 'gives %s; input:\n%s' % (sorted(f, key=str), sorted(b, key=str), a['rel'], sorted(expected[ai[n]]), G.text_of(stmts)))
            return


# ----------------------------------------------------------------------------- run_impl

def run_impl(case):
    stmts = case['stmts']
    unit = case.get('runit', 0)
    fails = []

    def fail(sig, what):
        if len(fails) < 3:
            fails.append({'sig': sig, 'what': what})

    mine = set(s['kind'] for s in stmts if s['t'] in ('cls', 'insert'))
    ins_ids = [i for i, s in enumerate(stmts) if s['t'] == 'insert']
    raw = dict((i, G.raw_row(stmts, stmts[i])) for i in ins_ids)
    expected = _expected_links(stmts, raw)
    obs = []
    base_iso = None
    base_dump = None
    base_order = None
    stats = {'variants': 0, 'fam_' + case['fam']: 1}
    cache = {}
    seen_orders = []
    for n, v in enumerate(case['variants']):
        stats['variants'] += 1
        stats['route_' + v['route']] = stats.get('route_' + v['route'], 0) + 1
        bp = v['route'].startswith('bp-')
        try:
            m, seen_order = _load(stmts, v, mine, cache)
            v = dict(v, order=seen_order)
            dump = _dump(m, mine if bp else None, unit)
        except _DOC as e:
            m = None
            dump = [Sym('error')]
            if case['fam'] != 'error':
                fail('load-raises', 'build raised %s: %s on the in-domain input (route %s, parts %s):\n%s'
                     % (type(e).__name__, e, v['route'], v['parts'], G.text_of([stmts[i] for i in v['order']])))
        if m is not None:
            if v['route'] != 'stmts' or n % 8 == 1:
                _check_rows(stmts, v, dump, raw, fail)
            _check_exact(stmts, v, m, dump, expected, fail)
            if v['route'] != 'stmts' or n % 16 == 1:
                _check_navigation(stmts, v, m, expected, fail, mine)
        iso = _iso(stmts, v['order'], dump)
        if base_iso is None:
            base_iso, base_dump, base_order = iso, dump, v['order']
        else:
            if iso != base_iso:
                fail('order-dependent' if v['route'] == 'input' and len(v['parts']) == 1 else 'split-dependent',
                     'the metamodel differs from the one built from the statements in their original order '
                     '(route %s, parts %s); permuted input:\n%s\noriginal input:\n%s'
                     % (v['route'], v['parts'], G.text_of([stmts[i] for i in v['order']]), G.text_of(stmts)))
            elif dump[0] == 'ok' and _same_insert_order(stmts, base_order, v['order']):
                if [c[3] for c in sorted(dump[2])] != [c[3] for c in sorted(base_dump[2])] or \
                        sorted(map(repr, dump[3])) != sorted(map(repr, base_dump[3])):
                    # more than the property says (it speaks of the link RELATION): not a D failure; the exact
                    # order is the model's business (build_perm_ordered) and is compared by K on every variant
                    stats['instance_order_differs'] = stats.get('instance_order_differs', 0) + 1
        seen_orders.append(v['order'])
        obs.append(dump if n == 0 else _digest(dump))
    if case.get('api') and base_dump is not None and base_dump[0] == 'ok':
        _check_batch_relate(stmts, raw, expected, fail, stats, unit)
    api_obs = None
    if case.get('api') and base_dump is not None and base_dump[0] == 'ok' \
            and all(G.class_of(stmts, stmts[i]['kind']) for i in ins_ids):
        order = _creation_order(stmts, expected)
        guard = _api_guard(stmts, raw, expected) if order is not None else 'cyclic'
        if order is None:
            order = ins_ids
        m2, outcomes = _route_api(stmts, raw, order, unit=unit)
        d2 = _dump(m2, None, unit)
        if guard is None:
            guard = _check_api('api', stmts, raw, order, d2, outcomes, expected, fail, _api_modelled(case))
        stats['api_guard_%s' % (guard or 'holds')] = 1
        # clone: load in the original order, clone every instance into an empty metamodel with the same schema
        m1, _ = _load(stmts, {'order': list(range(len(stmts))), 'parts': [len(stmts)], 'route': 'input'}, mine)
        ids = _ids_by_kind(stmts, range(len(stmts)))
        inst_of = {}
        for kind, lst in ids.items():
            for k, i in enumerate(lst):
                inst_of[i] = m1.find_metaclass(kind).storage[k]
        m3, outcomes3 = _route_api(stmts, raw, order, clone_from=inst_of, unit=unit)
        d3 = _dump(m3, None, unit)
        if guard is None and Sym('RecursionError') not in outcomes3:
            _check_api('clone', stmts, raw, order, d3, outcomes3, expected, fail, _api_modelled(case))
        api_obs = [[outcomes, d2[2], d2[3]], [outcomes3, d3[2], d3[3]]]
    nontrivial = any(0 < len(p) < _n_candidates(stmts, ai) for ai, p in expected.items())
    res = {'obs': [obs, api_obs if _api_modelled(case) and api_obs is not None else Sym('none')],
           'd_fail': fails, 'nontrivial': nontrivial, 'key': G.text_of(stmts), 'stats': stats}
    if any(v['route'] == 'bp-dirwide' for v in case['variants']):
        # the order in which the operating system listed the sibling files is only known now
        res['model_line'] = model_line(case, seen_orders)
    return res


def _n_candidates(stmts, ai):
    a = stmts[ai]
    return sum(1 for s in stmts if s['t'] == 'insert' and s['kind'] == a['sk']) * \
        sum(1 for s in stmts if s['t'] == 'insert' and s['kind'] == a['tk'])


def _api_modelled(case):
    """the API / clone routes are compared with the Lean model on chain-free schemas (the model does not
    read identifying attributes that are themselves referential)"""
    stmts = case['stmts']
    return bool(case.get('api')) and case['fam'] != 'error' and \
        all(G.class_of(stmts, s['kind']) for s in stmts if s['t'] == 'insert')


def _api_order(stmts):
    ins_ids = [i for i, s in enumerate(stmts) if s['t'] == 'insert']
    raw = dict((i, G.raw_row(stmts, stmts[i])) for i in ins_ids)
    order = _creation_order(stmts, _expected_links(stmts, raw))
    return (order if order is not None else ins_ids), raw


# ----------------------------------------------------------------------------- model side

def model_line(case, orders=None):
    stmts = case['stmts']
    if case.get('donly'):
        return None         # a family outside the model's domain (Pyx.Load.inDomain): the property predicate D only
    orders = orders if orders is not None else [v['order'] for v in case['variants']]
    vs = [[G.enc_stmt(stmts[i]) for i in o] for o in orders]
    api = Sym('none')
    if _api_modelled(case):
        order, raw = _api_order(stmts)
        pos = {}
        for kind, lst in _ids_by_kind(stmts, range(len(stmts))).items():
            for k, i in enumerate(lst):
                pos[i] = k
        api = []
        for i in order:
            c = G.class_of(stmts, stmts[i]['kind'])
            api.append([stmts[i]['kind'], pos[i]] + [G.enc_val(raw[i].get(n)) for n, _ in c['attrs']])
    return dumps([Sym('c03-case'), vs, api])


def model_obs(case, ans):
    return [[d if n == 0 else _digest(d) for n, d in enumerate(ans[0])], ans[1]]


def shrink_candidates(case):
    vs = case['variants']
    if len(vs) > 2:
        for v in vs[1:]:
            yield dict(case, variants=[vs[0], v])
    if len(vs) > 1:
        yield dict(case, variants=[vs[0]])
    stmts = case['stmts']
    for k, s in enumerate(stmts):
        if s['t'] == 'cls' and any(t is not s and t['t'] != 'cls' and s['kind'] in (t.get('kind'), t.get('sk'), t.get('tk'))
                                   for t in stmts):
            continue
        new = stmts[:k] + stmts[k + 1:]
        nv = []
        for v in vs:
            o = [i - (1 if i > k else 0) for i in v['order'] if i != k]
            nv.append(dict(v, order=o, parts=[len(o)]))
        yield dict(case, stmts=new, variants=nv)
