"""C09 — Queries and navigations return exactly the matching instances in model order.

States are reached by random histories (new / relate / unrelate / delete, as in C02) over the seven
association shapes extended with two plain integer attributes P, Q (small value pool, to force ties).
On the final state a batch of queries is run through the public API (on two thirds of the cases the same
queries were already asked on earlier states of the history, answers discarded):
select_many / select_one / select_any with where_eq (keyword and dict form, also on id and referential
attributes, also comparing with None), lambdas, order_by / reverse_order_by on one or two attributes,
in any combination and order; navigation chains of length 1-4 (nav() and the K[rel, 'phrase'] syntax)
from None, an instance, a QuerySet, a list and a generator with duplicates, through association
classes (two-hop) and reflexive associations with phrases, with filters; navigate_subtype.

Construction routes: the API, and in the family `loaded` xtuml.ModelLoader (the population after a history prefix is
written as SQL text, meta_common.Model.from_sql; the rest of the history and the queries run on the loader-built model).

Family `ordvalues` (D only): orderings over STRING, REAL, BOOLEAN, UNIQUE_ID and wide INTEGER attributes (empty strings, zeros,
negative and falsy values, values beyond 64 bits, values that differ in case / blanks / the seventh decimal), through every
query form, on API-built and loader-built populations; expectation = a written-out stable insertion sort on the given rows.

  D  an independent relational evaluation over the dumped rows and link pairs (list comprehensions,
     Python's own stable `sorted` on key tuples; descending = ascending on negated keys).
  K  lean/PyxModel/Query.lean evaluated by the driver on the same history and queries.
"""
import copy

import meta_common as mc
import prop_C02
from sexp import Sym, dumps

PROP = 'C09'
RULE = ('random histories (length 10-120 quick, up to 400 thorough) over 7 association shapes with plain attributes P,Q in '
        '{0,1,2}; per final state 14 generated queries covering every operator combination and navigation handle form; '
        'non-trivial: some query returned >= 2 instances, or a navigation of >= 2 steps returned something, or an '
        'ordering had ties; distinct = distinct (shape, history, attribute values, queries); family `loaded`: the same cases with the '
        'first k ops (k up to the whole history) realised as SQL text loaded by xtuml.ModelLoader; family `ordvalues` (D only): 2-8 rows '
        'with attributes of every core type drawn from 2-4 pool values each (empty / zero / falsy / negative / > 64 bit / nearly equal), '
        '6 orderings per case through every query form, three construction routes; non-trivial: some ordered result holds two different keys')
EXHAUSTIVE = {'quick': False, 'thorough': False}
ASSUMPTIONS = ['ordering attributes hold non-null values of one type (comparing None with a value raises TypeError in Python: outside the domain); the Lean model orders integers, orderings over the other core types are checked by D only (family ordvalues)',
               'lambdas are drawn from a small predicate language the model can also evaluate']
CHUNK = 500
CASE_TIMEOUT_S = 30

SHAPES = None
_x = None


def setup(ctx):
    global SHAPES, _x
    import xtuml
    _x = xtuml
    mc.bind(xtuml)
    SHAPES = {}
    for name, sch in mc.SHAPES.items():
        s = copy.deepcopy(sch)
        for c in s['classes']:
            c['attrs'] = list(c['attrs']) + [('P', 'integer'), ('Q', 'integer')]
        SHAPES[name] = s


def _attr_names(schema, k):
    c = schema['classes'][k]
    names = ['P', 'Q']
    if c['id']:
        names.append(c['id'])
    for a in schema['assocs']:
        if a['src'] == k:
            for r in a['skeys']:
                if r not in names:
                    names.append(r)
    return names


def gen_qops(r, schema, k):
    ops = []
    for _ in range(r.choice([0, 1, 1, 2, 2, 3])):
        c = r.random()
        if c < 0.35:
            pairs = []
            for _ in range(r.choice([1, 1, 2, 3])):
                a = r.choice(_attr_names(schema, k))
                if any(p[0] == a for p in pairs):
                    continue          # keyword arguments / dict keys are unique
                if a in ('P', 'Q'):
                    v = r.randint(0, 2)
                else:
                    v = r.choice([None, r.randint(1, 8), r.randint(1, 4)])
                pairs.append([a, v])
            ops.append(['where', pairs, r.choice(['kw', 'dict'])])
        elif c < 0.7:
            attrs = r.choice([['P'], ['Q'], ['P', 'Q'], ['Q', 'P']])
            ops.append(['order', attrs, r.random() < 0.5])
        else:
            ops.append(r.choice([['pred', 'lt', 'P', r.randint(0, 3)], ['pred', 'ge', 'Q', r.randint(0, 2)],
                                 ['pred', 'sum', 'P', 'Q', r.randint(0, 4)], ['pred', 'tt']]))
    return ops


def gen_steps(r, schema, k0, maxlen):
    """a chain of link keys (toKind, rel, phrase) that exists in the schema (direct or via an association class)"""
    steps, k = [], k0
    for _ in range(r.randint(1, maxlen)):
        cands = []
        for a in schema['assocs']:
            if a['tgt'] == k:
                cands.append((a['src'], a['rel'], a['tphrase']))
            if a['src'] == k:
                cands.append((a['tgt'], a['rel'], a['sphrase']))
                # two-hop through this class's partner when k's partner class is an association class
        # two-hop: k --rel--> M --rel--> K2 with the same rel and phrase
        for (m, rel, ph) in list(cands):
            for a in schema['assocs']:
                if a['rel'] == rel:
                    if a['tgt'] == m and a['tphrase'] == ph and a['src'] != k:
                        cands.append((a['src'], rel, ph))
                    if a['src'] == m and a['sphrase'] == ph and a['tgt'] != k:
                        cands.append((a['tgt'], rel, ph))
        if not cands:
            break
        if r.random() < 0.04:
            steps.append([r.randrange(len(schema['classes'])), 'R55', ''])     # unknown link
            break
        st = r.choice(cands)
        steps.append([st[0], st[1], st[2]])
        k = st[0]
    return steps


def _schema_direct(schema, k, k2, rel, ph):
    found = None
    for ai, a in enumerate(schema['assocs']):
        if a['rel'] != rel:
            continue
        if a['tgt'] == k and a['src'] == k2 and a['tphrase'] == ph:
            found = (ai, 0)
        if a['src'] == k and a['tgt'] == k2 and a['sphrase'] == ph:
            found = (ai, 1)
    return found


def _step_resolves(schema, k, k2, rel, ph):
    """does class k have the link (k2, rel, ph), directly or in two hops through an association class (as Rel.step)"""
    if _schema_direct(schema, k, k2, rel, ph) is not None:
        return True
    for a in schema['assocs']:
        for (frm, to, p) in ((a['tgt'], a['src'], a['tphrase']), (a['src'], a['tgt'], a['sphrase'])):
            if frm == k and a['rel'] == rel and p == ph and _schema_direct(schema, to, k2, rel, ph) is not None:
                return True
    return False


def generate(ctx):
    rng = ctx.rng.fork('c09')
    n = ctx.pick(5000, 60000)
    names = sorted(mc.SHAPES)
    for i in range(n):
        yield _case(rng.fork(i), ctx, names)
    # family `loaded` (construction route): the state after the first k ops is built by xtuml.ModelLoader from SQL text
    # (schema, unique indices, rows with explicit ids and referential values) instead of through the API
    lr = ctx.rng.fork('loaded')
    for i in range(ctx.pick(500, 6000)):
        r = lr.fork(i)
        case = _case(r, ctx, names)
        schema = SHAPES[case['shape']]
        ops = case['ops']
        k = r.randint(len(schema['classes']), len(ops))
        pre = mc.canonical_prefix(schema, ops[:k])
        case['ops'] = pre + ops[k:]
        case['route'], case['prefix'], case['fam'] = 'sql', len(pre), 'loaded'
        yield case
    # D only: equality filters on REAL, STRING and BOOLEAN attributes mean `==` (no tolerance, no rendering): values that
    # agree in six decimals, in letter case or after strip() are different values; 2 and 2.0 are the same value
    rr = ctx.rng.fork('values')
    pools = {'real': [0.1, 0.1000002, 0.0, 1e-9, -1e-9, 2.0, 2, 123456.7890001, 123456.7890004, 1e20, 1e20 + 65536.0, -0.0, 0.5],
             'string': ['a', 'A', 'a ', ' a', '', 'ab', 'a\n', '0', 'None'],
             'boolean': [True, False]}
    for i in range(ctx.pick(150, 2000)):
        r = rr.fork(i)
        ty = r.choice(['real', 'real', 'string', 'boolean'])
        vals = [r.choice(pools[ty]) for _ in range(r.randint(2, 7))]
        yield {'fam': 'values', 'shape': 'values', 'type': ty, 'vals': vals, 'probe': [r.choice(pools[ty]) for _ in range(4)],
               'ops': [], 'queries': [], 'attrs': []}
    # D only: orderings over attributes of EVERY core type (the histories above order by small integers only): the order is
    # the order of the VALUES (`<` on strings, numbers, booleans, identifiers), whatever the value is - empty, zero, negative,
    # falsy, beyond 64 bits, differing only in letter case / blanks / the seventh decimal; see _ord_case
    orr = ctx.rng.fork('ordvalues')
    for i in range(ctx.pick(300, 4000)):
        yield _ord_case(orr.fork(i))


ORD_POOLS = {'string': ['', 'a', 'A', 'a ', ' a', 'ab', 'b', 'B', '0', '10', '9', 'None', 'a\n', '\t', ' ', 'é', 'z', '~', "it's"],
             'integer': [0, 1, -1, 2, 10, 9, -10, 2 ** 31, -2 ** 31 - 1, 2 ** 63, 2 ** 64, -2 ** 64],
             'real': [0.0, -0.0, 0.1, 0.1000002, 1e-9, -1e-9, 2.0, 2, 0.5, -0.5, 123456.7890001, 123456.7890004, 1e20, 1e20 + 65536.0],
             'boolean': [False, True],
             'unique_id': [0, 1, 2, 3, 10, 2 ** 64, 2 ** 127 + 1]}
ORD_FORMS = ['select_many', 'select_many', 'metaclass', 'select_any', 'select_one', 'first', 'last', 'nav_many', 'nav_many',
             'nav_any', 'assoc']


def _ord_case(r):
    """family `ordvalues`: one class V (X: tx, Y: ty, N: integer = creation index, WId referring to W.Id over R1) whose rows
    draw X and Y from 2-4 values of the type's pool (ties are frequent; the first value of every pool - '', 0, 0.0, False -
    is in every other sub-pool); some rows are linked to the one W instance, a few are deleted again.  Built by
    MetaModel.new with keywords, by new + attribute assignment, or by the loader from SQL text.  Queries: order_by /
    reverse_order_by on X, Y, both, or one of them and N; alone, after or before a filter, or after another ordering;
    through select_many / MetaClass.select_many / select_any / select_one / .first / .last, as the filter of navigate_many /
    navigate_any from a list, QuerySet or generator holding the instances in any order (with duplicates), and of a
    navigation across R1 (there the key ends in N: the order of the partners of one instance is not part of the statement)."""
    types = sorted(ORD_POOLS)
    tx, ty = r.choice(types), r.choice(types)
    sub = {}
    for a, t in (('X', tx), ('Y', ty)):
        pool = ORD_POOLS[t]
        vs = [pool[0]] if r.random() < 0.5 else []
        while len(vs) < min(len(pool), r.randint(2, 4)):
            v = r.choice(pool)
            if not any(v is w or (type(v) == type(w) and repr(v) == repr(w)) for w in vs):
                vs.append(v)
        sub[a] = vs
    rows = [[r.choice(sub['X']), r.choice(sub['Y']), r.random() < 0.7, r.random() < 0.08] for _ in range(r.randint(2, 8))]
    live = [n for n, row in enumerate(rows) if not row[3]]
    route = r.choice(['new', 'assign', 'sql'])
    if route == 'sql' and any(isinstance(v, float) and 'e' in repr(v) for row in rows for v in row[:2]):
        route = 'new'                     # the text format has no exponent notation
    queries = []
    for _ in range(6):
        form = r.choice(ORD_FORMS)
        attrs = r.choice([['X'], ['Y'], ['X', 'Y'], ['Y', 'X'], ['X', 'N'], ['N', 'Y'], ['X'], ['Y']])
        if form == 'assoc' and 'N' not in attrs:
            attrs = attrs + ['N']
        q = {'form': form, 'attrs': attrs, 'rev': r.random() < 0.5, 'filt': None, 'filt_first': r.random() < 0.5, 'then': None,
             'handle': [], 'hform': r.choice(['list', 'qset', 'gen'])}
        c = r.random()
        if c < 0.2:
            a = r.choice(['X', 'Y'])
            q['filt'] = [r.choice(['eq', 'dict', 'ne']), a, r.choice(sub[a])]
        elif c < 0.3:
            q['filt'] = ['odd', 'N', 0]
        elif c < 0.4 and form != 'assoc':
            q['then'] = [r.choice([['X'], ['Y']]), r.random() < 0.5]
        if form in ('nav_many', 'nav_any') and live:
            h = list(live)
            r.shuffle(h)
            if q['hform'] != 'qset':
                h = h + [r.choice(live) for _ in range(r.randint(0, 2))]
            q['handle'] = h[:r.randint(1, len(h))]
        queries.append(q)
    return {'fam': 'ordvalues', 'shape': 'values', 'types': [tx, ty], 'rows': rows, 'route': route, 'oq': queries,
            'ops': [], 'queries': [], 'attrs': []}


def _case(r, ctx, names):
    if True:
        name = r.choice(names)
        schema = SHAPES[name]
        ncls = len(schema['classes'])
        # history: reuse the C02 random family
        sub = type('C', (), {})()
        ops = prop_C02.prelude(schema, r.randint(1, 3))
        kinds = [o[1] for o in ops]
        dead = set()
        rels = sorted(set(a['rel'] for a in schema['assocs']))
        for _ in range(r.randint(10, ctx.pick(120, 400))):
            c = r.random()
            livei = [j for j in range(len(kinds)) if j not in dead]
            if c < 0.12 or len(livei) < 2:
                if len(kinds) < 7 * ncls:
                    k = r.randrange(ncls)
                    ops.append(['new', k])
                    kinds.append(k)
                continue
            if c < 0.17:
                x = r.choice(livei)
                ops.append(['delete', x])
                dead.add(x)
                continue
            a = r.choice(schema['assocs'])
            xs = [j for j in livei if kinds[j] == a['src']]
            ys = [j for j in livei if kinds[j] == a['tgt']]
            if not xs or not ys:
                continue
            x, y = r.choice(xs), r.choice(ys)
            ph = a['sphrase']
            if r.random() < 0.5:
                x, y, ph = y, x, a['tphrase']
            ops.append([r.choice(['relate', 'relate', 'relate', 'unrelate']), x, y, a['rel'], ph])
        livei = [j for j in range(len(kinds)) if j not in dead]
        attrs = [[j, r.randint(0, 2), r.randint(0, 2)] for j in range(len(kinds))]
        queries = []
        for _ in range(14):
            c = r.random()
            k = r.randrange(ncls)
            if c < 0.3:
                queries.append([r.choice(['select-many', 'select-one']), k, gen_qops(r, schema, k)])
            elif c < 0.92:
                form = r.choice(['none', 'inst', 'qset', 'list', 'gen'])
                cand = [j for j in livei if kinds[j] == k]
                if form == 'none' or not cand:
                    form, h = 'none', []
                elif form == 'inst':
                    h = [r.choice(cand)]
                else:
                    h = [r.choice(cand) for _ in range(r.randint(0, 4))]
                    if form == 'qset':
                        h = list(dict.fromkeys(h))
                steps = gen_steps(r, schema, k, 4)
                if not steps:
                    continue
                # handles of MIXED kinds: a list / QuerySet / generator may hold instances of several classes as long as every
                # one of them has the first link of the chain (the subtypes of one supertype, both sides of an association
                # class, the link class and a side that reaches the far side in two hops): the result is still the union
                # of the per-instance results.  Own random stream: the rest of the case is as it was before this family.
                rm = r.fork('mixed', len(queries))
                if form in ('qset', 'list', 'gen') and rm.random() < 0.4:
                    others = [k2 for k2 in range(ncls) if k2 != k and _step_resolves(schema, k2, *steps[0])]
                    extra = [j for j in livei if kinds[j] in others]
                    if extra:
                        for _ in range(rm.randint(1, 3)):
                            h.insert(rm.randint(0, len(h)), rm.choice(extra))
                        if form == 'qset':
                            h = list(dict.fromkeys(h))
                kend = steps[-1][0]
                queries.append([r.choice(['nav-many', 'nav-one']), form, h, steps, gen_qops(r, schema, kend),
                                r.choice(['nav', 'attr'])])
            else:
                cand = [j for j in livei if kinds[j] == k]
                if cand:
                    queries.append(['subtype', r.choice(cand), r.choice(rels + ['R404'])])
        return {'shape': name, 'ops': ops, 'attrs': attrs, 'queries': queries}


# ---------------------------------------------------------------------------- implementation side

def build_ops(qops):
    out = []
    for q in qops:
        if q[0] == 'where':
            d = dict((a, v) for a, v in q[1])
            out.append(_x.where_eq(**d) if q[2] == 'kw' else d)
        elif q[0] == 'order':
            out.append(_x.reverse_order_by(*q[1]) if q[2] else _x.order_by(*q[1]))
        elif q[1] == 'lt':
            out.append(lambda sel, a=q[2], c=q[3]: getattr(sel, a) < c)
        elif q[1] == 'ge':
            out.append(lambda sel, a=q[2], c=q[3]: getattr(sel, a) >= c)
        elif q[1] == 'sum':
            out.append(lambda sel, a=q[2], b=q[3], c=q[4]: getattr(sel, a) + getattr(sel, b) == c)
        else:
            out.append(lambda sel: True)
    return out


def _ends(items, res, model):
    """a result set also answers first / last / cardinality: they must agree with its iteration (a disagreement is put
    into the returned observation, which then differs from the relational evaluation)"""
    first = None if res.first is None else model.idx(res.first)
    last = None if res.last is None else model.idx(res.last)
    want = (items[0], items[-1]) if items else (None, None)
    n = _x.cardinality(res)
    if (first, last) != want or n != len(items) or len(res) != len(items):
        return items + [Sym('first-last-cardinality-give'), [first, last, n, len(res)]]
    return items


def run_query(model, q):
    schema = model.schema
    cname = lambda k: schema['classes'][k]['name']
    if q[0] in ('select-many', 'select-one'):
        ops = build_ops(q[2])
        if q[0] == 'select-many':
            res = model.m.select_many(cname(q[1]), *ops)
            out = _ends([model.idx(i) for i in res], res, model)
            # MetaClass.query(dict): the same as a single equality filter, on the metaclass route
            if len(q[2]) == 1 and q[2][0][0] == 'where':
                alt = [model.idx(i) for i in model.m.find_metaclass(cname(q[1])).query(dict((a, v) for a, v in q[2][0][1]))]
                if alt != out:
                    out = out + [Sym('metaclass-query-gives'), alt]
            return out
        r = model.m.select_one(cname(q[1]), *ops)
        return Sym('none') if r is None else model.idx(r)
    if q[0] == 'subtype':
        try:
            r = _x.navigate_subtype(model.insts[q[1]], q[2])
        except _x.UnknownLinkException:
            return Sym('UnknownLinkException')
        return Sym('none') if r is None else model.idx(r)
    form, h, steps, qops, syntax = q[1], q[2], q[3], q[4], q[5]
    insts = [model.insts[j] for j in h]
    handle = {'none': None, 'inst': insts[0] if insts else None, 'qset': _x.QuerySet(insts), 'list': insts,
              'gen': (i for i in insts)}[form]
    chain = _x.navigate_many(handle) if q[0] == 'nav-many' else _x.navigate_any(handle)
    try:
        for (k, rel, ph) in steps:
            if syntax == 'attr' and rel[1:].isdigit():
                chain = getattr(chain, cname(k))[int(rel[1:]), ph] if ph else getattr(chain, cname(k))[int(rel[1:])]
            else:
                chain = chain.nav(cname(k), rel, ph)
        res = chain(*build_ops(qops))
        if q[0] == 'nav-many':
            return _ends([model.idx(i) for i in res], res, model)
        return Sym('none') if res is None else model.idx(res)
    except _x.UnknownLinkException:
        return Sym('UnknownLinkException')


# ---------------------------------------------------------------------------- oracle

class Rel(object):
    def __init__(self, model, case):
        self.schema = model.schema
        self.pools = model.pools()
        self.links = model.links()
        self.kind = {}
        for k, p in enumerate(self.pools):
            for i in p:
                self.kind[i] = k
        for j in range(len(model.insts)):
            self.kind.setdefault(j, model.kind_of(j))
        self.plain = dict((a[0], {'P': a[1], 'Q': a[2]}) for a in case['attrs'])
        # own ids: the IntegerGenerator hands out 1, 2, 3 … per created instance of a class with an own id
        self.ids, nxt = {}, 1
        for j in range(len(model.insts)):
            if self.schema['classes'][self.kind[j]]['id']:
                self.ids[j] = nxt
                nxt += 1

    def partners(self, ai, side, x):
        for e in self.links[ai][side]:
            if e[0] == x:
                return e[1:]
        return []

    def attr(self, i, name, depth=0):
        if depth > 12:
            return None
        k = self.kind[i]
        layers = []
        for ai, a in enumerate(self.schema['assocs']):
            if a['src'] == k:
                for rk, pk in zip(a['skeys'], a['tkeys']):
                    if rk == name:
                        layers.append((ai, pk))
        if not layers:
            if name in ('P', 'Q'):
                return self.plain[i][name]
            if self.schema['classes'][k]['id'] == name:
                return self.ids[i]
            return None
        for ai, pk in reversed(layers):
            ps = self.partners(ai, 1, i)
            if ps:
                return self.attr(ps[0], pk, depth + 1)
        return None

    def apply(self, seq, qops):
        for q in qops:
            if q[0] == 'where':
                seq = [i for i in seq if all(self.attr(i, a) == v for a, v in q[1])]
            elif q[0] == 'order':
                if q[2]:
                    seq = sorted(seq, key=lambda i: tuple(-self.attr(i, a) for a in q[1]))
                else:
                    seq = sorted(seq, key=lambda i: tuple(self.attr(i, a) for a in q[1]))
            elif q[1] == 'lt':
                seq = [i for i in seq if self.attr(i, q[2]) < q[3]]
            elif q[1] == 'ge':
                seq = [i for i in seq if self.attr(i, q[2]) >= q[3]]
            elif q[1] == 'sum':
                seq = [i for i in seq if self.attr(i, q[2]) + self.attr(i, q[3]) == q[4]]
        return seq

    def direct(self, k, k2, rel, ph):
        """(association, side) of the link from class k to class k2 keyed (rel, ph); the later definition wins"""
        found = None
        for ai, a in enumerate(self.schema['assocs']):
            if a['rel'] != rel:
                continue
            if a['tgt'] == k and a['src'] == k2 and a['tphrase'] == ph:
                found = (ai, 0)
            if a['src'] == k and a['tgt'] == k2 and a['sphrase'] == ph:
                found = (ai, 1)
        return found

    def step(self, x, k2, rel, ph):
        k = self.kind[x]
        d = self.direct(k, k2, rel, ph)
        if d is not None:
            return list(self.partners(d[0], d[1], x))
        # two hops through an association class: k --(rel, ph)--> m --(rel, ph)--> k2
        for ai, a in enumerate(self.schema['assocs']):
            for (frm, to, side, p) in ((a['tgt'], a['src'], 0, a['tphrase']), (a['src'], a['tgt'], 1, a['sphrase'])):
                if frm == k and a['rel'] == rel and p == ph:
                    d2 = self.direct(to, k2, rel, ph)
                    if d2 is not None:
                        out = []
                        for m in self.partners(ai, side, x):
                            for y in self.partners(d2[0], d2[1], m):
                                if y not in out:
                                    out.append(y)
                        return out
        return None

    def nav(self, h, steps):
        cur = list(h)
        for (k2, rel, ph) in steps:
            nxt = []
            for x in cur:
                r = self.step(x, k2, rel, ph)
                if r is None:
                    return None
                nxt.extend(r)
            cur = nxt
        return cur


def dedup(seq):
    out = []
    for i in seq:
        if i not in out:
            out.append(i)
    return out


def expected(rel, q):
    if q[0] in ('select-many', 'select-one'):
        seq = rel.apply(list(rel.pools[q[1]]), q[2])
        return dedup(seq) if q[0] == 'select-many' else (seq[0] if seq else Sym('none'))
    if q[0] == 'subtype':
        return 'skip'
    seq = rel.nav(q[2], q[3])
    if seq is None:
        return 'skip-unknown'
    seq = rel.apply(seq, q[4])
    return dedup(seq) if q[0] == 'nav-many' else (seq[0] if seq else Sym('none'))


def _run_values(case):
    m = _x.MetaModel()
    m.define_class('V', [('X', case['type']), ('N', 'integer')])
    insts = [m.new('V', X=v, N=n) for n, v in enumerate(case['vals'])]
    fails = []
    for pv in case['probe']:
        want = [n for n, v in enumerate(case['vals']) if v == pv]
        forms = {'where_eq': lambda: m.select_many('V', _x.where_eq(X=pv)), 'dict': lambda: m.select_many('V', {'X': pv}),
                 'lambda': lambda: m.select_many('V', lambda sel: sel.X == pv),
                 'metaclass.query': lambda: m.find_metaclass('V').query({'X': pv}),
                 'navigate filter': lambda: _x.navigate_many(insts)(_x.where_eq(X=pv)),
                 'select_any': lambda: [i for i in [m.select_any('V', _x.where_eq(X=pv))] if i is not None]}
        for name, f in sorted(forms.items()):
            try:
                got = [i.N for i in f()]
            except Exception as e:
                got = 'raised %s' % type(e).__name__
            w = want[:1] if name == 'select_any' else want
            if got != w:
                fails.append({'sig': 'query-value-equality', 'what': '%s for X == %r over the %s values %r returned the instances %r, '
                              'equal are %r' % (name, pv, case['type'], case['vals'], got, w)})
    return {'obs': [], 'd_fail': fails[:3], 'nontrivial': True, 'key': 'values/%r/%r/%r' % (case['type'], case['vals'], case['probe']),
            'stats': {'fam_values': 1}, 'model_line': None}


def _stable_sorted(seq, key, descending):
    """the statement's ordering, written out: an insertion sort that moves an element only past STRICTLY greater (ascending)
    resp. strictly smaller (descending) keys, so equal keys keep their incoming order in both directions"""
    out = []
    for x in seq:
        kx, j = key(x), len(out)
        while j > 0 and ((key(out[j - 1]) < kx) if descending else (kx < key(out[j - 1]))):
            j -= 1
        out.insert(j, x)
    return out


def _ord_sql(case):
    tx, ty = case['types']
    out = ['CREATE TABLE W (Id UNIQUE_ID);', 'CREATE TABLE V (X %s, Y %s, N INTEGER, WId UNIQUE_ID);' % (tx.upper(), ty.upper()),
           'CREATE ROP REF_ID R1 FROM MC V (WId) TO 1C W (Id);', 'INSERT INTO W VALUES (7);']
    for n, row in enumerate(case['rows']):
        out.append('INSERT INTO V VALUES (%s, %s, %d, %d);' % (mc._sql_literal(row[0], tx), mc._sql_literal(row[1], ty), n,
                                                               7 if row[2] else 0))
    return '\n'.join(out) + '\n'


def _run_ordvalues(case):
    tx, ty = case['types']
    rows = case['rows']
    if case['route'] == 'sql':
        loader = _x.ModelLoader()
        loader.input(_ord_sql(case))
        m = loader.build_metamodel()
        w = m.select_any('W')
    else:
        m = _x.MetaModel()
        m.define_class('W', [('Id', 'unique_id')])
        m.define_class('V', [('X', tx), ('Y', ty), ('N', 'integer'), ('WId', 'unique_id')])
        m.define_association('R1', 'V', ['WId'], True, True, '', 'W', ['Id'], False, True, '').formalize()
        w = m.new('W', Id=7)
        for n, row in enumerate(rows):
            if case['route'] == 'new':
                v = m.new('V', X=row[0], Y=row[1], N=n)
            else:
                v = m.new('V')
                v.N, v.Y, v.X = n, row[1], row[0]
            if row[2]:
                _x.relate(v, w, 1)
    byn = {}
    for i in m.find_metaclass('V').storage:
        byn.setdefault(i.N, i)
    for n, row in enumerate(rows):
        if row[3] and n in byn:
            _x.delete(byn[n])
    live = [n for n, row in enumerate(rows) if not row[3]]
    val = lambda n, a: n if a == 'N' else rows[n][0 if a == 'X' else 1]
    fails, stats, nontrivial = [], {'fam_ordvalues': 1, 'ord_route_' + case['route']: 1}, False

    def passes(n, f):
        if f[0] == 'odd':
            return n % 2 == 1
        return (val(n, f[1]) != f[2]) if f[0] == 'ne' else (val(n, f[1]) == f[2])

    for q in case['oq']:
        form, f = q['form'], q['filt']
        # the statement, on the rows as given
        seq = [n for n in live if rows[n][2]] if form == 'assoc' else dedup(q['handle']) if form.startswith('nav') else list(live)
        if f and q['filt_first']:
            seq = [n for n in seq if passes(n, f)]
        seq = _stable_sorted(seq, lambda n: tuple(val(n, a) for a in q['attrs']), q['rev'])
        if q['then']:
            seq = _stable_sorted(seq, lambda n: tuple(val(n, a) for a in q['then'][0]), q['then'][1])
        if f and not q['filt_first']:
            seq = [n for n in seq if passes(n, f)]
        if len(set(repr(tuple(val(n, a) for a in q['attrs'])) for n in seq)) >= 2:
            nontrivial = True
        want = seq[:1] if form in ('select_any', 'select_one', 'nav_any', 'first') else seq[-1:] if form == 'last' else seq
        # the implementation
        order = (_x.reverse_order_by if q['rev'] else _x.order_by)(*q['attrs'])
        ops = [order]
        if q['then']:
            ops.append((_x.reverse_order_by if q['then'][1] else _x.order_by)(*q['then'][0]))
        if f:
            fop = (_x.where_eq(**{f[1]: f[2]}) if f[0] == 'eq' else {f[1]: f[2]} if f[0] == 'dict' else
                   (lambda sel, a=f[1], v=f[2]: getattr(sel, a) != v) if f[0] == 'ne' else (lambda sel: sel.N % 2 == 1))
            ops = [fop] + ops if q['filt_first'] else ops + [fop]
        hs = [byn[n] for n in q['handle'] if n in byn]
        handle = lambda: {'list': hs, 'qset': _x.QuerySet(hs), 'gen': (i for i in hs)}[q['hform']]
        one = lambda i: [] if i is None else [i]
        try:
            if form == 'select_many':
                res = m.select_many('V', *ops)
            elif form == 'metaclass':
                res = m.find_metaclass('V').select_many(*ops)
            elif form == 'select_any':
                res = one(m.select_any('V', *ops))
            elif form == 'select_one':
                res = one(m.select_one('V', *ops))
            elif form == 'first':
                res = one(m.select_many('V', *ops).first)
            elif form == 'last':
                res = one(m.select_many('V', *ops).last)
            elif form == 'nav_many':
                res = _x.navigate_many(handle())(*ops)
            elif form == 'nav_any':
                res = one(_x.navigate_any(handle())(*ops))
            else:
                res = _x.navigate_many(w).V[1](*ops)
            got = [i.N for i in res]
        except Exception as e:
            got = 'raised %s' % type(e).__name__
        stats['ord_' + form] = stats.get('ord_' + form, 0) + 1
        if got != want:
            fails.append({'sig': 'order-typed-values', 'what': '%s with %s%r%s%s%s returned the rows %r, the statement gives %r; rows (X: %s, '
                          'Y: %s, linked, deleted; N = position) %r, built by %s'
                          % (form, 'reverse_order_by' if q['rev'] else 'order_by', tuple(q['attrs']),
                             (' then %s%r' % ('reverse_order_by' if q['then'][1] else 'order_by', tuple(q['then'][0]))) if q['then'] else '',
                             (' %s filter %r' % ('after' if q['filt_first'] else 'before', f)) if f else '',
                             (' from the %s %r' % (q['hform'], q['handle'])) if form.startswith('nav') else '',
                             got, want, tx, ty, rows, case['route'])})
    for t in (tx, ty):
        stats['ord_type_' + t] = 1
    return {'obs': [], 'd_fail': fails[:3], 'nontrivial': nontrivial,
            'key': 'ordvalues/%r/%r/%s/%r' % (case['types'], rows, case['route'], [sorted(q.items()) for q in case['oq']]),
            'stats': stats, 'model_line': None}


def run_impl(case):
    if case.get('fam') == 'values':
        return _run_values(case)
    if case.get('fam') == 'ordvalues':
        return _run_ordvalues(case)
    schema = SHAPES[case['shape']]
    # unique identifiers over the plain attributes: the library records but never enforces them, so states
    # with duplicate identifier values are reachable and queries must still return every match
    k0 = case['prefix'] if case.get('route') == 'sql' else 0
    if k0:
        idents = [(k, nm, at) for k in range(len(schema['classes'])) for nm, at in (('I7', ['P']), ('I8', ['P', 'Q']))]
        model = mc.Model.from_sql(schema, case['ops'][:k0], idents)
    else:
        model = mc.Model(schema)
        for c in schema['classes']:
            model.m.define_unique_identifier(c['name'], 'I7', 'P')
            model.m.define_unique_identifier(c['name'], 'I8', 'P', 'Q')
    # "warm-up": on two thirds of the cases the SAME queries are also asked on earlier states of the model (half-way
    # through the history: selections only; before the attribute values are assigned: all of them) and their answers
    # thrown away — a result remembered from an earlier state must not leak into the answers on the final state
    warm = (len(case['ops']) + len(case['queries'])) % 3 != 0
    half = len(case['ops']) // 2

    def warm_up(selections_only):
        for q in case['queries']:
            if selections_only and not q[0].startswith('select'):
                continue
            try:
                run_query(model, q)
            except Exception:
                pass
    for n, op in enumerate(case['ops']):
        if warm and n == max(half, k0):
            warm_up(True)
        if n >= k0:
            model.apply(op)
    if warm:
        # other attribute values at the time of the early questions: an instance that matches a selection only LATER
        # may be created EARLIER than the one that matched when the question was first asked
        for (j, p, q) in case['attrs']:
            model.insts[j].P = (p + 1 + j) % 3
            model.insts[j].Q = (q + 2 * j) % 3
        warm_up(False)
    for (j, p, q) in case['attrs']:
        model.insts[j].P = p
        model.insts[j].Q = q
    rel = Rel(model, case)
    obs, fails = [], []
    # the pools by the statement: the live instances of each class in CREATION order (not read from the implementation)
    dead = set(op[1] for op in case['ops'] if op[0] == 'delete')
    want_pools = [[j for j in range(len(model.insts)) if rel.kind[j] == k and j not in dead]
                  for k in range(len(schema['classes']))]
    if [list(p) for p in rel.pools] != want_pools:
        fails.append({'sig': 'pool-order', 'what': 'the instance pools are %r, the live instances in creation order are %r (shape %s, '
                      'history %s)' % ([list(p) for p in rel.pools], want_pools, case['shape'], case['ops'])})
        rel.pools = want_pools
    # both construction routes: no instance keeps an own copy of a referential value, the identifiers are registered
    for (i, key, v) in model.ref_copies():
        fails.append({'sig': 'referential-copy-in-dict', 'what': 'instance %d keeps %r = %r in its own dictionary although the '
                      'attribute is referential (route %s)' % (i, key, v, case.get('route', 'api'))})
    for c, got_ids in zip(schema['classes'], model.identifiers()):
        if got_ids.get('I7') != ['P'] or got_ids.get('I8') != ['P', 'Q']:
            fails.append({'sig': 'identifier-not-registered', 'what': 'class %s has the identifiers %r, defined were I7 (P) and I8 (P, Q) '
                          '(route %s)' % (c['name'], got_ids, case.get('route', 'api'))})
    nontrivial = False
    stats = {'warmed_up': 1} if warm else {}
    if k0:
        stats['fam_loaded'] = 1
        stats['loaded_links'] = sum(1 for o in case['ops'][:k0] if o[0] == 'relate')
        stats['loaded_whole_history'] = 1 if k0 == len(case['ops']) else 0
    for q in case['queries']:
        got = run_query(model, q)
        obs.append(got)
        stats['q_' + q[0]] = stats.get('q_' + q[0], 0) + 1
        if q[0].startswith('nav') and len(set(rel.kind[j] for j in q[2])) >= 2:
            stats['nav_mixed_kinds'] = stats.get('nav_mixed_kinds', 0) + 1
        want = expected(rel, q)
        if want == 'skip':
            # navigate_subtype: the one related subtype instance, when exactly one subtype link is populated
            x, r = q[1], q[2]
            if any(a['rel'] == r and a['src'] == rel.kind[x] for a in schema['assocs']):
                continue      # x is itself on the referring (subtype / link class) side: outside the statement
            if any(a['rel'] == r and (a['sphrase'] or a['tphrase']) for a in schema['assocs']):
                continue      # an association with phrases is not a subtype/supertype association (navigate_subtype's precondition)
            subs = []
            for ai, a in enumerate(schema['assocs']):
                if a['rel'] == r and a['tgt'] == rel.kind[x] and a['tphrase'] == '':
                    subs.extend(rel.partners(ai, 0, x))
            if len(set(subs)) == 1 and got != subs[0]:
                fails.append({'sig': 'subtype', 'what': 'navigate_subtype(%d, %s) gave %r, the one related subtype instance is %d'
                              % (x, r, got, subs[0])})
            if not subs and got != Sym('none'):
                fails.append({'sig': 'subtype', 'what': 'navigate_subtype(%d, %s) gave %r although no subtype instance is related' % (x, r, got)})
            continue
        if want == 'skip-unknown':
            if got != Sym('UnknownLinkException') and q[2]:
                stats['unknown_link_disagree'] = stats.get('unknown_link_disagree', 0) + 1
            continue
        if isinstance(want, list) and len(want) >= 2:
            nontrivial = True
        if q[0].startswith('nav') and len(q[3]) >= 2 and want not in ([], Sym('none')):
            nontrivial = True
        if got != want:
            fails.append({'sig': 'query-' + q[0], 'what': 'query %s returned %r, the relational evaluation gives %r (shape %s, history of %d ops)'
                          % (q, got, want, case['shape'], len(case['ops']))})
    # the result of a selection is the caller's own collection: the pool must not change when the caller empties it, and
    # it must not grow when the model does (a selection without filter must not hand out the live instance pool)
    for k, c in enumerate(schema['classes']):
        mcls = model.m.find_metaclass(c['name'])
        before = [model.idx(i) for i in mcls.storage]
        res = model.m.select_many(c['name'])
        snapshot = [model.idx(i) for i in res]
        if snapshot != before:
            fails.append({'sig': 'query-select-all', 'what': 'select_many(%s) returned %r, the pool holds %r' % (c['name'], snapshot, before)})
        model.apply(['new', k])
        if [model.idx(i) for i in res] != snapshot:
            fails.append({'sig': 'result-aliases-pool', 'what': 'a select_many(%s) result changed from %r to %r when an instance was '
                          'created afterwards' % (c['name'], snapshot, [model.idx(i) for i in res])})
        try:
            res.clear()
        except Exception:
            pass
        if [model.idx(i) for i in mcls.storage][:len(before)] != before:
            fails.append({'sig': 'result-aliases-pool', 'what': 'emptying a select_many(%s) result changed the instance pool from %r to %r'
                          % (c['name'], before, [model.idx(i) for i in mcls.storage])})
    return {'obs': obs, 'd_fail': fails[:3], 'nontrivial': nontrivial, 'key': dumps([case['shape'], str(case['ops']), str(case['queries'])]),
            'stats': stats}


def q_sexp(q):
    def qops(ops):
        out = [Sym('qops')]
        for o in ops:
            if o[0] == 'where':
                out.append([Sym('where')] + [[a, (v if v is not None else Sym('none'))] for a, v in o[1]])
            elif o[0] == 'order':
                out.append([Sym('order'), list(o[1]), bool(o[2])])
            else:
                out.append([Sym('pred'), Sym(o[1])] + list(o[2:]))
        return out
    if q[0] in ('select-many', 'select-one'):
        return [Sym(q[0]), q[1], qops(q[2])]
    if q[0] == 'subtype':
        return [Sym('subtype'), q[1], q[2]]
    return [Sym(q[0]), list(q[2]), [Sym('steps')] + [[s[0], s[1], s[2]] for s in q[3]], qops(q[4])]


def model_line(case):
    schema = SHAPES[case['shape']]
    return dumps([Sym('query'), mc.schema_sexp(schema), [Sym('ops')] + [mc.op_sexp(o) for o in case['ops']],
                  [Sym('attrs')] + [[a[0], ['P', a[1]], ['Q', a[2]]] for a in case['attrs']],
                  [Sym('queries')] + [q_sexp(q) for q in case['queries']]])


def model_obs(case, ans):
    return ans


def shrink_candidates(case):
    if case.get('fam') == 'ordvalues':
        for i in range(len(case['oq'])):
            yield dict(case, oq=case['oq'][:i] + case['oq'][i + 1:])
        for i in range(len(case['rows']) - 1, -1, -1):          # N is the position: later rows and the handles are renumbered
            oq = [dict(q, handle=[n - (n > i) for n in q['handle'] if n != i]) for q in case['oq']]
            yield dict(case, rows=case['rows'][:i] + case['rows'][i + 1:], oq=oq)
        for i, row in enumerate(case['rows']):
            if row[2] or row[3]:
                yield dict(case, rows=case['rows'][:i] + [[row[0], row[1], False, False]] + case['rows'][i + 1:])
        for i, q in enumerate(case['oq']):
            for simpler in (dict(q, filt=None), dict(q, then=None), dict(q, attrs=q['attrs'][:-1])):
                if simpler != q and simpler['attrs'] and not (q['form'] == 'assoc' and 'N' not in simpler['attrs']):
                    yield dict(case, oq=case['oq'][:i] + [simpler] + case['oq'][i + 1:])
        if case['route'] != 'new':
            yield dict(case, route='new')
        return
    qs = case['queries']
    for i in range(len(qs)):
        c = dict(case)
        c['queries'] = qs[:i] + qs[i + 1:]
        yield c
    ops = case['ops']
    for i in range(len(ops) - 1, case.get('prefix', 0) - 1, -1):
        if ops[i][0] == 'new':
            continue
        c = dict(case)
        c['ops'] = ops[:i] + ops[i + 1:]
        yield c
