"""C04 - Interpreted OAL computes what the action language defines.

A case = a random initial population of the fixed 4-class schema (loaded as SQL text through
xtuml.ModelLoader) + a generated OAL program + keyword arguments, run through
`bridgepoint.interpret.run_function(metamodel, label, text, kwargs)`.

  reference   lean/PyxModel/Interp/Spec.lean (`Spec`): the definitional big-step interpreter over a plain relational
              state.  The program is parsed by the real `bridgepoint.oal.parse`; the syntax tree goes to the Lean driver
              as an s-expression (harness/oal_sexp.py).  `Spec` also DECIDES the domain: a program on which it reports
              an error (unset variable, type error, deleted instance used, multiplicity-violating relate, unrelate of
              unrelated instances ...) or exhausts its fuel is dropped and counted, never run.  ONE error is compared
              instead: where `Spec` ends in "division by zero" (`/` or `%` with a zero divisor) the interpreter has to
              end in an exception escaping run_function (ZeroDivisionError as it is; which exception is not part of
              the property) and not in a value.  Without the Lean driver there is no reference: `generate`
              raises (a harness error), it never yields a case without an expectation.
  D = K       the property is the equivalence with the reference: return value and final canonical population
              (instances per class in creation order with attribute values, both navigation directions of every
              association in link order, the id generator) equal `Spec`'s.  `generate` obtains `Spec`'s answer from the
              driver and stores it in the case ('expect') so that the comparison in `run_impl` yields a concrete
              failing program; the runner repeats the comparison against the driver as K.
"""
import gc

import gen_oal_prog as G
import oal_sexp
from sexp import Sym, dumps, loads

PROP = 'C04'
RULE = ('type-directed random OAL programs (quick: 2500 programs, <= 25 generated statements, nesting <= 3; thorough: 40000, '
        '<= 60, nesting <= 5) over a fixed 5-class schema (1:1, 1:M, reflexive with phrases, association class, reflexive association class with phrases) on random '
        'initial populations (0-6 instances per class, random links, loaded as SQL text) with random keyword arguments; every '
        '8th program belongs to the arithmetic family (half of its integer literals beyond 2**53, up to 2**70, both signs; '
        'attribute values and parameters likewise; `%` with dividends and divisors of either sign; 4 % of its divisors are zero, '
        'where the expected outcome is an error, not a value); elsewhere 15 % of the `%` sites take operands of either sign; programs on which the reference semantics reports an error or runs out of '
        'fuel are outside the domain and dropped (counted in the distribution; a run in which any program ran out of fuel is flagged); a case is non-trivial when the program '
        'executed a loop body or a where clause with mixed outcomes and changed the population or returned a value; '
        'distinct = distinct (program text, population); every 10th case (i % 10 == 6) is a session: 2-5 programs run one '
        'after the other on ONE metamodel under ONE label - the same program twice / a query, a change, the query again / '
        'a program that fails half way (8 kinds of failure without an effect of their own) followed by the same program '
        'without the failure and further programs; the reference runs the failing program without the failing statement, '
        'the outcome of the failing run is not compared, the return values and the population after it are; a family holds '
        'an instance set across creates / deletes inside the loop over it; a fifth of the sessions are CHURN sessions: loops '
        'that create, relate and conditionally delete, delete-all (for each / select any in a while loop), re-creation and '
        're-relating of instances of the same classes, garbage collected between the programs (a deleted instance must not '
        'be remembered by anything a new instance can share with it); a family runs one select-where statement several times in a loop while the `selected`-free operands of its clause change; a family puts break / continue into ELSE clauses '
        '(also nested: if/else inside an elif, inside an else) of while / for each bodies that have statements after the if; '
        'THE TEXT of half of all programs (sessions included) is written BARE - with only the parentheses that the language\'s operator order requires '
        '(or < and < comparisons, non-associative < additive < multiplicative < modulo < unary, equal levels group to the left: the order the '
        'action language states, written into the harness, never read from the grammar under test) - the other half with every operation in parentheses; '
        'every 8th program (i % 8 == 5) belongs to the PRECEDENCE family: assignments, an if / elif / else, a counting while loop, a select-where, '
        'a for each with an attribute write and the return value are operator mixes (random trees to depth 3 over + - * / % and unary minus, comparisons, '
        'and / or / not, == / != between booleans, over small literals, parameters, variables, the loop counter, attributes of `selected` and of the loop '
        'variable; every operator occurs as the operand of every other on both sides), 85 % of them written bare, so that the value depends on how '
        'adjacent operators of different and of equal levels group (a * b % c, a / b % c, a - b - c, a % b % c, not a == b, ...); the reference semantics '
        'gets the generated tree, the interpreter the text')
EXHAUSTIVE = {'quick': False, 'thorough': False}
ASSUMPTIONS = ['programs are type-correct, terminating and error-free (apart from division by zero, which is compared) under the reference semantics (membership decided by Spec)',
               'reals, events, index access, set operators and referential-attribute access are not generated',
               'the grouping of unparenthesised operators is the order stated by the action language (property text of C07: or, and, comparisons, additive, multiplicative, modulo, unary; left-associative, comparisons non-associative); a bare text is what that order makes of the generated tree',
               'the four classes / five CREATE ROP statements of harness/gen_oal_prog.py are the schema of every case']
TRUSTED_EXTRA = ['the reference semantics gets the program as the generator built it; bridgepoint.oal.parse parses the rendered text for the implementation only, and its tree is compared with the generator\'s on every case',
                 'observation-only wrapper around ActionWalker.accept in the scratch copy (branch / iteration statistics)']
CHUNK = 400
CASE_TIMEOUT_S = 10
BUDGET_S = {'quick': 200, 'thorough': 2400}
SEARCH_S = {'quick': 60, 'thorough': 300}
FUEL = 400
DIV_BY_ZERO = 'division by zero'        # the message of Spec's `binop` for `/` and `%` with a zero divisor

_CTX = None
_xtuml = None
_interpret = None
_oal = None
_SCHEMA_SQL = None
_TR = None


# ----------------------------------------------------------------------------------------------- setup

def setup(ctx):
    global _CTX, _xtuml, _interpret, _oal, _SCHEMA_SQL
    import xtuml
    from bridgepoint import interpret, oal
    _CTX, _xtuml, _interpret, _oal = ctx, xtuml, interpret, oal
    _SCHEMA_SQL = G.schema_sql()
    import logging
    # the programs that fail half way log what ActionWalker.accept swallows: silenced by logger NAME (the package loggers;
    # the module loggers below them inherit the level), never through a module attribute of the code under test
    for name in ('bridgepoint', 'xtuml'):
        logging.getLogger(name).setLevel(logging.CRITICAL + 1)
    install_tracer(interpret, oal)


def install_tracer(interpret, oal):
    """observation only: which conditions were evaluated to what, how often loop bodies ran"""
    if getattr(interpret.ActionWalker, '_pyxverif_traced', False):
        return
    orig = interpret.ActionWalker.accept
    cond_parents = (oal.IfNode, oal.ElIfNode, oal.WhileNode)
    where_parents = (oal.SelectFromWhereNode, oal.SelectRelatedWhereNode)
    valued = (oal.BinaryOperationNode, oal.UnaryOperationNode, oal.BooleanNode)

    def accept(self, node, **kwargs):
        tr = _TR
        if tr is None or node is None:
            return orig(self, node, **kwargs)
        name = type(node).__name__
        # the statistics are keyed by id(node): every registered node is PINNED for the life of the case, or the ids of
        # the nodes of an earlier program of a session would be reused by a later one (and a stale entry would make
        # this wrapper read a value it must not read)
        pin = tr['pin']
        if isinstance(node, cond_parents):
            tr['cond'][id(node.expression)] = name[:-4].lower()
            pin.append(node.expression)
        elif isinstance(node, where_parents):
            tr['cond'][id(node.where_clause)] = 'where'
            pin.append(node.where_clause)
        if isinstance(node, oal.BinaryOperationNode) and node.operator == '%':
            tr['modops'][id(node.left)] = 'dividend'
            tr['modops'][id(node.right)] = 'divisor'
            pin.append(node.left)
            pin.append(node.right)
        if isinstance(node, oal.ForEachNode):
            tr['loops'][id(node.block)] = 0
            pin.append(node.block)
        if isinstance(node, oal.WhileNode):
            tr['loops'][id(node.block)] = 0
            pin.append(node.block)
        if id(node) in tr['loops']:
            tr['loops'][id(node)] += 1
        tr['exec'][name] = tr['exec'].get(name, 0) + 1
        r = orig(self, node, **kwargs)
        role = tr['modops'].get(id(node))
        if role is not None and isinstance(r, property):
            # C04 programs have no derived attributes and no calls: reading an operand value twice has no effect
            v = r.fget()
            if isinstance(v, int) and not isinstance(v, bool) and v < 0:
                tr['negmod'].add(role)
        kind = tr['cond'].get(id(node))
        if kind is not None and isinstance(node, valued) and isinstance(r, property):
            tr['outcomes'].setdefault((kind, id(node)), set()).add(bool(r.fget()))
        return r

    interpret.ActionWalker.accept = accept
    interpret.ActionWalker._pyxverif_traced = True


# ----------------------------------------------------------------------------------------------- canonical forms

class _Seq(object):
    """the return values of the programs of a session"""
    def __init__(self, values):
        self.values = values


class _Ignored(object):
    """the outcome of a program that fails half way is not part of the comparison (what follows it is)"""


def blank_failed(case, canon):
    if case.get('steps') and canon and canon[0] == 'ok' and isinstance(canon[1], list) and canon[1][:1] == ['seq']:
        for k, st in enumerate(case['steps']):
            if st['fails'] and k + 1 < len(canon[1]):
                canon[1][k + 1] = ['ignored']
    return canon


def cval(v, name_of):
    """canonical value: tagged so that no two kinds can collide"""
    if v is None:
        return ['none']
    if v is True or v is False:
        return ['b', 1 if v else 0]
    if isinstance(v, int):
        return ['n', v]
    if isinstance(v, str):
        return ['s', v]
    if isinstance(v, _xtuml.Class):
        return name_of(v)
    if isinstance(v, (_xtuml.QuerySet, _xtuml.OrderedSet, list, tuple, set, frozenset)):
        return ['set'] + [cval(x, name_of) for x in v]
    return ['other', type(v).__name__]


def canon_impl(m, ret):
    names = {}
    pop = []
    anomalies = []
    for cls, attrs in G.CLASSES:
        mc = m.find_metaclass(cls)
        rows = []
        for rank, inst in enumerate(mc.storage):
            names[id(inst)] = ['i', cls, rank]
            rows.append([cval(getattr(inst, a), lambda x: ['i?']) for a, t, ref in attrs if not ref])
        pop.append([cls, rows])

    def name_of(inst):
        return names.get(id(inst)) or ['i', type(inst).__name__, 'dead']

    links = []
    for k, ass in enumerate(m.associations):
        sc = ass.target_link.from_metaclass
        tc = ass.source_link.from_metaclass
        from_s = [[name_of(t)[2] for t in ass.target_link.get(s, [])] for s in sc.storage]
        from_t = [[name_of(s)[2] for s in ass.source_link.get(t, [])] for t in tc.storage]
        for link in (ass.source_link, ass.target_link):
            for key, vals in link.items():
                if id(key) not in names or any(id(x) not in names for x in vals):
                    anomalies.append('association %d links an instance that is not in the pool' % k)
        links.append([k, from_s, from_t])
    if isinstance(ret, _Seq):
        rv = ['seq'] + [(['ignored'] if isinstance(x, _Ignored) else cval(x, name_of)) for x in ret.values]
    else:
        rv = cval(ret, name_of)
    out = ['ok', rv, m.id_generator.peek(), pop, links]
    if anomalies:
        out.append(sorted(set(anomalies)))
    return out


def _spec_val(x, rank):
    if isinstance(x, Sym):
        if x == 'T':
            return ['b', 1]
        if x == 'F':
            return ['b', 0]
        if x == 'none':
            return ['none']
        return ['other', str(x)]
    if isinstance(x, bool):
        return ['b', 1 if x else 0]
    if isinstance(x, int):
        return ['n', x]
    if isinstance(x, str):
        return ['s', x]
    if isinstance(x, list) and x and x[0] == 'i':
        return ['i', x[1], rank.get((x[1], x[2]), 'dead')]
    if isinstance(x, list) and x and x[0] == 'set':
        return ['set'] + [_spec_val(y, rank) for y in x[1:]]
    if isinstance(x, list) and x and x[0] == 'seq':
        return ['seq'] + [_spec_val(y, rank) for y in x[1:]]
    return ['other', repr(x)]


def canon_spec(ans):
    """the driver's `(ok ret (state (nextId n) (pop ...) (links ...)))` in the form of `canon_impl`"""
    if isinstance(ans, list) and len(ans) == 2 and ans[0] == 'error' and ans[1] == DIV_BY_ZERO:
        return ['raised', 'error']
    if not isinstance(ans, list) or not ans or ans[0] != 'ok':
        return ['not-ok', G_to_plain(ans)]
    ret, state = ans[1], ans[2]
    secs = {str(s[0]): s[1:] for s in state[1:]}
    rank = {}
    live = {}
    for entry in secs['pop']:
        cls = entry[0]
        live[cls] = [row[0] for row in entry[2:]]
        for r, row in enumerate(entry[2:]):
            rank[(cls, row[0])] = r
    pop = []
    for entry in secs['pop']:
        pop.append([entry[0], [[_spec_val(v, rank) for v in row[1:]] for row in entry[2:]]])
    links = []
    for entry in secs['links']:
        k = entry[0]
        rel, sc, scard, skey, sph, tc, tcard, tkey, tph = G.ASSOCS[k]
        pairs = entry[1:]
        from_s = [[rank.get((p[2], p[3]), 'dead') for p in pairs if p[0] == sc and p[1] == i] for i in live[sc]]
        from_t = [[rank.get((p[0], p[1]), 'dead') for p in pairs if p[2] == tc and p[3] == i] for i in live[tc]]
        links.append([k, from_s, from_t])
    return ['ok', _spec_val(ret, rank), secs['nextId'][0], pop, links]


def G_to_plain(x):
    if isinstance(x, Sym):
        return ':' + str(x)
    if isinstance(x, list):
        return [G_to_plain(e) for e in x]
    return x


# ----------------------------------------------------------------------------------------------- cases

def reference_tree(prog, text):
    """-> (the program as the reference semantics gets it, None or how the parser's tree differs).  The tree is built from
    the GENERATOR's program, not from a parse of its text: what the reference is asked does not pass through the
    implementation.  The parser's tree of the rendered text is compared with it (cross-check)."""
    mine = G.tree_sexp(prog)
    try:
        theirs = oal_sexp.encode(_oal.parse(text))
    except Exception as ex:      # a parser that rejects (or crashes on) the text of a program of the domain: a finding, not a harness crash
        return mine, 'bridgepoint.oal.parse raised %s: %s' % (type(ex).__name__, str(ex)[:200])
    diff = None
    if not G.same_tree(mine, theirs):
        a, b = dumps(mine), dumps(theirs)
        k = next((i for i in range(min(len(a), len(b))) if a[i].lower() != b[i].lower()), min(len(a), len(b)))
        diff = 'program tree …%s… / parsed tree …%s…' % (a[max(0, k - 60):k + 60], b[max(0, k - 60):k + 60])
    return mine, diff


# --- the text of a program: with every operation in parentheses (G.render), or BARE: only the parentheses that the
# language's precedence and associativity require.  The order is the one the action language states (the text of C07,
# independent of the `precedence` tuple of the code under test): or < and < comparisons (non-associative) < additive <
# multiplicative < modulo < unary; binary operators of one level group to the left.
LEVEL = {'or': 1, 'and': 2, '<': 3, '<=': 3, '==': 3, '!=': 3, '>=': 3, '>': 3, '+': 4, '-': 4, '|': 4,
         '*': 5, '/': 5, '&': 5, '^': 5, '%': 6}
UNARY_LEVEL = 7
NONASSOC_LEVEL = 3


def expr_level(e):
    if e[0] == 'bin':
        return LEVEL[e[1].lower()]
    if e[0] == 'un' or (e[0] == 'int' and e[1] < 0):      # a negative literal is written (and parsed) as unary minus
        return UNARY_LEVEL
    return UNARY_LEVEL + 1


def bare_expr(e, up=False, need=0):
    """the expression written with the parentheses the language requires and no others; `need`: the lowest level that
    may stand in this position without parentheses"""
    k = e[0]
    if k == 'bin':
        lv = LEVEL[e[1].lower()]
        lneed = lv + 1 if lv == NONASSOC_LEVEL else lv
        text = '%s %s %s' % (bare_expr(e[2], up, lneed), G._kw(e[1], up), bare_expr(e[3], up, lv + 1))
    elif k == 'un':
        sep = ' ' if e[1] in ('cardinality', 'empty', 'not_empty', 'not') else ''
        text = '%s%s%s' % (G._kw(e[1], up), sep, bare_expr(e[2], up, UNARY_LEVEL))
    elif k == 'attr':
        text = '%s.%s' % (bare_expr(e[1], up, UNARY_LEVEL + 1), e[2])
    else:
        text = _FULL_RENDER_EXPR(e, up)
    return '(%s)' % text if expr_level(e) < need else text


_FULL_RENDER_EXPR = G.render_expr


def render(prog, up, bare=False):
    """G.render, or the same statements with bare expressions (G.render_stmt asks the module's `render_expr` for every
    expression: it is exchanged for the duration of the call; the text is parsed back and compared with the program on
    every case - signature parsed-tree-differs-from-program)"""
    if not bare:
        return G.render(prog, up)
    G.render_expr = lambda e, up=False: bare_expr(e, up, 0)
    try:
        return G.render(prog, up)
    finally:
        G.render_expr = _FULL_RENDER_EXPR


def model_line_for(pop, prog, text, kwargs):
    tree, diff = reference_tree(prog, text)
    kw = [[n, (Sym('T') if v is True else Sym('F') if v is False else v)] for n, v in sorted(kwargs.items())]
    return dumps([Sym('interp'), FUEL, G.ctx_sexp(), G.state_sexp(pop, G.initial_next_id(pop)), tree, kw]), diff


FAIL_TAILS = [
    # (statements that are IN the domain, the statement that fails, what it is)
    ([], 'zq9 = 1 / 0;', 'division by zero'),
    ([], 'zq9 = nosuchvar9;', 'unknown variable'),
    ([['create', 'qa9', 'A'], ['create', 'qb8', 'B'], ['create', 'qb9', 'B'], ['relate', 'qb8', 'qa9', 'R1', '']],
     'relate qb9 to qa9 across R1;', 'relate rejected by the multiplicity'),
    ([['create', 'qa9', 'A'], ['create', 'qb9', 'B']], 'relate qa9 to qb9 across R9;', 'unknown association'),
    ([['create', 'qa9', 'A'], ['delete', 'qa9']], 'delete object instance qa9;', 'second delete'),
    ([['create', 'qa9', 'A'], ['create', 'qb9', 'B']], 'unrelate qb9 from qa9 across R1;', 'unrelate of unrelated instances'),
    ([['create', 'qa9', 'A']], 'zq9 = qa9.nosuchattr;', 'unknown attribute'),
    ([['select_from', 'any', 'qx9', 'X', ['bin', '==', ['attr', ['selected'], 'n'], ['int', 987654]]]], 'zq9 = qx9.n;',
     'attribute read through an empty handle'),
]


def with_tail(prog, up, tail, bare=False):
    """-> (text the reference semantics runs, text the interpreter runs): the statements of the tail that are in the
    domain are inserted before the final return of the program, the failing statement after them - it has no effect on
    the population, so the state the reference semantics reaches WITHOUT it is the state the interpreter has to leave"""
    pre, fail, _ = tail
    body, last = (prog[:-1], prog[-1:]) if prog and prog[-1][0] == 'return' else (prog, [])
    head = render(body + pre, up, bare)
    end = render(last, up, bare)
    return head + end, head + fail + '\n' + end


def make_session(ident, pop, steps, up, bare=False):
    """steps: [(prog, kwargs, tail or None)] run one after the other on ONE metamodel under ONE label"""
    wire, impl, diffs = [], [], []
    for prog, kwargs, tail in steps:
        if tail is None:
            ref_prog, ref_text = prog, render(prog, up, bare)
            py_text = ref_text
        else:
            ref_text, py_text = with_tail(prog, up, tail, bare)
            body, last = (prog[:-1], prog[-1:]) if prog and prog[-1][0] == 'return' else (prog, [])
            ref_prog = body + tail[0] + last
        tree, diff = reference_tree(ref_prog, ref_text)
        if diff:
            diffs.append(diff)
        kw = [[n, (Sym('T') if v is True else Sym('F') if v is False else v)] for n, v in sorted(kwargs.items())]
        wire.append([tree, kw])
        impl.append({'text': py_text, 'kwargs': kwargs, 'fails': tail[2] if tail else None})
    line = dumps([Sym('interp-seq'), FUEL, G.ctx_sexp(), G.state_sexp(pop, G.initial_next_id(pop))] + wire)
    text = '\n-- next program, same metamodel --\n'.join(
        ('-- fails half way: %s\n' % st['fails'] if st['fails'] else '') + st['text'] for st in impl)
    return {'id': ident, 'pop': pop, 'prog': [st for p, _, _ in steps for st in p], 'progs': [p for p, _, _ in steps],
            'steps': impl, 'steps_src': [[p, kw, (list(t) if t else None)] for p, kw, t in steps], 'text': text, 'kwargs': steps[0][1], 'up': up, 'bare': bool(bare), 'line': line, 'expect': None,
            'parse_differs': diffs[0] if diffs else None}


def make_case(ident, pop, prog, kwargs, up, bare=False):
    text = render(prog, up, bare)
    line, diff = model_line_for(pop, prog, text, kwargs)
    return {'id': ident, 'pop': pop, 'prog': prog, 'text': text, 'kwargs': kwargs, 'up': up, 'bare': bool(bare),
            'line': line, 'expect': None, 'parse_differs': diff}


def attach_expectations(ctx, cases):
    """ask the reference semantics; keep the cases of the domain"""
    if ctx.lean is None or ctx.lean.driver is None:
        raise RuntimeError('C04 needs the Lean driver: the reference semantics decides the domain and supplies the expected '
                           'outcome of every case; without it nothing would be checked')
    answers = ctx.lean.run_driver([c['line'] for c in cases])
    for c, a in zip(cases, answers):
        ans = loads(a)
        if isinstance(ans, list) and ans and ans[0] == 'ok':
            c['expect'] = blank_failed(c, canon_spec(ans))
            yield c
        elif isinstance(ans, list) and len(ans) == 2 and ans[0] == 'error' and ans[1] == DIV_BY_ZERO and not c.get('steps'):
            c['expect'] = canon_spec(ans)
            ctx.count('expected_division_by_zero_error')
            yield c
        elif isinstance(ans, list) and ans and ans[0] == 'error':
            ctx.count('dropped_outside_domain')
            ctx.count('dropped: ' + str(ans[1])[:60])
        elif isinstance(ans, list) and ans and ans[0] == 'timeout':
            ctx.count('dropped_out_of_fuel')
        else:
            raise RuntimeError('driver could not decode the case: %s\n%s' % (a[:200], c['text']))


# ----------------------------------------------------------------------------------------------- the precedence family

PREC_LITS = [1, 2, 3, 4, 5, 6, 7, 9, 12, 17, 20]


def prec_int(r, depth, leaves, divisor=False):
    """an integer expression TREE over + - * / % and unary minus in which every operator may be the operand of every
    other on either side (what the text needs parentheses for is the renderer's matter); divisors are mostly non-zero
    literals, where a divisor is a sub-expression that happens to be zero the reference semantics says so"""
    if depth <= 0 or r.random() < 0.22:
        if divisor or not leaves or r.random() < 0.4:
            return ['int', r.choice(PREC_LITS)]
        return r.choice(leaves)
    if r.random() < 0.08:
        return ['un', '-', prec_int(r, depth - 1, leaves)]
    op = r.choice(['+', '-', '*', '*', '/', '/', '%', '%'])
    left = prec_int(r, depth - 1, leaves)
    if op in ('/', '%'):
        right = prec_int(r, depth - 1 if r.random() < 0.2 else 0, leaves, divisor=True)
    else:
        right = prec_int(r, depth - 1, leaves)
    return ['bin', op, left, right]


def prec_bool(r, depth, ints, bools=()):
    """a boolean TREE: comparisons of integer trees, and / or / not, == / != between booleans"""
    c = r.random()
    if depth <= 0 or c < 0.45:
        if bools and r.random() < 0.15:
            return r.choice(list(bools))
        return ['bin', r.choice(['<', '<=', '==', '!=', '>=', '>']), prec_int(r, 2, ints), prec_int(r, r.randint(0, 2), ints)]
    if c < 0.58:
        return ['un', 'not', prec_bool(r, depth - 1, ints, bools)]
    if c < 0.68:
        return ['bin', r.choice(['==', '!=']), prec_bool(r, depth - 1, ints, bools), prec_bool(r, depth - 1, ints, bools)]
    return ['bin', r.choice(['and', 'or']), prec_bool(r, depth - 1, ints, bools), prec_bool(r, depth - 1, ints, bools)]


def prec_program(r, params):
    """assignments, an if / elif / else, a counting while loop, a select-where, a for each with an attribute write and a
    return whose expressions are operator mixes (prec_int / prec_bool) over literals, parameters, variables, the loop
    counter and attributes of `selected` / the loop variable"""
    var = lambda n: ['var', n]
    ints = [['param', n] for n, t in params if t == 'integer']
    bools = [['param', n] for n, t in params if t == 'boolean']
    prog, names = [], []
    for j in range(r.randint(2, 4)):
        prog.append(['assign', 'zp%d' % j, prec_int(r, r.randint(2, 3), ints + [var(n) for n in names])])
        names.append('zp%d' % j)
    vs = ints + [var(n) for n in names]
    tgt = r.choice(names)
    prog.append(['if', prec_bool(r, 2, vs, bools), [['assign', tgt, prec_int(r, 2, vs)]],
                 [(prec_bool(r, 2, vs, bools), [['assign', tgt, prec_int(r, 2, vs)]])] if r.random() < 0.5 else [],
                 [['assign', tgt, prec_int(r, 2, vs)]] if r.random() < 0.6 else None])
    prog += [['assign', 'zi', ['int', 0]], ['assign', 'zacc', ['int', 0]],
             ['while', ['bin', '<', var('zi'), ['int', r.randint(3, 6)]],
              [['assign', 'zi', ['bin', '+', var('zi'), ['int', 1]]],
               ['if', prec_bool(r, 1, vs + [var('zi'), var('zi')], bools),
                [['assign', 'zacc', ['bin', '+', var('zacc'), prec_int(r, 2, vs + [var('zi'), var('zi')])]]], [], None]]]]
    cls = r.choice(['A', 'A', 'B', 'X'])
    sel = ['attr', ['selected'], 'n']
    prog.append(['select_from', 'many', 'zs', cls, prec_bool(r, 1, vs + [sel, sel, sel], bools)])
    body = [['assign', 'zacc', ['bin', '+', var('zacc'), prec_int(r, 2, [['attr', var('ze'), 'n'], var('zi')])]]]
    if r.random() < 0.5:
        body.append(['setattr', var('ze'), 'n', prec_int(r, 2, [['attr', var('ze'), 'n']] + vs)])
    prog.append(['foreach', 'ze', 'zs', body])
    prog.append(['return', prec_int(r, 3, [var('zacc'), var('zacc'), ['un', 'cardinality', var('zs')]] + vs)])
    return prog


def generate(ctx, arithmetic_only=False, precedence_only=False):
    n = ctx.pick(2500, 40000)
    max_stmts = ctx.pick(25, 60)
    max_depth = ctx.pick(3, 5)
    batch = []
    for i in range(n):
        if ctx.out_of_time():
            break
        r = ctx.rng.fork('case', i)
        pop = G.gen_population(r.fork('pop'), max_per_class=ctx.pick(4, 5))
        params, kwargs = G.gen_kwargs(r.fork('kw'))
        # the arithmetic family: every 8th program draws half of its integer literals beyond 2**53 (up to ~2**70,
        # both signs), where float-based shortcuts stop being exact
        arith = arithmetic_only or i % 8 == 3
        if arith and 'p' in kwargs and r.random() < 0.5:
            kwargs['p'] = r.choice(G.BIG_INTS)
        g = G.ProgGen(r.fork('prog'), max_stmts=r.randint(4, max_stmts), max_depth=r.randint(1, max_depth), params=params,
                      big_ints=0.5 if arith else 0.04, neg_mod=0.8 if arith else 0.15, zero_div=0.04 if arith else 0.0)
        prog = g.gen_program()
        # the text: half of the programs are written BARE (only the parentheses the language requires), the others with
        # every operation in parentheses
        bare = r.fork('paren').random() < 0.5
        # the precedence family: every 8th program is built from operator mixes and mostly written bare
        prec = (precedence_only or i % 8 == 5) and not arithmetic_only
        if prec:
            rp = r.fork('prec')
            prog = prec_program(rp, params)
            bare = rp.random() < 0.85
            ctx.count('generated_precedence_family')
        ctx.count('generated')
        ctx.count('generated_written_bare' if bare else 'generated_written_with_all_parentheses')
        if arith:
            ctx.count('generated_arithmetic_family')
        if g.snapshot_done and not prec:
            ctx.count('generated_with_held_set_across_create_delete')
        if i % 10 == 6 and not arithmetic_only and not precedence_only:
            # a SESSION: several programs on one metamodel, under one label (patterns: the same question twice with a
            # change in between; a program that fails half way followed by further programs on the same metamodel)
            steps, kind = gen_session(r.fork('session'), prog, params, kwargs, max_stmts, max_depth)
            ctx.count('generated_session_' + kind)
            try:
                batch.append(make_session(i, pop, steps, g.uppercase, bare))
            except Exception as ex:      # the inserted tail made the text unparsable for the real parser: a harness matter
                raise RuntimeError('session %d does not parse: %s' % (i, ex))
        else:
            batch.append(make_case(i, pop, prog, kwargs, g.uppercase, bare))
        if len(batch) >= 200:
            yield from attach_expectations(ctx, batch)
            batch = []
    if batch:
        yield from attach_expectations(ctx, batch)
    flag_out_of_fuel(ctx)


def flag_out_of_fuel(ctx):
    """generated programs terminate by construction: one that exhausts the fuel of the reference semantics was NOT checked, and
    says that FUEL (or the generator's growth control) needs attention; the run is flagged, visibly"""
    n = ctx.stats.get('dropped_out_of_fuel', 0)
    if n:
        ctx.stats['FLAG_unchecked_out_of_fuel (FUEL=%d too small or a generated program does not terminate)' % FUEL] = n
        import sys
        sys.stderr.write('%s: FLAG: %d generated programs exhausted FUEL=%d under the reference semantics and were not checked\n'
                         % (PROP, n, FUEL))


def churn_session(r, prog, kwargs):
    """create / relate / DELETE / create again: instances are deleted, the last reference to them is dropped (variables
    rebound in a loop, programs ended; the harness collects garbage between the programs and returns integers only), and
    further instances of the SAME class are created and related.  Nothing may remember a deleted instance by anything a
    new instance can share with it (its address, the position in a pool): every later relate has to be accepted and every
    link has to be there at the end."""
    var, num = (lambda n: ['var', n]), (lambda n: ['int', n])
    rel, src, tgt = r.choice([('R1', 'B', 'A'), ('R2', 'B', 'A'), ('R1', 'B', 'A')])

    def counts():
        return [['select_from', 'many', 'qas', 'A', None], ['select_from', 'many', 'qbs', 'B', None],
                ['return', ['bin', '+', ['bin', '*', ['un', 'cardinality', var('qas')], num(100)], ['un', 'cardinality', var('qbs')]]]]

    def loop(n, victim, parity):
        # a loop that creates, relates and conditionally deletes: the variables are rebound in every round
        body = [['create', 'qa', 'A'], ['create', 'qb', 'B'], ['relate', 'qb', 'qa', rel, ''],
                ['if', ['bin', '==', ['bin', '%', var('qi'), num(2)], num(parity)], [['delete', victim]], [], None],
                ['assign', 'qi', ['bin', '+', var('qi'), num(1)]]]
        return [['assign', 'qi', num(0)], ['while', ['bin', '<', var('qi'), num(n)], body]] + counts()

    def wipe(cls, how):
        if how == 'foreach':
            return [['select_from', 'many', 'qxs', cls, None], ['foreach', 'qx', 'qxs', [['delete', 'qx']]]] + counts()
        # delete all via `select any` in a while loop
        return [['select_from', 'any', 'qx', cls, None],
                ['while', ['un', 'not_empty', var('qx')], [['delete', 'qx'], ['select_from', 'any', 'qx', cls, None]]]] + counts()

    def fill(n):
        out = []
        for j in range(n):
            out += [['create', 'qa%d' % j, 'A'], ['create', 'qb%d' % j, 'B'], ['relate', 'qb%d' % j, 'qa%d' % j, rel, ''],
                    ['setattr', var('qa%d' % j), 'n', num(40 + j)]]
        return out + counts()

    steps = [loop(r.randint(3, 6), r.choice(['qa', 'qb']), r.randint(0, 1)),
             wipe(r.choice(['A', 'B']), r.choice(['foreach', 'while'])),
             fill(r.randint(2, 4)),
             wipe(r.choice(['A', 'B']), r.choice(['foreach', 'while'])),
             loop(r.randint(3, 6), r.choice(['qa', 'qb']), r.randint(0, 1)),
             fill(r.randint(2, 4))]
    if r.random() < 0.5:
        steps = steps[r.randint(0, 2):]
    return [(p, kwargs, None) for p in steps] + [(prog, kwargs, None)]


def gen_session(r, prog, params, kwargs, max_stmts, max_depth):
    """-> ([(program, kwargs, failing tail or None)], kind)"""
    def another(tag, mutate=True, stmts=None):
        g = G.ProgGen(r.fork(tag), max_stmts=stmts or r.randint(3, max(4, max_stmts // 2)), max_depth=r.randint(1, max_depth),
                      params=params, allow_mutation=mutate, allow_delete=mutate)
        return g.gen_program()
    k = r.random()
    if k < 0.2:
        return churn_session(r, prog, kwargs), 'churn'
    k = (k - 0.2) / 0.8
    if k < 0.25:
        # the same program twice: its creates / deletes / relates change what its selects see the second time
        return [(prog, kwargs, None), (prog, kwargs, None)], 'same_twice'
    if k < 0.5:
        # a query, a change, the same query again (and the change again)
        q = another('query', mutate=False)
        return [(q, kwargs, None), (prog, kwargs, None), (q, kwargs, None), (prog, kwargs, None), (q, kwargs, None)], 'query_change_query'
    tail = r.choice(FAIL_TAILS)
    if k < 0.75:
        # a program that fails half way, then the same program without the failure, then a query
        q = another('query', mutate=False)
        return [(prog, kwargs, tail), (prog, kwargs, None), (q, kwargs, None)], 'fails_then_same'
    # two failures of different kinds around an ordinary program
    tail2 = r.choice(FAIL_TAILS)
    p2 = another('second')
    return [(p2, kwargs, tail), (prog, kwargs, None), (p2, kwargs, tail2), (prog, kwargs, None)], 'fails_between'


def case_from_json(c):
    return c


class _Raised(object):
    pass


def run_impl(case):
    global _TR
    loader = _xtuml.ModelLoader()
    loader.input(_SCHEMA_SQL + G.population_sql(case['pop']), 'case')
    m = loader.build_metamodel(_xtuml.IntegerGenerator())
    before = sum(len(m.find_metaclass(c).storage) for c, _ in G.CLASSES)
    tr = {'cond': {}, 'loops': {}, 'exec': {}, 'outcomes': {}, 'modops': {}, 'negmod': set(), 'pin': []}
    _TR = tr
    raised = None
    label = 'case%s' % case.get('id')
    try:
        if case.get('steps'):
            values = []
            for st in case['steps']:
                # nothing of an earlier program may be kept alive by the harness: what a program deleted and no longer
                # refers to is gone before the next program runs
                gc.collect()
                try:
                    v = _interpret.run_function(m, label, st['text'], dict(st['kwargs']))
                except Exception:
                    if not st['fails']:
                        raise
                    v = None
                values.append(_Ignored() if st['fails'] else v)
            ret = _Seq(values)
        else:
            ret = _interpret.run_function(m, label, case['text'], dict(case['kwargs']))
    except Exception as ex:        # a program of the domain must not raise: a finding, reported with the program
        raised = '%s: %s' % (type(ex).__name__, str(ex)[:200])
        ret = _Raised()
    finally:
        _TR = None
    obs = canon_impl(m, ret)
    fails = []
    exp = case.get('expect')
    if exp is None:
        raise RuntimeError('case %r carries no expectation of the reference semantics' % (case.get('id'),))
    # a BARE text that the parser groups differently is not a failure by itself (the property is about what the execution
    # returns and leaves; how texts group is C07): it is counted, and quoted with every difference of the outcome
    regrouped = ''
    if case.get('parse_differs') and case.get('bare'):
        regrouped = '\nthe parser groups the operators of this text differently from the language\'s order: %s' % case['parse_differs']
    if case.get('parse_differs') and not case.get('bare'):
        fails.append({'sig': 'parsed-tree-differs-from-program',
                      'what': 'bridgepoint.oal.parse reads the text differently from the program it was rendered from: %s\nprogram:\n%s'
                              % (case['parse_differs'], case['text'])})
    # a `%` evaluated with a negative operand: a difference in such a run carries its own signature (the remainder
    # convention), so that it can be told from every other difference
    negmod = bool(tr['negmod'])
    if raised is not None:
        # where the language defines an error (a zero divisor) any exception escaping run_function is that error: the
        # property says nothing about which exception it is
        obs = ['raised', 'error' if exp[0] == 'raised' else raised.split(':')[0]]
        if obs != exp:
            fails.append({'sig': 'exception:' + raised.split(':')[0],
                          'what': 'the interpreter raised %s; the language defines the result %r\nprogram:\n%s\nkwargs: %r\npopulation: %r%s' % (
                              raised, exp[1], case['text'], case['kwargs'], case['pop'], regrouped)})
    elif exp[0] == 'raised':
        fails.append({'sig': 'differs-from-spec:no-error',
                      'what': 'returned %r; the language defines no value: %s\nprogram:\n%s\nkwargs: %r\npopulation: %r%s' % (
                          obs[1], exp[1], case['text'], case['kwargs'], case['pop'], regrouped)})
    elif obs != exp:
        comp = 'shape'
        what = ''
        if len(obs) != len(exp):
            comp, what = 'dangling-links', 'links to instances outside the pool: %r' % (obs[5:],)
        elif obs[1] != exp[1]:
            comp, what = 'return-value', 'returned %r, the language defines %r' % (obs[1], exp[1])
        elif obs[3] != exp[3]:
            for (c, rows), (_, erows) in zip(obs[3], exp[3]):
                if rows != erows:
                    comp, what = 'instances', 'class %s ends as %r, the language defines %r' % (c, rows, erows)
                    break
        elif obs[4] != exp[4]:
            for lk, elk in zip(obs[4], exp[4]):
                if lk != elk:
                    comp = 'links'
                    what = 'association #%d (%s) ends as source->targets %r / target->sources %r, the language defines %r / %r' % (
                        lk[0], G.ASSOCS[lk[0]][0], lk[1], lk[2], elk[1], elk[2])
                    break
        elif obs[2] != exp[2]:
            comp, what = 'id-generator', 'next id %r, expected %r' % (obs[2], exp[2])
        sig = 'differs-from-spec:' + comp
        if negmod and comp != 'dangling-links' and not regrouped:
            sig = 'mod-negative-operand'
            what = 'a `%%` was evaluated with a negative %s; %s' % (' and a negative '.join(sorted(tr['negmod'])), what)
        fails.append({'sig': sig,
                      'what': '%s\nprogram:\n%s\nkwargs: %r\npopulation: %r%s' % (what, case['text'], case['kwargs'], case['pop'], regrouped)})
    stats = G.count_kinds(case['prog'])
    stats = {k: v for k, v in stats.items() if k != 'max_depth'}
    stats['depth_%d' % G.count_kinds(case['prog'])['max_depth']] = 1
    nconds = 0
    for kind, e in G.conditions(case['prog']):
        nconds += 1
        if G.expr_is_literal(e):
            stats['cond_literal_only_' + kind] = stats.get('cond_literal_only_' + kind, 0) + 1
    stats['cond_sites'] = nconds
    if case.get('steps'):
        stats['session'] = 1
        stats['session_programs'] = len(case['steps'])
        stats['session_programs_failing_half_way'] = sum(1 for st in case['steps'] if st['fails'])
    if negmod:
        stats['mod_with_negative_operand'] = 1
    if case.get('bare'):
        stats['text_written_bare'] = 1
        if regrouped:
            stats['bare_text_grouped_differently_by_the_parser'] = 1
    if exp[0] == 'raised':
        stats['ends_in_division_by_zero_error'] = 1
        if raised is not None:
            stats['division_by_zero_raises_' + raised.split(':')[0]] = 1
    reached = 0
    mixed_where = False
    for (kind, _), outs in tr['outcomes'].items():
        reached += 1
        tag = 'both' if len(outs) == 2 else ('true_only' if True in outs else 'false_only')
        stats['cond_%s_%s' % (kind, tag)] = stats.get('cond_%s_%s' % (kind, tag), 0) + 1
        if kind == 'where' and len(outs) == 2:
            mixed_where = True
    stats['cond_sites_evaluated'] = reached
    looped = False
    for _, cnt in tr['loops'].items():
        tag = '0' if cnt == 0 else '1' if cnt == 1 else '2+'
        stats['loop_body_runs_' + tag] = stats.get('loop_body_runs_' + tag, 0) + 1
        looped = looped or cnt > 0
    for name, cnt in tr['exec'].items():
        if name.endswith('Node') and name not in ('BodyNode', 'BlockNode', 'StatementListNode'):
            stats['exec_' + name] = cnt
    after = sum(len(m.find_metaclass(c).storage) for c, _ in G.CLASSES)
    nontrivial = (looped or mixed_where) and (ret is not None or after != before)
    return {'obs': obs, 'd_fail': fails, 'nontrivial': bool(nontrivial),
            'key': '%s|%r' % (case['text'], case['pop']), 'stats': stats}


def model_line(case):
    return case['line']


def model_obs(case, ans):
    return blank_failed(case, canon_spec(ans))


def shrink_candidates(case):
    """smaller programs / populations that the reference semantics still accepts"""
    ctx = _CTX
    if ctx is None or ctx.lean is None or ctx.lean.driver is None:
        return

    class _Quiet0(object):
        lean = ctx.lean

        def count(self, *a, **k):
            pass
    if case.get('steps'):
        # a session: drop one program at a time, then a failing tail
        src = case['steps_src']
        cands = []
        for k in range(len(src)):
            if len(src) > 1:
                cands.append(src[:k] + src[k + 1:])
            if src[k][2] is not None:
                cands.append(src[:k] + [[src[k][0], src[k][1], None]] + src[k + 1:])
        cases = []
        for steps in cands:
            try:
                cases.append(make_session(case.get('id'), case['pop'], [(p, kw, (tuple(t) if t else None)) for p, kw, t in steps],
                                          case.get('up', False), case.get('bare', False)))
            except Exception:
                continue
        for c in attach_expectations(_Quiet0(), cases):
            yield c
        return
    cands = []
    for prog in G.shrink_programs(case['prog']):
        if prog:
            cands.append((case['pop'], prog))
    pop = case['pop']
    for cls, _ in G.CLASSES:
        rows = pop['inst'][cls]
        if rows:
            # drop the last instance of a class together with its links
            idx = len(rows) - 1
            inst = dict(pop['inst'])
            inst[cls] = rows[:-1]
            links = []
            for k, (rel, sc, scard, skey, sph, tc, tcard, tkey, tph) in enumerate(G.ASSOCS):
                links.append([p for p in pop['links'][k] if not ((sc == cls and p[0] == idx) or (tc == cls and p[1] == idx))])
            cands.append(({'inst': inst, 'links': links}, case['prog']))
    for k in range(len(G.ASSOCS)):
        if pop['links'][k]:
            links = [list(l) for l in pop['links']]
            links[k] = links[k][:-1]
            cands.append(({'inst': pop['inst'], 'links': links}, case['prog']))
    cases = []
    for p, prog in cands[:60]:
        try:
            cases.append(make_case(case.get('id'), p, prog, case['kwargs'], case.get('up', False), case.get('bare', False)))
        except Exception:
            continue

    class _Quiet(object):
        lean = ctx.lean

        def count(self, *a, **k):
            pass
    for c in attach_expectations(_Quiet(), cases):
        yield c


def search(ctx, broken):
    """targeted search when an obligation is broken: a changed grammar asks for the precedence family (operator mixes
    written with the parentheses the language requires only), a changed operator table / `divide` for the arithmetic
    family (big operands, both signs); anything else for the general family with larger programs"""
    text = ' '.join(str(b) for b in (broken or []))
    if 'oal.py' in text or 'OALParser' in text or 'C07' in text or 'precedence' in text:
        # the grammar / its precedence table changed: programs whose text relies on the language's operator order
        yield from generate(ctx, precedence_only=True)
    if 'C04' in text or 'InterpOps' in text or 'ops_table' in text or 'translator' in text:
        yield from generate(ctx, arithmetic_only=True)
    yield from generate(ctx)
