"""Generators of OAL *text* (shared; owned by the C13/C08 checks, other checks may import it).

The programs are produced by WRITING TOKENS: a `Prog` is a list of `Tk` (kind, lexeme, role) plus a tree of
expected nodes `En` that refer to token indexes (first token, last token of the node as the grammar of
bridgepoint/oal.py builds it).  `layout()` then places the tokens into a text with random separators
(blanks, tabs, '\\r', newlines, block comments with newlines, line comments) while keeping its OWN line and
column counters, so every token's offset / line / column is known without asking the code under test.

  gen_program(rng, ...)        random program over most statement / expression productions (syntax only)
  layout(rng, prog, style)     -> Placed(text, offsets, lines, cols, ...)
  expected_sexp(placed, ...)   the tree in harness/oal_sexp.py's format with the positions the property demands
  respell(rng, prog, mode)     per-keyword letter-case re-spelling (C08); same token lengths
  random_tokens / mutate / arbitrary_string / adversarial     totality streams (C13)
  ply_tokens(text)             the token stream of the real lexer (kind, lexeme, lexpos, endlexpos, lineno, endlineno)
"""
from sexp import Sym, NONE

KEYWORDS = ('ASSIGN ASSIGNER BREAK BRIDGE SEND CONTROL STOP CONTINUE CREATE EVENT INSTANCE OF OBJECT DELETE FOR EACH '
            'IN GENERATE IF ELIF ELSE RELATE TO ACROSS USING RETURN SELECT ONE ANY MANY TRANSFORM UNRELATE FROM WHILE '
            'CLASS CREATOR RELATED BY INSTANCES WHERE CARDINALITY EMPTY FALSE NOT NOT_EMPTY TRUE AND OR PARAM RCVD_EVT '
            'SELF SELECTED LOOP THEN').split()
KWSET = set(KEYWORDS)

PUNCT = {'SEMICOLON': ';', 'EQUAL': '=', 'DOT': '.', 'DOUBLECOLON': '::', 'LPAREN': '(', 'RPAREN': ')', 'TIMES': '*',
         'COLON': ':', 'COMMA': ',', 'ARROW': '->', 'LSQBR': '[', 'RSQBR': ']', 'QMARK': '?', 'DOUBLEEQUAL': '==',
         'NOTEQUAL': '!=', 'LESSTHAN': '<', 'LE': '<=', 'GT': '>', 'GE': '>=', 'PLUS': '+', 'MINUS': '-', 'PIPE': '|',
         'DIV': '/', 'MOD': '%', 'AMP': '&', 'CARET': '^'}
WORDLIKE = KWSET | {'ID', 'NUMBER', 'FRACTION', 'END_IF', 'END_FOR', 'END_WHILE', 'NAMESPACE'}

# statement / expression node classes of bridgepoint/oal.py: the nodes whose positions the property speaks about.
STATEMENT_NODES = {
    'BreakNode', 'ContinueNode', 'ControlNode', 'ReturnNode', 'AssignmentNode', 'InvocationStatementNode',
    'GeneratePortEventNode', 'GenerateClassEventNode', 'GenerateCreatorEventNode', 'GenerateInstanceEventNode',
    'CreateClassEventNode', 'CreateCreatorEventNode', 'CreateInstanceEventNode', 'GeneratePreexistingNode',
    'CreateObjectNode', 'CreateObjectNoVariableNode', 'DeleteNode', 'ForEachNode', 'WhileNode', 'IfNode',
    'ElIfNode', 'ElseNode', 'RelateNode', 'RelateUsingNode', 'UnrelateNode', 'UnrelateUsingNode',
    'SelectFromNode', 'SelectFromWhereNode', 'SelectRelatedNode', 'SelectRelatedWhereNode'}
EXPRESSION_NODES = {
    'IntegerNode', 'RealNode', 'StringNode', 'BooleanNode', 'EnumOrNamedConstantNode', 'VariableAccessNode',
    'FieldAccessNode', 'IndexAccessNode', 'ParamAccessNode', 'SelfAccessNode', 'SelectedAccessNode',
    'UnaryOperationNode', 'BinaryOperationNode', 'ImplicitInvocationNode', 'FunctionInvocationNode',
    'InstanceInvocationNode', 'BridgeInvocationNode', 'ClassInvocationNode', 'PortInvocationNode'}
CHECKED = STATEMENT_NODES | EXPRESSION_NODES
LIST_NODES = {'StatementListNode', 'ElIfListNode', 'NavigationListNode', 'ParameterListNode', 'EventDataListNode'}


class Tk(object):
    __slots__ = ('kind', 'lexeme', 'role', 'glue')

    def __init__(self, kind, lexeme, role='', glue=False):
        self.kind = kind        # PLY token type
        self.lexeme = lexeme
        self.role = role        # 'kw' = keyword in keyword role (may be re-spelled), 'end' = END_* token
        self.glue = glue        # must follow the previous token without separator (NAMESPACE + '::')


class En(object):
    """expected node: class name, ordered fields (str / None / En / list of En), token span"""
    __slots__ = ('cls', 'fields', 'first', 'last', 'flag')

    def __init__(self, cls, fields, first=None, last=None, flag=''):
        self.cls = cls
        self.fields = fields
        self.first = first
        self.last = last
        self.flag = flag


class Prog(object):
    def __init__(self):
        self.toks = []
        self.root = None
        self.stats = {}

    def count(self, k):
        self.stats[k] = self.stats.get(k, 0) + 1


# --------------------------------------------------------------------------------------- program generator

VARS = ['a', 'b', 'c1', 'x', 'y_2', 'cnt', 'inst', 'tmp', 'v', 'w9', 'res_', 'Foo', 'i', 'n', 'k_k']
SETS = ['as', 'bs', 'items', 'xs', 'set1']
KLS = ['A', 'B', 'C', 'KL', 'A_B', 'OBJ1']
ATTRS = ['Id', 'N', 'name', 'val', 'Flag', 'x1']
ENUMERATORS = ATTRS + ['Red', 'MAX']
# kw_as_identifier_1..4 (grammar `identifier`): attribute / parameter / enumerator names
KW_AS_NAME = ['across', 'any', 'assign', 'assigner', 'break', 'by', 'class', 'continue', 'control', 'create',
              'creator', 'delete', 'each', 'event', 'for', 'from', 'generate', 'in', 'instances', 'instance', 'many',
              'object', 'one', 'related', 'relate', 'select', 'stop', 'to', 'where', 'unrelate', 'using',
              'bridge', 'cardinality', 'empty', 'false', 'not', 'not_empty', 'send', 'transform', 'true', 'of',
              'param', 'rcvd_evt', 'selected', 'self', 'and', 'elif', 'else', 'if', 'or', 'return', 'while']
# kw_as_identifier_1 words that start no statement (grammar `limited_identifier`): variable names
KW_AS_VARIABLE = ['across', 'any', 'assigner', 'by', 'class', 'creator', 'each', 'event', 'from', 'in', 'instances',
                  'instance', 'many', 'object', 'one', 'related', 'to', 'where', 'using']
NSS = ['LOG', 'TIM', 'ARCH', 'E1', 'Color', 'ns_1']
FUNS = ['f', 'g', 'Get', 'LogInfo', 'do_it', 'op1']
PARAMS = ['p', 'message', 'n', 'x', 'value']
EVTS = ['E1', 'A1', 'Ev', 'done']
BINOPS = [('PLUS', '+'), ('MINUS', '-'), ('TIMES', '*'), ('DIV', '/'), ('MOD', '%'), ('PIPE', '|'), ('AMP', '&'),
          ('CARET', '^'), ('LESSTHAN', '<'), ('LE', '<='), ('DOUBLEEQUAL', '=='), ('NOTEQUAL', '!='), ('GE', '>='),
          ('GT', '>'), ('AND', 'and'), ('OR', 'or')]
PREC = {'OR': 1, 'AND': 2, 'LESSTHAN': 3, 'LE': 3, 'DOUBLEEQUAL': 3, 'GT': 3, 'GE': 3, 'NOTEQUAL': 3, 'PLUS': 4,
        'MINUS': 4, 'PIPE': 4, 'TIMES': 5, 'DIV': 5, 'AMP': 5, 'CARET': 5, 'MOD': 6}
UNOPS = [('NOT', 'not'), ('EMPTY', 'empty'), ('NOT_EMPTY', 'not_empty'), ('CARDINALITY', 'cardinality'),
         ('PLUS', '+'), ('MINUS', '-')]


class Gen(object):
    """writes one random program (syntax only; names need not be bound)"""

    def __init__(self, rng, max_depth=3, max_stmts=6, empty_clause_blocks=True):
        self.r = rng
        self.p = Prog()
        self.max_depth = max_depth
        self.max_stmts = max_stmts
        self.empty_clause_blocks = empty_clause_blocks
        self.kw_names = True           # keywords in name positions
        self.empty_statements = True   # `;;`

    # -- token helpers
    def t(self, kind, lexeme, role='', glue=False):
        self.p.toks.append(Tk(kind, lexeme, role, glue))
        return len(self.p.toks) - 1

    def kw(self, word):
        return self.t(word.upper(), word, 'kw')

    def pn(self, kind):
        return self.t(kind, PUNCT[kind])

    def ident(self, pool, limited=False):
        # a keyword in a NAME position (kw_as_identifier_1..4 of the grammar): `x.to`, `f(from: 1)`, `NS::class`,
        # a variable called `each`.  The token keeps its keyword type, the tree keeps the spelling as written; role
        # 'name': never re-spelled (C08 re-spells keywords in keyword role only)
        if self.kw_names and self.r.random() < 0.12:
            words = KW_AS_VARIABLE if (limited or pool is VARS) else \
                KW_AS_NAME if (pool is ATTRS or pool is PARAMS or pool is ENUMERATORS) else None
            if words:
                w = self.r.choice(words)
                name = self.r.choice([w, w, w.upper(), w.capitalize()])
                self.p.count('kw-as-name')
                return self.t(w.upper(), name, 'name'), name
        name = self.r.choice(pool)
        return self.t('ID', name), name

    def last(self):
        return len(self.p.toks) - 1

    # -- expressions: each returns an En with first/last set
    def expr(self, d=0):
        r = self.r
        if d >= self.max_depth or r.random() < 0.35:
            return self.atom(d)
        k = r.random()
        if k < 0.45:
            return self.binary(d)
        if k < 0.65:
            return self.unary(d)
        if k < 0.85:
            return self.paren(d)
        return self.atom(d)

    def paren(self, d):
        f = self.pn('LPAREN')
        e = self.expr(d + 1)
        l = self.pn('RPAREN')
        e.first, e.last = f, l          # p_grouped_expression re-stamps the operand node
        self.p.count('paren')
        return e

    def operand(self, d, parent_prec, side):
        """an operand; parenthesised when it is an operator expression that would otherwise regroup"""
        r = self.r
        if d >= self.max_depth or r.random() < 0.4:
            return self.atom(d)
        k = r.random()
        if k < 0.55:
            return self.paren(d)
        if k < 0.75:
            return self.unary(d)
        return self.atom(d)

    def binary(self, d):
        r = self.r
        kind, lex = r.choice(BINOPS)
        # left operand: an unparenthesised binary of strictly higher precedence, or (left-assoc levels) equal
        left = None
        if d + 1 < self.max_depth and r.random() < 0.3:
            cands = [b for b in BINOPS if PREC[b[0]] > PREC[kind] or (PREC[b[0]] == PREC[kind] and PREC[kind] != 3)]
            if cands:
                k2, l2 = r.choice(cands)
                a = self.operand(d + 1, PREC[k2], 'l')
                op2 = self.t(k2, l2, 'kw' if k2 in KWSET else '')
                b = self.operand(d + 1, PREC[k2], 'r')
                left = En('BinaryOperationNode', [a, l2, b], a.first, b.last)
                self.p.count('binary-chain')
        if left is None:
            left = self.operand(d + 1, PREC[kind], 'l')
        self.t(kind, lex, 'kw' if kind in KWSET else '')
        right = self.operand(d + 1, PREC[kind], 'r')
        self.p.count('binary')
        return En('BinaryOperationNode', [left, lex, right], left.first, right.last)

    def unary(self, d):
        kind, lex = self.r.choice(UNOPS)
        f = self.t(kind, lex, 'kw' if kind in KWSET else '')
        if self.r.random() < 0.25 and d + 1 < self.max_depth:
            e = self.unary(d + 1)
        elif self.r.random() < 0.5:
            e = self.paren(d)
        else:
            e = self.atom(d)
        self.p.count('unary')
        return En('UnaryOperationNode', [lex, e], f, e.last)

    def atom(self, d):
        r = self.r
        k = r.random()
        if k < 0.18:
            v = r.choice(['0', '1', '7', '42', '1000', '007'])
            i = self.t('NUMBER', v)
            return En('IntegerNode', [v], i, i)
        if k < 0.26:
            v = r.choice(['1.5', '0.25', '.5', '3.', '2.e3', '1e5', '6.02f', '1.0L', '7e-2', '9.E+1', '2.5f', '1e3L', '7.f',
                          '.5F', '4.l', '12E-3f'])
            i = self.t('FRACTION', v)
            return En('RealNode', [v], i, i)
        if k < 0.36:
            v = '"' + r.choice(['', 'abc', 'a b', "it's", '// no comment', '/* nor this */', 'end if', 'x;y',
                                'tab\there', '\\n', 'é∀']) + '"'
            i = self.t('STRING', v)
            return En('StringNode', [v], i, i)
        if k < 0.44:
            w = r.choice(['true', 'false'])
            i = self.kw(w)
            return En('BooleanNode', [w], i, i)
        if k < 0.50:
            ns = r.choice(NSS)
            f = self.t('NAMESPACE', ns)
            self.t('DOUBLECOLON', '::', glue=True)
            i, nm = self.ident(ENUMERATORS)
            return En('EnumOrNamedConstantNode', [ns, nm], f, i)
        if k < 0.56:
            i = self.kw('self')
            return En('SelfAccessNode', ['self'], i, i)
        if k < 0.60:
            i = self.kw('selected')
            return En('SelectedAccessNode', ['selected'], i, i)
        if k < 0.70 and d < self.max_depth:
            return self.invocation(d)
        return self.access(d)

    def access(self, d, lvalue=False):
        """variable_access: name | field chain | index | param.x"""
        r = self.r
        k = r.random()
        if k < 0.12:
            w = r.choice(['param', 'rcvd_evt'])
            f = self.kw(w)
            self.pn('DOT')
            i, nm = self.ident(PARAMS, limited=True)        # param_access : param DOT variable_name
            cur = En('ParamAccessNode', [nm], f, i)
        elif k < 0.22:
            w = r.choice(['self', 'selected'])
            f = self.kw(w)
            base = En('SelfAccessNode' if w == 'self' else 'SelectedAccessNode', [w], f, f)
            self.pn('DOT')
            i, nm = self.ident(ATTRS)
            cur = En('FieldAccessNode', [base, nm], f, i)
        else:
            i, nm = self.ident(VARS)
            cur = En('VariableAccessNode', [nm], i, i)
        steps = 0
        while r.random() < 0.35 and steps < 3:
            steps += 1
            if r.random() < 0.65:
                self.pn('DOT')
                i, nm = self.ident(ATTRS)
                cur = En('FieldAccessNode', [cur, nm], cur.first, i)
            elif cur.cls != 'SelfAccessNode' and d < self.max_depth:
                self.pn('LSQBR')
                e = self.expr(d + 1)
                l = self.pn('RSQBR')
                cur = En('IndexAccessNode', [cur, e], cur.first, l)
        self.p.count('access')
        return cur

    def params(self, d):
        """'(' parameter_list ')' -> (En ParameterListNode, index of ')')"""
        self.pn('LPAREN')
        items = []
        n = self.r.choice([0, 0, 1, 1, 2, 3])
        for j in range(n):
            if j:
                self.pn('COMMA')
            i, nm = self.ident(PARAMS)
            self.pn('COLON')
            e = self.expr(d + 1)
            items.append(En('ParameterNode', [nm, e], i, e.last))
        l = self.pn('RPAREN')
        return En('ParameterListNode', items), l

    def implicit_invocation(self, d, cls='ImplicitInvocationNode'):
        ns = self.r.choice(NSS)
        f = self.t('NAMESPACE', ns)
        self.t('DOUBLECOLON', '::', glue=True)
        _, fn = self.ident(FUNS)
        pl, l = self.params(d)
        return En(cls, [ns, fn, pl], f, l)

    def function_invocation(self, d):
        f = self.pn('DOUBLECOLON')
        _, fn = self.ident(FUNS)
        pl, l = self.params(d)
        return En('FunctionInvocationNode', [fn, pl], f, l)

    def instance_invocation(self, d):
        w = self.r.random()
        if w < 0.15:
            f = self.kw('self')
            h = En('SelfAccessNode', ['self'], f, f)
        elif w < 0.25:
            f = self.kw('selected')
            h = En('SelectedAccessNode', ['selected'], f, f)
        else:
            f, nm = self.ident(VARS)
            h = En('VariableAccessNode', [nm], f, f)
        self.pn('DOT')
        _, fn = self.ident(FUNS)
        pl, l = self.params(d)
        return En('InstanceInvocationNode', [h, fn, pl], f, l)

    def invocation(self, d):
        k = self.r.random()
        self.p.count('invocation')
        if k < 0.4:
            return self.implicit_invocation(d)
        if k < 0.7:
            return self.function_invocation(d)
        return self.instance_invocation(d)

    # -- statements: each returns an En (without the ';')
    def block(self, depth, allow_empty=True):
        """block: statement_list or empty -> (En BlockNode, index of the last token or None)"""
        r = self.r
        n = r.choice([0, 1, 1, 2, 3]) if allow_empty else r.choice([1, 1, 2, 3])
        if depth >= 2:
            n = min(n, 2)
        stmts = []
        last = None
        for _ in range(n):
            if self.empty_statements and self.r.random() < 0.04:
                last = self.pn('SEMICOLON')              # empty statement in front (`statement : <empty>`)
                self.p.count('empty-statement')
            s = self.statement(depth)
            stmts.append(s)
            last = self.pn('SEMICOLON')
            if self.empty_statements and self.r.random() < 0.05:
                last = self.pn('SEMICOLON')              # empty statement behind
                self.p.count('empty-statement')
        return En('BlockNode', [En('StatementListNode', stmts)]), last

    def statement(self, depth):
        r = self.r
        simple = [self.s_assign, self.s_assign, self.s_return, self.s_break, self.s_invoke, self.s_create,
                  self.s_delete, self.s_relate, self.s_select_from, self.s_select_related, self.s_generate,
                  self.s_create_event, self.s_keyword_invoke, self.s_select_from, self.s_relate]
        compound = [self.s_if, self.s_if, self.s_while, self.s_for]
        if depth < 2 and r.random() < 0.3:
            f = r.choice(compound)
            return f(depth)
        return r.choice(simple)()

    def s_break(self):
        k = self.r.random()
        if k < 0.4:
            i = self.kw('break')
            self.p.count('break')
            return En('BreakNode', [], i, i)
        if k < 0.8:
            i = self.kw('continue')
            self.p.count('continue')
            return En('ContinueNode', [], i, i)
        f = self.kw('control')
        l = self.kw('stop')
        self.p.count('control')
        return En('ControlNode', [], f, l)

    def s_return(self):
        f = self.kw('return')
        self.p.count('return')
        if self.r.random() < 0.2:
            return En('ReturnNode', [None], f, f)
        e = self.expr()
        return En('ReturnNode', [e], f, e.last)

    def s_assign(self):
        f = None
        if self.r.random() < 0.25:
            f = self.kw('assign')
        v = self.access(1, lvalue=True)
        self.pn('EQUAL')
        e = self.expr()
        self.p.count('assign')
        return En('AssignmentNode', [v, e], v.first if f is None else f, e.last)

    def s_invoke(self):
        e = self.invocation(1)
        self.p.count('invoke-stmt')
        return En('InvocationStatementNode', [e], e.first, e.last)

    def s_keyword_invoke(self):
        """bridge / transform / send forms"""
        r = self.r
        k = r.random()
        self.p.count('kw-invoke')
        if k < 0.15:
            f = self.kw('bridge')
            e = self.implicit_invocation(1, 'BridgeInvocationNode')
            return En('InvocationStatementNode', [e], f, e.last)
        if k < 0.3:
            f = self.kw('bridge')
            v = self.access(1)
            self.pn('EQUAL')
            e = self.implicit_invocation(1, 'BridgeInvocationNode')
            return En('AssignmentNode', [v, e], f, e.last)
        if k < 0.4:
            f = self.kw('transform')
            e = self.implicit_invocation(1, 'ClassInvocationNode')
            return En('InvocationStatementNode', [e], f, e.last)
        if k < 0.5:
            f = self.kw('transform')
            v = self.access(1)
            self.pn('EQUAL')
            e = self.implicit_invocation(1, 'ClassInvocationNode')
            return En('AssignmentNode', [v, e], f, e.last)
        if k < 0.6:
            f = self.kw('transform')
            e = self.instance_invocation(1)
            return En('InvocationStatementNode', [e], f, e.last)
        if k < 0.7:
            f = self.kw('transform')
            v = self.access(1)
            self.pn('EQUAL')
            e = self.instance_invocation(1)
            return En('AssignmentNode', [v, e], f, e.last)
        if k < 0.8:
            f = self.kw('send')
            e = self.implicit_invocation(1, 'PortInvocationNode')
            return En('InvocationStatementNode', [e], f, e.last)
        if k < 0.9:
            f = self.kw('send')
            v = self.access(1)
            self.pn('EQUAL')
            e = self.implicit_invocation(1, 'PortInvocationNode')
            return En('AssignmentNode', [v, e], f, e.last)
        f = self.kw('send')
        ns = r.choice(NSS)
        self.t('NAMESPACE', ns)
        self.t('DOUBLECOLON', '::', glue=True)
        _, fn = self.ident(FUNS)
        pl, _ = self.params(1)
        self.kw('to')
        e = self.expr(1)
        return En('GeneratePortEventNode', [ns, fn, pl, e], f, e.last)

    def phrase(self):
        """phrase: TICKED_PHRASE (may contain newlines) | identifier  -> the string the node stores"""
        if self.r.random() < 0.75:
            body = self.r.choice(['is', 'has a', 'one', 'other\nside', 'a\n\nb', 'x//y', '/*', 'end if', ''])
            lex = "'" + body + "'"
            self.t('TICKED_PHRASE', lex)
            return lex
        _, nm = self.ident(['is', 'has', 'parent', 'child'])
        return "'%s'" % nm

    def s_create(self):
        f = self.kw('create')
        self.kw('object')
        self.kw('instance')
        self.p.count('create')
        if self.r.random() < 0.7:
            _, v = self.ident(VARS)
            self.kw('of')
            l, kl = self.ident(KLS)
            return En('CreateObjectNode', [v, kl], f, l)
        self.kw('of')
        l, kl = self.ident(KLS)
        return En('CreateObjectNoVariableNode', [kl], f, l)

    def instance_name(self):
        if self.r.random() < 0.15:
            i = self.kw('self')
            return i, 'self'
        return self.ident(VARS)

    def s_delete(self):
        f = self.kw('delete')
        self.kw('object')
        self.kw('instance')
        l, v = self.instance_name()
        self.p.count('delete')
        return En('DeleteNode', [v], f, l)

    def s_relate(self):
        r = self.r
        un = r.random() < 0.4
        f = self.kw('unrelate' if un else 'relate')
        _, a = self.instance_name()
        self.kw('from' if un else 'to')
        _, b = self.instance_name()
        self.kw('across')
        l, rel = self.ident(['R1', 'R2', 'R33', 'r4'])
        ph = None
        if r.random() < 0.5:
            self.pn('DOT')
            ph = self.phrase()
            l = self.last()
        self.p.count('unrelate' if un else 'relate')
        if r.random() < 0.3:
            self.kw('using')
            l, c = self.instance_name()
            return En('UnrelateUsingNode' if un else 'RelateUsingNode', [a, b, rel, ph or '', c], f, l)
        return En('UnrelateNode' if un else 'RelateNode', [a, b, rel, ph or ''], f, l)

    def s_select_from(self):
        r = self.r
        f = self.kw('select')
        card = r.choice(['any', 'many'])
        self.kw(card)
        _, v = self.ident(VARS + SETS)
        self.kw('from')
        if r.random() < 0.7:
            self.kw('instances')
            self.kw('of')
        l, kl = self.ident(KLS)
        self.p.count('select-from')
        if r.random() < 0.5:
            self.kw('where')
            e = self.expr(1)
            return En('SelectFromWhereNode', [card, v, kl, e], f, e.last)
        return En('SelectFromNode', [card, v, kl], f, l)

    def s_select_related(self):
        r = self.r
        f = self.kw('select')
        card = r.choice(['one', 'any', 'many'])
        self.kw(card)
        _, v = self.ident(VARS + SETS)
        self.kw('related')
        self.kw('by')
        if r.random() < 0.2:
            i = self.kw('self')
            h = En('SelfAccessNode', ['self'], i, i)
        else:
            h = self.access(2)
        steps = []
        for _ in range(r.choice([1, 1, 2, 3])):
            a = self.pn('ARROW')
            _, kl = self.ident(KLS)
            self.pn('LSQBR')
            _, rel = self.ident(['R1', 'R2', 'R33'])
            ph = None
            if r.random() < 0.4:
                self.pn('DOT')
                ph = self.phrase()
            l = self.pn('RSQBR')
            steps.append(En('NavigationStepNode', [kl, rel, ph or ''], a, l))
        chain = En('NavigationListNode', steps)
        self.p.count('select-related')
        if r.random() < 0.4:
            self.kw('where')
            e = self.expr(1)
            return En('SelectRelatedWhereNode', [card, v, h, chain, e], f, e.last)
        return En('SelectRelatedNode', [card, v, h, chain], f, l)

    def event_spec(self):
        r = self.r
        _, ev = self.ident(EVTS)
        meaning = None
        if r.random() < 0.2:
            self.pn('TIMES')
        if r.random() < 0.5:
            self.pn('COLON')
            meaning = self.phrase()
        items = []
        if r.random() < 0.5:
            self.pn('LPAREN')
            for j in range(r.choice([0, 1, 2])):
                if j:
                    self.pn('COMMA')
                i, nm = self.ident(PARAMS)
                self.pn('COLON')
                e = self.expr(2)
                items.append(En('EventDataItemNode', [nm, e], i, e.last))
            self.pn('RPAREN')
        return En('EventSpecNode', [ev, meaning, En('EventDataListNode', items)])

    def event_target(self, fields, cls_class, cls_creator, cls_inst):
        r = self.r
        k = r.random()
        if k < 0.45:
            _, kl = self.ident(KLS)
            w = r.choice(['class', 'assigner', 'creator'])
            l = self.kw(w)
            return (cls_creator if w == 'creator' else cls_class), fields + [kl], l
        if k < 0.6:
            i = self.kw('self')
            return cls_inst, fields + [En('SelfAccessNode', ['self'], i, i)], i
        v = self.access(2)
        return cls_inst, fields + [v], v.last

    def s_generate(self):
        f = self.kw('generate')
        self.p.count('generate')
        if self.r.random() < 0.15:
            v = self.access(2)
            return En('GeneratePreexistingNode', [v], f, v.last)
        es = self.event_spec()
        self.kw('to')
        cls, fields, l = self.event_target([es], 'GenerateClassEventNode', 'GenerateCreatorEventNode',
                                           'GenerateInstanceEventNode')
        return En(cls, fields, f, l)

    def s_create_event(self):
        f = self.kw('create')
        self.kw('event')
        self.kw('instance')
        _, v = self.ident(VARS)
        self.kw('of')
        es = self.event_spec()
        self.kw('to')
        cls, fields, l = self.event_target([v, es], 'CreateClassEventNode', 'CreateCreatorEventNode',
                                           'CreateInstanceEventNode')
        self.p.count('create-event')
        return En(cls, fields, f, l)

    def end_tok(self, word):
        kind = 'END_' + word.upper()
        return self.t(kind, 'end ' + word, 'end')

    def s_while(self, depth):
        f = self.kw('while')
        e = self.paren(1) if self.r.random() < 0.7 else self.expr(1)
        if self.r.random() < 0.3:
            self.kw('loop')
        b, _ = self.block(depth + 1)
        l = self.end_tok('while')
        self.p.count('while')
        return En('WhileNode', [e, b], f, l)

    def s_for(self, depth):
        f = self.kw('for')
        self.kw('each')
        _, v = self.ident(VARS)
        self.kw('in')
        _, s = self.ident(SETS)
        if self.r.random() < 0.3:
            self.kw('loop')
        b, _ = self.block(depth + 1)
        l = self.end_tok('for')
        self.p.count('for')
        return En('ForEachNode', [v, s, b], f, l)

    def s_if(self, depth):
        r = self.r
        f = self.kw('if')
        e = self.paren(1) if r.random() < 0.7 else self.expr(1)
        if r.random() < 0.3:
            self.kw('then')
        b, _ = self.block(depth + 1)
        elifs = []
        for _ in range(r.choice([0, 0, 1, 2])):
            self.kw('elif')
            ce = self.paren(1) if r.random() < 0.7 else self.expr(1)
            cl = ce.last
            if r.random() < 0.3:
                cl = self.kw('then')
            allow_empty = self.empty_clause_blocks and r.random() < 0.25
            cb, bl = self.block(depth + 1, allow_empty=allow_empty)
            flag = ''
            if bl is None:
                flag = 'empty-clause-block'
                self.p.count('empty-elif-block')
            elifs.append(En('ElIfNode', [ce, cb], ce.first, cl if bl is None else bl, flag))
        els = None
        if r.random() < 0.5:
            ef = self.kw('else')
            allow_empty = self.empty_clause_blocks and r.random() < 0.25
            eb, bl = self.block(depth + 1, allow_empty=allow_empty)
            flag = ''
            if bl is None:
                flag = 'empty-clause-block'
                self.p.count('empty-else-block')
            els = En('ElseNode', [eb], ef, ef if bl is None else bl, flag)
        l = self.end_tok('if')
        self.p.count('if')
        return En('IfNode', [e, b, En('ElIfListNode', elifs), els], f, l)

    def program(self):
        stmts = []
        for _ in range(self.r.randint(1, self.max_stmts)):
            if self.empty_statements and self.r.random() < 0.04:
                self.pn('SEMICOLON')
                self.p.count('empty-statement')
            stmts.append(self.statement(0))
            self.pn('SEMICOLON')
            if self.empty_statements and self.r.random() < 0.05:
                self.pn('SEMICOLON')
                self.p.count('empty-statement')
        self.p.root = En('BodyNode', [En('BlockNode', [En('StatementListNode', stmts)])])
        return self.p


def gen_program(rng, max_depth=3, max_stmts=6, empty_clause_blocks=True):
    return Gen(rng, max_depth, max_stmts, empty_clause_blocks).program()


# --------------------------------------------------------------------------------------- layout

class Placed(object):
    def __init__(self):
        self.text = ''
        self.lexemes = []      # as written (END_* with their inner white space, keywords re-spelled)
        self.start = []        # offset of the first character
        self.stop = []         # offset after the last character
        self.line = []         # 1-based line of the first character
        self.col = []          # 1-based column of the first character (tab = 1)
        self.eline = []        # line of the last character
        self.ecol = []         # column of the last character
        self.stats = {}


COMMENT_BODIES = ['', ' ', ' c ', '*', '**', ' a * b ', ' / ', 'x\ny', '\n', '\n\n * \n', " it's ", ' "q" ', ' end if ',
                  '/', '/ *', ' // ', '\t', ' é ', '* /']
LINE_COMMENTS = ['', ' c', ' end if;', ' /* x', " 'p", ' "s', '\t//', ' */']
END_WS = [' ', '  ', '\t', '\n', ' \n ', '\n\n', '\r\n', '\t \t', '\x0b', '\x0c', ' \n\t', '\n\r\n ']


class _Cursor(object):
    """writes characters and keeps its own line / column counters"""

    def __init__(self):
        self.parts = []
        self.off = 0
        self.line = 1
        self.col = 1

    def put(self, s):
        self.parts.append(s)
        for ch in s:
            self.off += 1
            if ch == '\n':
                self.line += 1
                self.col = 1
            else:
                self.col += 1


def _sep(rng, style, stats, need):
    """a separator; need=True: at least one character that separates two word-like tokens"""
    out = []
    k = rng.random()
    if style == 'tight':
        if need:
            out.append(' ')
        return ''.join(out)
    if style == 'plain':
        out.append(' ' if (need or rng.random() < 0.7) else '')
        return ''.join(out)
    n = rng.choice([0, 1, 1, 1, 2, 3]) if not need else rng.choice([1, 1, 1, 2, 3])
    for _ in range(n):
        k = rng.random()
        if k < 0.35:
            out.append(' ' * rng.randint(1, 3))
        elif k < 0.5:
            out.append('\t')
            stats['tab'] = stats.get('tab', 0) + 1
        elif k < 0.7:
            out.append('\n' * rng.choice([1, 1, 2]))
            stats['newline'] = stats.get('newline', 0) + 1
        elif k < 0.75:
            out.append(rng.choice(['\r\n', '\r']))
        elif k < 0.9:
            out.append('/*' + rng.choice(COMMENT_BODIES) + rng.choice(['*/', '**/', '*/']))
            stats['comment'] = stats.get('comment', 0) + 1
        else:
            out.append('//' + rng.choice(LINE_COMMENTS) + '\n')
            stats['line-comment'] = stats.get('line-comment', 0) + 1
    return ''.join(out)


def _fuses(left, right):
    """would the two lexemes lex differently when written without a separator?"""
    a, b = left[-1], right[0]
    word = lambda c: c.isalnum() or c == '_'
    if word(a) and word(b):
        return True
    if (left[0].isdigit() or (left[0] == '.' and len(left) > 1)) and word(b):
        return True          # numeric literal followed by a letter: exponent / suffix
    if (a + b) in ('==', '<=', '>=', '!=', '->', '::', '//', '/*', '*/'):
        return True
    if (a == '.' and (b.isdigit())) or (a.isdigit() and b == '.'):
        return True
    if word(a) and b == ':' and right.startswith('::'):
        return True          # would become a NAMESPACE
    if a in '<>=!-:/*' and b in '<>=!-:/*':
        return True
    if a == '.' and b == '.':
        return False
    return False


def layout(rng, prog, style='wild', spell=None):
    """place the tokens of `prog`; `spell[i]` overrides the lexeme of token i (same length)"""
    cur = _Cursor()
    pl = Placed()
    if style != 'tight' and rng.random() < 0.5:
        cur.put(_sep(rng, style, pl.stats, False))
    prev = None
    for i, tk in enumerate(prog.toks):
        lex = tk.lexeme if spell is None or spell[i] is None else spell[i]
        if tk.role == 'end' and (spell is None or spell[i] is None):
            word = lex.split(' ', 1)
            if style == 'wild':
                ws = rng.choice(END_WS)
            elif style == 'plain' and rng.random() < 0.3:
                ws = rng.choice(['  ', '   ', ' \t', '\n', ' \n ', '\t\t'])       # `end  if`: repeated separators
            else:
                ws = ' '
            lex = word[0] + ws + word[1]
            if '\n' in lex:
                pl.stats['end-split'] = pl.stats.get('end-split', 0) + 1
        if prev is not None and not tk.glue:
            need = _fuses(prev, lex)
            sep = _sep(rng, style, pl.stats, need)
            if prev.endswith('/') and sep.startswith('/'):
                sep = ' ' + sep          # '/' followed by a comment would itself start a comment
            cur.put(sep)
        pl.lexemes.append(lex)
        pl.start.append(cur.off)
        pl.line.append(cur.line)
        pl.col.append(cur.col)
        # last character of the token: written separately so that its line / column are the cursor's own
        cur.put(lex[:-1])
        pl.eline.append(cur.line)
        pl.ecol.append(cur.col)
        cur.put(lex[-1])
        pl.stop.append(cur.off)
        if '\n' in lex and tk.role != 'end':
            pl.stats['phrase-newline'] = pl.stats.get('phrase-newline', 0) + 1
        prev = lex
    if style != 'tight' and rng.random() < 0.5:
        cur.put(_sep(rng, style, pl.stats, False))
    pl.text = ''.join(cur.parts)
    return pl


# --------------------------------------------------------------------------------------- expected tree

ANYPOS = Sym('?')


def expected_sexp(pl, node, with_positions=True):
    """the tree in oal_sexp.encode(..., positions=True) format.  Checked nodes carry the position the property
    demands; unchecked container nodes carry ANYPOS (`compare_trees` accepts any position or none)."""
    if node is None:
        return NONE
    if isinstance(node, str):
        return node
    if isinstance(node, list):
        return [expected_sexp(pl, x, with_positions) for x in node]
    if node.cls in LIST_NODES:
        body = [Sym(node.cls)] + [expected_sexp(pl, c, with_positions) for c in node.fields]
    else:
        body = [Sym(node.cls)] + [expected_sexp(pl, c, with_positions) for c in node.fields]
    if not with_positions:
        return body
    if node.cls in CHECKED and node.first is not None:
        f, l = node.first, node.last
        pos = [pl.start[f], pl.line[f], pl.col[f], pl.stop[l], pl.eline[l], pl.ecol[l]]
        return [Sym('@'), pos, pl.text[pl.start[f]:pl.stop[l]], body, node.flag]
    return [Sym('@'), ANYPOS, ANYPOS, body, '']


def compare_trees(exp, act, path='root'):
    """-> list of (kind, path, node class, expected, actual, flag); kind in {'shape','position','stream'}"""
    out = []
    _cmp(exp, act, path, out)
    return out


def _unwrap(x):
    if isinstance(x, list) and x and x[0] == Sym('@'):
        return x[1], x[2], x[3]
    return None, None, x


def _cmp(exp, act, path, out):
    if isinstance(exp, list) and exp and exp[0] == Sym('@'):
        epos, estream, ebody, flag = exp[1], exp[2], exp[3], exp[4]
        apos, astream, abody = _unwrap(act)
        if not (isinstance(abody, list) and abody and isinstance(abody[0], Sym) and abody[0] == ebody[0]):
            out.append(('shape', path, str(ebody[0]), str(ebody[0]), _head(abody), flag))
            return
        cls = str(ebody[0])
        if epos is not ANYPOS:
            if apos is None:
                out.append(('position', path, cls, epos, None, flag))
            else:
                if list(apos) != list(epos):
                    out.append(('position', path, cls, epos, list(apos), flag))
                if astream != estream:
                    out.append(('stream', path, cls, estream, astream, flag))
        if len(abody) != len(ebody):
            out.append(('shape', path, cls, len(ebody) - 1, len(abody) - 1, flag))
            return
        for i, (e, a) in enumerate(zip(ebody[1:], abody[1:])):
            _cmp(e, a, '%s/%s[%d]' % (path, cls, i), out)
        return
    if isinstance(exp, list):
        if not isinstance(act, list) or len(act) != len(exp):
            out.append(('shape', path, 'list', len(exp), _head(act), ''))
            return
        for i, (e, a) in enumerate(zip(exp, act)):
            _cmp(e, a, '%s[%d]' % (path, i), out)
        return
    if exp != act:
        out.append(('shape', path, 'leaf', exp, act if not isinstance(act, list) else _head(act), ''))


def _head(x):
    if isinstance(x, list) and x:
        return str(x[0]) if isinstance(x[0], Sym) else 'list'
    return repr(x)[:40]


def checked_spans(node, acc=None):
    """(first, last) token indexes of the checked nodes, in the tree's pre-order"""
    if acc is None:
        acc = []
    if isinstance(node, En):
        if node.cls in CHECKED and node.first is not None:
            acc.append((node.first, node.last, node.cls, node.flag))
        for c in node.fields:
            checked_spans(c, acc)
    elif isinstance(node, list):
        for c in node:
            checked_spans(c, acc)
    return acc


# --------------------------------------------------------------------------------------- respelling (C08)

def respell_word(rng, word, mode):
    if mode == 'lower':
        return word.lower()
    if mode == 'upper':
        return word.upper()
    if mode == 'capital':
        return ''.join(ch.upper() if (i == 0 or not word[i - 1].isalpha()) else ch.lower() for i, ch in enumerate(word))
    return ''.join(ch.upper() if rng.random() < 0.5 else ch.lower() for ch in word)


def respell(rng, prog, mode, lexemes=None):
    """per keyword occurrence a spelling in `mode` ('lower' | 'upper' | 'capital' | 'mixed'); identifiers, literals
    and the white space inside `end if` are untouched.  `lexemes`: the lexemes as placed (END_* inner space)."""
    out = []
    for i, tk in enumerate(prog.toks):
        lex = tk.lexeme if lexemes is None else lexemes[i]
        if tk.role in ('kw', 'end'):
            out.append(respell_word(rng, lex, mode))
        else:
            out.append(None)
    return out


# --------------------------------------------------------------------------------------- totality streams

ALPHABET = (list(' \t\n\r;=.():,*[]?<>!+-|/%&^\'"_') + list('abcdefENDifWHILEnot019') +
            ['::', '->', '==', '/*', '*/', '//', 'end ', 'if', '%d', '%s', '%(x)s', '%%', '{0}', '{}', '%5.2f', '%r', '\x0b', '\x0c', '\x00', '\x1c', '\x85', '\xa0', ' ',
             '　', 'é', 'ß', 'Ω', '٣', '５', '\U0001d7d8', '@', '$', '#', '`', '~', '\\', '{', '}',
             '\ud800', '\U0010ffff'])
# the lexer model's alphabet leaves out lone surrogates only because they cannot be sent over the UTF-8 pipe
MODEL_ALPHABET = [a for a in ALPHABET if a != '\ud800']


def arbitrary_string(rng, maxlen=60, model=False):
    n = rng.randint(0, maxlen)
    alpha = MODEL_ALPHABET if model else ALPHABET
    return ''.join(rng.choice(alpha) for _ in range(n))


SAMPLE_LEXEMES = {
    'ID': ['x', 'a_1', 'Foo', 'end', 'e3', '_', 'R1', 'ends', 'iff'],
    'NUMBER': ['0', '12', '007'],
    'FRACTION': ['1.5', '.5', '3.', '1e5', '2.e-3', '1.0f', '7L'],
    'STRING': ['""', '"a b"', '"it\'s"'],
    'TICKED_PHRASE': ["'p'", "''", "'a\nb'"],
    'NAMESPACE': ['NS'],
    'END_IF': ['end if', 'END\tIF', 'End\nIf'],
    'END_FOR': ['end for', 'eNd  fOr'],
    'END_WHILE': ['end while', 'END\n\nWHILE'],
}


def random_tokens(rng, maxlen=40):
    """a random sequence of valid OAL tokens, separated by blanks / newlines where needed"""
    kinds = list(PUNCT) + list(SAMPLE_LEXEMES) + KEYWORDS
    out = []
    prev = None
    for _ in range(rng.randint(0, maxlen)):
        k = rng.choice(kinds)
        if k in PUNCT:
            lex = PUNCT[k]
        elif k in SAMPLE_LEXEMES:
            lex = rng.choice(SAMPLE_LEXEMES[k])
            if k == 'NAMESPACE':
                lex += '::'
        else:
            lex = respell_word(rng, k, rng.choice(['lower', 'lower', 'upper', 'mixed']))
        if prev is not None:
            if _fuses(prev, lex) or rng.random() < 0.5:
                out.append(rng.choice([' ', ' ', '\n', '\t', '  ']))
        out.append(lex)
        prev = lex
    return ''.join(out)


FORMAT_LIKE = ['%d', '%s', '%', '%%', '%(x)s', '{0}', '{}', '%5.2f', '% d', '%r %s', 'x %d', '%s;', '(%s)', '"%d"', "'%s'"]


def mutate(rng, prog, pl):
    """single-edit mutation of a valid program: returns (kind, text)"""
    n = len(prog.toks)
    kind = rng.choice(['delete', 'duplicate', 'swap', 'truncate', 'unterminated-string', 'unterminated-comment',
                       'unterminated-phrase', 'insert-char', 'delete-char', 'insert-format', 'replace-format'])
    text = pl.text
    if n == 0:
        return 'none', text
    i = rng.randrange(n)
    if kind == 'delete':
        return kind, text[:pl.start[i]] + text[pl.stop[i]:]
    if kind == 'duplicate':
        return kind, text[:pl.stop[i]] + ' ' + pl.lexemes[i] + text[pl.stop[i]:]
    if kind == 'swap':
        j = rng.randrange(n)
        a, b = min(i, j), max(i, j)
        if a == b:
            return kind, text
        return kind, (text[:pl.start[a]] + pl.lexemes[b] + text[pl.stop[a]:pl.start[b]] + pl.lexemes[a] +
                      text[pl.stop[b]:])
    if kind == 'truncate':
        return kind, text[:rng.randint(0, len(text))]
    if kind == 'unterminated-string':
        return kind, text[:pl.start[i]] + '"abc ' + text[pl.start[i]:]
    if kind == 'unterminated-comment':
        return kind, text[:pl.start[i]] + '/* c ' + text[pl.start[i]:]
    if kind == 'unterminated-phrase':
        return kind, text[:pl.start[i]] + "'ph " + text[pl.start[i]:]
    if kind in ('insert-format', 'replace-format'):
        # format-like text where a token is expected: the error message of the parser must cope with it
        f = rng.choice(FORMAT_LIKE)
        if kind == 'insert-format':
            return kind, text[:pl.start[i]] + f + ' ' + text[pl.start[i]:]
        return kind, text[:pl.start[i]] + f + text[pl.stop[i]:]
    if kind == 'insert-char':
        k = rng.randint(0, len(text))
        return kind, text[:k] + rng.choice(ALPHABET) + text[k:]
    k = rng.randrange(len(text)) if text else 0
    return 'delete-char', text[:k] + text[k + 1:]


def adversarial(n):
    """families on which a backtracking lexer rule could take super-linear time; (name, text)"""
    return [
        ('open-comment-newlines', 'x = 1; /*' + '\n' * n),
        ('open-comment-stars', 'x = 1; /*' + '*' * n),
        ('open-comment-star-newline', 'x = 1; /*' + '*\n' * (n // 2)),
        ('open-comment-crlf', 'x = 1; /*' + '\r\n' * (n // 2)),
        ('many-open-comments', '/* ' * (n // 3)),
        ('stars', '*' * n),
        ('slashes', '/' * n),
        ('quotes', "'" * n),
        ('odd-quotes', "'" * (n | 1)),
        ('dquotes', '"' * n),
        ('open-string', '"' + 'a' * n),
        ('digits', '9' * n),
        ('digits-dot', ('9' * 40 + '.') * (n // 41 + 1)),
        ('digits-e', '1' * n + 'e'),
        ('word', 'a' * n),
        ('word-colon', 'a' * n + ':'),
        ('end-spaces', 'end' + ' ' * n + 'x'),
        ('end-newlines', 'end' + '\n' * n + 'iff'),
        ('parens', '(' * n),
        ('nested', 'x = ' + '(' * (n // 2) + '1' + ')' * (n // 2) + ';'),
        ('minus', 'x = ' + '-' * n + '1;'),
        ('illegal', '$' * n),
        ('line-comments', '//\n' * (n // 3)),
    ]


def long_tokens():
    """valid statements with ONE very long token (around the 4300-digit limit of int() in Python >= 3.11 and well
    beyond): integer and real literals, identifiers, strings, ticked phrases, comments; (name, text)"""
    out = []
    for n in (100, 640, 4299, 4300, 4301, 5000):
        out.append(('long-integer-%d' % n, 'x = %s;' % ('1' + '0' * (n - 1))))
        out.append(('long-integer-nines-%d' % n, 'x = 1 + %s;' % ('9' * n)))
    for n in (4301, 5500):
        out.append(('long-integer-in-call-%d' % n, '::f(a: %s); return %s;' % ('7' * n, '3' * n)))
        out.append(('long-real-%d' % n, 'x = %s.%s;' % ('1' * n, '5' * 20)))
        out.append(('long-real-fraction-%d' % n, 'x = 0.%s;' % ('3' * n)))
        out.append(('long-real-exponent-%d' % n, 'x = 1.0e%s;' % ('9' * n)))
        out.append(('long-identifier-%d' % n, '%s = 1; y = %s;' % ('a' * n, 'a' * n)))
        out.append(('long-string-%d' % n, 'x = "%s";' % ('s' * n)))
        out.append(('long-phrase-%d' % n, "select one a related by self->A[R1.'%s'];" % ('p' * n)))
        out.append(('long-comment-%d' % n, 'x = 1; /*%s*/ y = 2;' % ('c' * n)))
        out.append(('long-enumerator-%d' % n, 'x = %s::%s;' % ('e' * n, 'v' * n)))
    return out


# --------------------------------------------------------------------------------------- lexical units (tight layout)

LIT_INDEXES = [11, 12, 13, 14, 15, 16, 17, 18, 19, 20, 21, 22, 23, 24, 25, 26, 27, 28, 29, 30, 31, 32, 34, 35, 36]


def sample_units():
    """representative well-formed lexical units in the Lean driver's notation (Proofs/OalTight.lean `LexUnit`):
    every token class, every fixed-string token (by rule index in the generated table), the fused unit NS::"""
    out = []
    for w in ['x', 'a_1', 'Foo', 'e', 'ends', '_', 'If', 'SELECT', 'not_empty', 'R1', 'f', 'L']:
        out.append([Sym('word'), w])
    for n in ['0', '12', '007']:
        out.append([Sym('number'), n])
    for f in ['1.5', '.5', '3.', '2.e3', '1e5', '6.02f', '1.0L', '7e-2', '9.E+1']:
        out.append([Sym('fraction'), f])
    for st in ['""', '"a b"', '"it\'s"']:
        out.append([Sym('string'), st])
    for t in ["'p'", "''", "'a\nb'"]:
        out.append([Sym('ticked'), t])
    out.append([Sym('endfor'), 'end for'])
    out.append([Sym('endif'), 'END\tIF'])
    out.append([Sym('endwhile'), 'End\n While'])
    for i in LIT_INDEXES:
        out.append([Sym('lit'), i])
    out.append([Sym('div')])
    for n in ['LOG', 'ns_1', '1a']:
        out.append([Sym('ns'), n])
    return out


# --------------------------------------------------------------------------------------- the real lexer

_lexer_parser = None


def oal_lexer(parser=None, label='<string>'):
    """A fresh PLY lexer for bridgepoint.oal, built by `OALParser.text_input` ITSELF: text_input is run on an empty
    text with yacc's `LRParser.parse` intercepted (for this one call), which receives the lexer text_input made - its
    own `lex.lex(...)` arguments, its own logger, and every attribute it assigns afterwards (`label`, ...).  The
    harness never reads names of the module that are not part of its interface (`oal.logger`, ...).

    `parser`: the OALParser instance whose rules the lexer binds (default: one shared instance).  When the interception
    does not yield a lexer (text_input no longer hands a `lexer` to the LALR parser, or the grammar does not build and
    there is no parser instance), the lexer is built the way text_input is known to build it, with the attributes it
    is known to assign; logging goes through `logging.getLogger(<module name>)`, never through a module variable."""
    global _lexer_parser
    from bridgepoint import oal
    from ply import yacc
    if parser is None:
        if _lexer_parser is None:
            _lexer_parser = oal.OALParser()
        parser = _lexer_parser
    got = {}
    orig = yacc.LRParser.parse

    def grab(self, input=None, lexer=None, *args, **kwargs):
        got['lexer'] = lexer
        return None
    yacc.LRParser.parse = grab
    try:
        try:
            parser.text_input('', label)
        except Exception:
            got.pop('lexer', None)
    finally:
        yacc.LRParser.parse = orig
    lexer = got.get('lexer')
    if lexer is not None and hasattr(lexer, 'token') and hasattr(lexer, 'input'):
        return lexer
    return mirror_oal_lexer(parser, label)


def mirror_oal_lexer(module, label='<string>'):
    """the lexer as text_input builds it, written out (fallback of `oal_lexer`; `module`: an OALParser instance or
    an object created with object.__new__(OALParser) when the grammar does not build)"""
    import logging
    import os
    from bridgepoint import oal
    from ply import lex
    log = logging.getLogger(oal.__name__)
    lexer = lex.lex(debuglog=log, errorlog=log, optimize=1, module=module,
                    outputdir=os.path.dirname(oal.__file__), lextab="bridgepoint.__oal_lextab")
    lexer.label = label
    return lexer


def ply_tokens(text, lexer=None):
    """token stream of bridgepoint.oal's own lexer (a fresh lexer made by OALParser.text_input, see `oal_lexer`):
    (kind, lexeme, lexpos, endlexpos, lineno, endlineno).  An exception raised here comes from a lexer object the
    HARNESS drives: callers report it as an implementation failure only if `oal.parse` fails on the same text too
    (`lexing_is_harness_fault`)."""
    lexer = lexer if lexer is not None else oal_lexer()
    lexer.input(text)
    out = []
    while True:
        t = lexer.token()
        if not t:
            break
        out.append((t.type, t.value, t.lexpos, getattr(t, 'endlexpos', t.lexpos), t.lineno,
                    getattr(t, 'endlineno', t.lineno)))
    return out


def lexing_is_harness_fault(text):
    """after an exception below a harness-driven lexer: True when the library's own entry point copes with the same
    text (a tree or oal.ParseException), so the exception says something about how the harness drives the lexer, not
    about the implementation"""
    from bridgepoint import oal
    try:
        oal.parse(text)
    except oal.ParseException:
        return True
    except Exception:
        return False
    return True


# --------------------------------------------------------------------------------------- executable programs (C08)

EXEC_SCHEMA = '''
CREATE TABLE A (Id INTEGER, Name STRING, N INTEGER, Flag BOOLEAN, Next_Id INTEGER);
CREATE TABLE B (Id INTEGER, A_Id INTEGER, V INTEGER);
CREATE TABLE C (Id INTEGER, A_Id INTEGER, W INTEGER);
CREATE ROP REF_ID R1 FROM MC B (A_Id) TO 1 A (Id);
CREATE ROP REF_ID R2 FROM 1C C (A_Id) TO 1 A (Id);
CREATE ROP REF_ID R3 FROM 1C A (Next_Id) PHRASE 'prev' TO 1C A (Id) PHRASE 'next';
INSERT INTO A VALUES (1, 'one', 10, true, 2);
INSERT INTO A VALUES (2, 'two', 20, false, 3);
INSERT INTO A VALUES (3, 'three', 30, true, 0);
INSERT INTO B VALUES (1, 1, 5);
INSERT INTO B VALUES (2, 1, 6);
INSERT INTO B VALUES (3, 2, 7);
INSERT INTO B VALUES (4, 0, 8);
INSERT INTO C VALUES (1, 1, 100);
INSERT INTO C VALUES (2, 3, 300);
'''
EXEC_CLASSES = {'A': ['Id', 'N'], 'B': ['Id', 'V'], 'C': ['Id', 'W']}
EXEC_ATTRS = {'A': ['Id', 'Name', 'N', 'Flag', 'Next_Id'], 'B': ['Id', 'A_Id', 'V'], 'C': ['Id', 'A_Id', 'W']}
# navigations  (from class, to class, rel, phrase or None, many?)
EXEC_NAV = [('A', 'B', 'R1', None, True), ('B', 'A', 'R1', None, False), ('A', 'C', 'R2', None, False),
            ('C', 'A', 'R2', None, False), ('A', 'A', 'R3', "'next'", False), ('A', 'A', 'R3', "'prev'", False)]


def exec_functions(m):
    """the domain functions of the executable programs, bound to metamodel `m` (name -> callable(**kwargs))"""
    def spawn():
        m.new('C', Id=900 + len(m.select_many('C')), W=1)
        return True

    def mark(v):
        a = m.select_any('A', lambda sel: sel.Id == 1)
        a.N = a.N + v
        return v % 2 == 0
    return {'spawn': spawn, 'mark': mark}


EXEC_FUNCTIONS = ['spawn', 'mark']      # both return a boolean


class ExecGen(Gen):
    """programs that run on the EXEC_SCHEMA population under bridgepoint.interpret.run_function and prebuild as
    the body of a function; every variable is defined before it is used, instance handles are tested with
    not_empty before they are dereferenced, loops are bounded by counters"""

    def __init__(self, rng, max_stmts=8, prebuildable=True):
        Gen.__init__(self, rng, 2, max_stmts, False)
        self.kw_names = False
        self.ints = []          # integer variables in scope
        self.insts = []         # (name, class) possibly empty handles
        self.safe = []          # (name, class) handles known to be non-empty here
        self.sets = []          # (name, class)
        self.fresh = 0
        self.next_id = 50
        self.loop = 0
        self.prebuildable = prebuildable

    def name(self, prefix):
        self.fresh += 1
        return '%s%d' % (prefix, self.fresh)

    def idt(self, s):
        return self.t('ID', s)

    def num(self, n):
        return self.t('NUMBER', str(n))

    # ---- expressions (emit tokens only)
    def int_expr(self, d=0):
        r = self.r
        k = r.random()
        if d >= 2 or k < 0.3:
            self.num(r.choice([0, 1, 2, 3, 5, 7, 10, 25]))
        elif k < 0.5 and self.ints:
            self.idt(r.choice(self.ints))
        elif k < 0.62 and self.safe:
            nm, cls = r.choice(self.safe)
            self.idt(nm)
            self.pn('DOT')
            self.idt(r.choice(EXEC_CLASSES[cls]))
        elif k < 0.72 and self.sets:
            self.kw('cardinality')
            self.idt(r.choice(self.sets)[0])
        elif k < 0.78 and not getattr(self, 'no_param', False):
            self.kw('param')
            self.pn('DOT')
            self.idt('n')
        elif k < 0.84:
            self.pn(r.choice(['MINUS', 'PLUS']))
            self.pn('LPAREN')
            self.int_expr(d + 1)
            self.pn('RPAREN')
        else:
            self.pn('LPAREN')
            self.int_expr(d + 1)
            op = r.choice(['PLUS', 'MINUS', 'TIMES', 'DIV', 'MOD'])
            self.pn(op)
            if op in ('DIV', 'MOD'):
                self.num(r.choice([1, 2, 3, 7]))
            else:
                self.int_expr(d + 1)
            self.pn('RPAREN')

    def bool_expr(self, d=0):
        r = self.r
        k = r.random()
        if d >= 2 or k < 0.15:
            self.kw(r.choice(['true', 'false']))
        elif k < 0.45:
            self.pn('LPAREN')
            self.int_expr(1)
            self.pn(r.choice(['LESSTHAN', 'LE', 'DOUBLEEQUAL', 'NOTEQUAL', 'GE', 'GT']))
            self.int_expr(1)
            self.pn('RPAREN')
        elif k < 0.6:
            self.pn('LPAREN')
            self.bool_expr(d + 1)
            self.kw(r.choice(['and', 'or']))
            self.bool_expr(d + 1)
            self.pn('RPAREN')
        elif k < 0.72:
            self.kw('not')
            self.pn('LPAREN')
            self.bool_expr(d + 1)
            self.pn('RPAREN')
        elif k < 0.86 and (self.insts or self.sets):
            self.pn('LPAREN')
            self.kw(r.choice(['empty', 'not_empty']))
            self.idt(r.choice(self.insts + self.sets)[0])
            self.pn('RPAREN')
        elif self.safe:
            nm, cls = r.choice(self.safe)
            self.pn('LPAREN')
            self.idt(nm)
            self.pn('DOT')
            self.idt(r.choice(EXEC_CLASSES[cls]))
            self.pn(r.choice(['LESSTHAN', 'GT', 'DOUBLEEQUAL']))
            self.num(r.choice([1, 2, 6, 20]))
            self.pn('RPAREN')
        else:
            self.kw(r.choice(['true', 'false']))

    def where(self, cls):
        self.kw('where')
        self.pn('LPAREN')
        r = self.r
        self.kw('selected')
        self.pn('DOT')
        self.idt(r.choice(EXEC_CLASSES[cls]))
        self.pn(r.choice(['LESSTHAN', 'GT', 'DOUBLEEQUAL', 'NOTEQUAL', 'GE']))
        self.num(r.choice([0, 1, 2, 6, 20, 100]))
        k = r.random()
        if k < 0.3:
            self.kw(r.choice(['and', 'or']))
            self.kw(r.choice(['true', 'false', 'not']))
            if self.p.toks[-1].lexeme == 'not':
                self.kw(r.choice(['true', 'false']))
        elif k < 0.55 and (self.insts or self.sets):
            # empty / not_empty / cardinality / not inside the where clause of a select
            self.kw(r.choice(['and', 'or']))
            h = r.choice(self.insts + self.sets)
            w = r.random()
            if w < 0.4:
                self.kw(r.choice(['not_empty', 'empty']))
                self.idt(h[0])
            elif w < 0.7 and self.sets:
                self.pn('LPAREN')
                self.kw('cardinality')
                self.idt(r.choice(self.sets)[0])
                self.pn(r.choice(['GE', 'LESSTHAN']))
                self.num(r.choice([0, 1, 2]))
                self.pn('RPAREN')
            else:
                self.kw('not')
                self.pn('LPAREN')
                self.kw(r.choice(['not_empty', 'empty']))
                self.idt(h[0])
                self.pn('RPAREN')
        self.pn('RPAREN')

    # ---- statements (each emits its ';')
    def end(self):
        self.pn('SEMICOLON')

    def x_select_from(self):
        r = self.r
        cls = r.choice(list(EXEC_CLASSES))
        many = r.random() < 0.5
        self.kw('select')
        self.kw('many' if many else 'any')
        v = self.name('s' if many else 'i')
        self.idt(v)
        self.kw('from')
        self.kw('instances')
        self.kw('of')
        self.idt(cls)
        if r.random() < 0.5:
            self.where(cls)
        self.end()
        (self.sets if many else self.insts).append((v, cls))
        self.p.count('x-select-from')

    def guarded(self, body):
        """if (not_empty h) <body using h as safe> end if;  for a random possibly-empty handle"""
        h = self.r.choice(self.insts)
        self.kw('if')
        self.pn('LPAREN')
        self.kw('not_empty')
        self.idt(h[0])
        self.pn('RPAREN')
        if self.r.random() < 0.3:
            self.kw('then')
        saved = (list(self.ints), list(self.insts), list(self.safe), list(self.sets))
        self.safe.append(h)
        body(h)
        self.ints, self.insts, self.safe, self.sets = [list(x) for x in saved]
        if self.r.random() < 0.3:
            self.kw('else')
            self.x_assign_int()
            self.ints = list(saved[0])
        self.end_tok('if')
        self.end()

    def x_select_one_of_many(self):
        """`select one` / `select any` across a to-MANY association from an instance that has SEVERAL related
        instances (A 1 has two Bs), with and without a where clause that keeps several; the attribute of the instance
        that was taken goes into the accumulator, so which instance `one` yields - or that it yields none, or that the
        statement fails - is visible in the result.  (Zero or one related instance behave alike however `one` is
        read; only here does the reading of the cardinality keyword matter.)"""
        r = self.r
        a = self.name('i')
        self.kw('select'); self.kw('any'); self.idt(a); self.kw('from'); self.kw('instances'); self.kw('of')
        self.idt('A'); self.kw('where'); self.pn('LPAREN'); self.kw('selected'); self.pn('DOT'); self.idt('Id')
        self.pn('DOUBLEEQUAL'); self.num(1); self.pn('RPAREN'); self.end()
        v = self.name('r')
        self.kw('select'); self.kw(r.choice(['one', 'one', 'any'])); self.idt(v); self.kw('related'); self.kw('by')
        self.idt(a); self.pn('ARROW'); self.idt('B'); self.pn('LSQBR'); self.idt('R1'); self.pn('RSQBR')
        if r.random() < 0.4:
            self.kw('where'); self.pn('LPAREN'); self.kw('selected'); self.pn('DOT'); self.idt('V')
            self.pn(r.choice(['GT', 'GE', 'NOTEQUAL'])); self.num(r.choice([0, 1, 2])); self.pn('RPAREN')
        self.end()
        self.kw('if'); self.pn('LPAREN'); self.kw('not_empty'); self.idt(v); self.pn('RPAREN')
        self.idt('acc'); self.pn('EQUAL'); self.idt('acc'); self.pn('TIMES'); self.num(3); self.pn('PLUS')
        self.idt(v); self.pn('DOT'); self.idt(r.choice(['V', 'Id'])); self.end()
        self.kw('else')
        self.idt('acc'); self.pn('EQUAL'); self.idt('acc'); self.pn('PLUS'); self.num(1000); self.end()
        self.end_tok('if'); self.end()
        self.insts.append((a, 'A'))
        self.p.count('x-select-one-of-many')

    def x_select_related(self):
        if self.r.random() < 0.3:
            return self.x_select_one_of_many()
        if not self.insts:
            return self.x_select_from()

        def body(h):
            r = self.r
            navs = [n for n in EXEC_NAV if n[0] == h[1]]
            frm, to, rel, phrase, many = r.choice(navs)
            card = r.choice(['many', 'any']) if many else r.choice(['one', 'any'])
            v = self.name('r')
            self.kw('select')
            self.kw(card)
            self.idt(v)
            self.kw('related')
            self.kw('by')
            self.idt(h[0])
            self.pn('ARROW')
            self.idt(to)
            self.pn('LSQBR')
            self.idt(rel)
            if phrase:
                self.pn('DOT')
                self.t('TICKED_PHRASE', phrase)
            self.pn('RSQBR')
            if r.random() < 0.3:
                self.where(to)
            self.end()
            # use the result right away: count it into the accumulator
            self.idt('acc')
            self.pn('EQUAL')
            self.idt('acc')
            self.pn('PLUS')
            if card == 'many':
                self.kw('cardinality')
                self.idt(v)
            else:
                self.pn('LPAREN')
                self.num(1)
                self.pn('RPAREN')
            self.end()
            self.p.count('x-select-related')
        self.guarded(body)

    def x_assign_int(self):
        r = self.r
        writable = [v for v in self.ints if not v.startswith('k')]      # loop counters are read-only
        if writable and r.random() < 0.6:
            v = r.choice(writable)
        else:
            v = self.name('n')
        if r.random() < 0.2:
            self.kw('assign')
        self.idt(v)
        self.pn('EQUAL')
        self.int_expr()
        self.end()
        if v not in self.ints:
            self.ints.append(v)
        self.p.count('x-assign')

    def x_acc(self):
        """acc = acc * 3 + <int expr>  (makes the result depend on everything evaluated so far)"""
        self.idt('acc')
        self.pn('EQUAL')
        self.idt('acc')
        self.pn('TIMES')
        self.num(3)
        self.pn('PLUS')
        self.int_expr()
        self.end()

    def x_attr_write(self):
        if not self.insts:
            return self.x_assign_int()

        def body(h):
            attr = {'A': 'N', 'B': 'V', 'C': 'W'}[h[1]]
            self.idt(h[0])
            self.pn('DOT')
            self.idt(attr)
            self.pn('EQUAL')
            self.int_expr()
            self.end()
            self.p.count('x-attr-write')
        self.guarded(body)

    def x_if(self, depth):
        r = self.r
        self.kw('if')
        self.bool_expr()
        if r.random() < 0.3:
            self.kw('then')
        saved = (list(self.ints), list(self.insts), list(self.safe), list(self.sets))
        self.x_block(depth + 1)
        for _ in range(r.choice([0, 0, 1, 2])):
            self.ints, self.insts, self.safe, self.sets = [list(x) for x in saved]
            self.kw('elif')
            self.bool_expr()
            if r.random() < 0.3:
                self.kw('then')
            self.x_block(depth + 1)
        if r.random() < 0.5:
            self.ints, self.insts, self.safe, self.sets = [list(x) for x in saved]
            self.kw('else')
            self.x_block(depth + 1)
        self.ints, self.insts, self.safe, self.sets = saved
        self.end_tok('if')
        self.end()
        self.p.count('x-if')

    def x_while(self, depth):
        r = self.r
        c = self.name('k')
        self.idt(c)
        self.pn('EQUAL')
        self.num(0)
        self.end()
        self.ints.append(c)
        self.kw('while')
        self.pn('LPAREN')
        self.idt(c)
        self.pn('LESSTHAN')
        self.num(r.choice([1, 2, 3, 4]))
        self.pn('RPAREN')
        if r.random() < 0.3:
            self.kw('loop')
        saved = (list(self.ints), list(self.insts), list(self.safe), list(self.sets))
        self.idt(c)
        self.pn('EQUAL')
        self.idt(c)
        self.pn('PLUS')
        self.num(1)
        self.end()
        self.loop += 1
        self.x_block(depth + 1)
        self.loop -= 1
        self.ints, self.insts, self.safe, self.sets = saved
        self.end_tok('while')
        self.end()
        self.p.count('x-while')

    def x_for(self, depth):
        if not self.sets:
            return self.x_select_from()
        r = self.r
        s, cls = r.choice(self.sets)
        v = self.name('e')
        self.kw('for')
        self.kw('each')
        self.idt(v)
        self.kw('in')
        self.idt(s)
        if r.random() < 0.3:
            self.kw('loop')
        saved = (list(self.ints), list(self.insts), list(self.safe), list(self.sets))
        self.safe.append((v, cls))
        self.loop += 1
        self.x_acc()
        self.x_block(depth + 1)
        self.loop -= 1
        self.ints, self.insts, self.safe, self.sets = saved
        self.end_tok('for')
        self.end()
        self.p.count('x-for')

    def x_jump(self):
        r = self.r
        self.kw('if')
        self.bool_expr()
        k = r.random()
        if self.loop and k < 0.45:
            self.kw('break')
            self.p.count('x-break')
        elif self.loop and k < 0.9:
            self.kw('continue')
            self.p.count('x-continue')
        else:
            self.kw('return')
            self.idt('acc')
            self.p.count('x-return')
        self.end()
        self.end_tok('if')
        self.end()

    def x_create(self):
        """create an instance, give it an id, relate it, maybe unrelate / delete it again"""
        r = self.r
        cls = r.choice(['B', 'C', 'B'])
        v = self.name('c')
        self.kw('create')
        self.kw('object')
        self.kw('instance')
        self.idt(v)
        self.kw('of')
        self.idt(cls)
        self.end()
        self.next_id += 1
        self.idt(v)
        self.pn('DOT')
        self.idt('Id')
        self.pn('EQUAL')
        self.num(self.next_id)
        self.end()
        self.p.count('x-create')
        related = None
        if r.random() < 0.7:
            a = self.name('a')
            self.kw('select')
            self.kw('any')
            self.idt(a)
            self.kw('from')
            self.kw('instances')
            self.kw('of')
            self.idt('A')
            self.kw('where')
            self.pn('LPAREN')
            self.kw('selected')
            self.pn('DOT')
            self.idt('Id')
            self.pn('DOUBLEEQUAL')
            # a C may only be related to an A that has none yet (A2); a B to any A
            self.num(2 if cls == 'C' else r.choice([1, 2, 3]))
            self.pn('RPAREN')
            self.end()
            rel = 'R1' if cls == 'B' else 'R2'
            if cls == 'B' or not getattr(self, 'c_related', False):
                self.kw('relate')
                self.idt(v)
                self.kw('to')
                self.idt(a)
                self.kw('across')
                self.idt(rel)
                self.end()
                related = (a, rel)
                if cls == 'C':
                    self.c_related = True
                self.p.count('x-relate')
        if related and r.random() < 0.4:
            self.kw('unrelate')
            self.idt(v)
            self.kw('from')
            self.idt(related[0])
            self.kw('across')
            self.idt(related[1])
            self.end()
            if related[1] == 'R2':
                self.c_related = False
            related = None
            self.p.count('x-unrelate')
        if not related and r.random() < 0.5:
            self.kw('delete')
            self.kw('object')
            self.kw('instance')
            self.idt(v)
            self.end()
            self.p.count('x-delete')
        else:
            self.safe.append((v, cls))
            self.insts.append((v, cls))

    def effect_call(self):
        """`::spawn()` / `::mark(v: n)`: domain functions WITH A SIDE EFFECT (create a C instance / add to A1.N)
        that return a boolean (EXEC_FUNCTIONS)"""
        r = self.r
        self.pn('DOUBLECOLON')
        if r.random() < 0.5:
            self.idt('spawn')
            self.pn('LPAREN')
            self.pn('RPAREN')
        else:
            self.idt('mark')
            self.pn('LPAREN')
            self.idt('v')
            self.pn('COLON')
            self.num(r.choice([1, 2, 3, 4]))
            self.pn('RPAREN')

    def x_effect(self):
        """a side-effecting call as the RIGHT operand of and / or; the left operand decides the result in about
        half of the cases (OAL evaluates both operands: the effect must happen under every spelling)"""
        r = self.r
        op = r.choice(['and', 'or'])

        def operands():
            k = r.random()
            if k < 0.3:
                self.kw('false' if op == 'and' else 'true')       # left operand decides
            elif k < 0.5:
                self.kw('true' if op == 'and' else 'false')       # left operand does not decide
            else:
                self.bool_expr(1)
            self.kw(op)
            if r.random() < 0.4:
                # a keyword UNARY operator over the side-effecting call: the operand must be evaluated exactly once
                # however the operator is spelled
                self.kw('not')
                if r.random() < 0.3:
                    self.kw('not')
                self.p.count('x-effect-under-not')
            self.effect_call()
        if r.random() < 0.25:
            # v = not ::spawn();  - the unary operation is the whole right-hand side
            v = self.name('f')
            self.idt(v)
            self.pn('EQUAL')
            self.kw('not')
            self.effect_call()
            self.end()
            self.kw('if')
            self.pn('LPAREN')
            self.kw('not')
            self.idt(v)
            self.pn('RPAREN')
            self.x_acc()
            self.end_tok('if')
            self.end()
            self.p.count('x-effect-not')
            return
        if r.random() < 0.5:
            v = self.name('f')
            self.idt(v)
            self.pn('EQUAL')
            operands()
            self.end()
            self.kw('if')
            self.pn('LPAREN')
            self.idt(v)
            self.pn('RPAREN')
            self.x_acc()
            self.end_tok('if')
            self.end()
        else:
            self.kw('if')
            self.pn('LPAREN')
            operands()
            self.pn('RPAREN')
            self.x_acc()
            if r.random() < 0.3:
                self.kw('else')
                self.x_acc()
            self.end_tok('if')
            self.end()
        self.p.count('x-effect-' + op)

    def x_misc(self):
        """constructs whose interpreter / prebuilder handlers hold no keyword themselves but must run - once, and the
        same way - under every spelling of the keywords around them: `create object instance of C;` (no variable),
        real and string literals, an enumerator, an array element"""
        r = self.r
        k = r.random()
        if k < 0.3:
            self.kw('create'); self.kw('object'); self.kw('instance'); self.kw('of'); self.idt('C'); self.end()
            self.p.count('x-create-no-variable')
        elif k < 0.55:
            v = self.name('q')
            self.idt(v); self.pn('EQUAL'); self.t('FRACTION', r.choice(['2.5', '0.5', '1.25', '3.'])); self.pn('TIMES')
            self.num(r.choice([1, 2, 4])); self.end()
            self.kw('if'); self.pn('LPAREN'); self.idt(v); self.pn(r.choice(['GT', 'LESSTHAN', 'GE']))
            self.t('FRACTION', '2.0'); self.pn('RPAREN'); self.x_acc(); self.end_tok('if'); self.end()
            self.p.count('x-real')
        elif k < 0.8:
            v = self.name('t')
            self.idt(v); self.pn('EQUAL'); self.t('STRING', r.choice(['"ab"', '""', '"a b"'])); self.end()
            self.kw('if'); self.pn('LPAREN'); self.idt(v); self.pn(r.choice(['DOUBLEEQUAL', 'NOTEQUAL']))
            self.t('STRING', '"ab"'); self.pn('RPAREN'); self.x_acc(); self.end_tok('if'); self.end()
            self.p.count('x-string')
        elif k < 0.9:
            self.kw('if'); self.pn('LPAREN'); self.t('NAMESPACE', 'Color'); self.t('DOUBLECOLON', '::', glue=True)
            self.idt(r.choice(['Red', 'Green'])); self.pn(r.choice(['DOUBLEEQUAL', 'GT'])); self.num(1)
            self.pn('RPAREN'); self.x_acc(); self.end_tok('if'); self.end()
            self.p.count('x-enumerator')
        else:
            v = self.name('z')
            i = r.choice([0, 1, 2])
            self.idt(v); self.pn('LSQBR'); self.num(i); self.pn('RSQBR'); self.pn('EQUAL'); self.int_expr(1); self.end()
            self.idt('acc'); self.pn('EQUAL'); self.idt('acc'); self.pn('PLUS'); self.idt(v); self.pn('LSQBR')
            self.num(i); self.pn('RSQBR'); self.end()
            self.p.count('x-array')

    def x_block(self, depth):
        r = self.r
        for _ in range(r.choice([1, 1, 2, 3]) if depth else r.randint(3, self.max_stmts)):
            k = r.random()
            if k < 0.07:
                self.x_misc()
            elif k < 0.16:
                self.x_select_from()
            elif k < 0.28:
                self.x_select_related()
            elif k < 0.35:
                self.x_effect()
            elif k < 0.40:
                self.x_assign_int()
            elif k < 0.52:
                self.x_acc()
            elif k < 0.60:
                self.x_attr_write()
            elif k < 0.70 and depth < 2:
                self.x_if(depth)
            elif k < 0.77 and depth < 2:
                self.x_while(depth)
            elif k < 0.86 and depth < 2:
                self.x_for(depth)
            elif k < 0.92 and depth == 0 and self.loop == 0:
                self.x_create()
            elif k < 0.97:
                self.x_jump()
            else:
                self.x_acc()

    def program(self):
        self.idt('acc')
        self.pn('EQUAL')
        self.num(1)
        self.end()
        self.ints.append('acc')
        self.x_block(0)
        if self.r.random() < 0.6:
            self.x_effect()
        self.kw('return')
        self.idt('acc')
        self.end()
        return self.p


def gen_exec_program(rng, max_stmts=8):
    return ExecGen(rng, max_stmts).program()


# --------------------------------------------------------------------------------------- instance-based bodies (C08)

class OpGen(ExecGen):
    """bodies of an INSTANCE OPERATION of class A (home 'op') and of a DERIVED ATTRIBUTE of A (home 'dattr'), invoked
    on the instance A2: `self` as instance name (relate / unrelate / delete), as navigation start and in assignments;
    generate ... to self / class / assigner / creator, create event instance, bridge and transform invocations,
    control stop, using, rcvd_evt - every keyword in a position where it is executed and prebuilt.  Statements the
    interpreter does not support (event generation, send) are logged by it and change nothing."""

    def __init__(self, rng, home='op', max_stmts=5):
        ExecGen.__init__(self, rng, max_stmts)
        self.home = home
        self.no_param = home == 'dattr'          # a derived attribute has no parameters

    def self_kw(self):
        return self.kw('self')

    def o_relate_self(self):
        """move B3 from its A to self:  select any b ..; select one x related by b->A[R1]; unrelate b from x ..;
        relate b to self ..;  (both operand orders)"""
        r = self.r
        b = self.name('b')
        x = self.name('x')
        self.kw('select'); self.kw('any'); self.idt(b); self.kw('from'); self.kw('instances'); self.kw('of')
        self.idt('B'); self.kw('where'); self.pn('LPAREN'); self.kw('selected'); self.pn('DOT'); self.idt('Id')
        self.pn('DOUBLEEQUAL'); self.num(r.choice([1, 2, 4])); self.pn('RPAREN'); self.end()
        self.insts.append((b, 'B'))
        self.kw('if'); self.pn('LPAREN'); self.kw('not_empty'); self.idt(b); self.pn('RPAREN')
        self.kw('select'); self.kw('one'); self.idt(x); self.kw('related'); self.kw('by'); self.idt(b)
        self.pn('ARROW'); self.idt('A'); self.pn('LSQBR'); self.idt('R1'); self.pn('RSQBR'); self.end()
        self.kw('if'); self.pn('LPAREN'); self.kw('not_empty'); self.idt(x); self.pn('RPAREN')
        self.kw('unrelate'); self.idt(b); self.kw('from'); self.idt(x); self.kw('across'); self.idt('R1'); self.end()
        self.end_tok('if'); self.end()
        if r.random() < 0.5:
            self.kw('relate'); self.idt(b); self.kw('to'); self.self_kw(); self.kw('across'); self.idt('R1'); self.end()
        else:
            self.kw('relate'); self.self_kw(); self.kw('to'); self.idt(b); self.kw('across'); self.idt('R1'); self.end()
        if r.random() < 0.4:
            self.kw('unrelate'); self.self_kw(); self.kw('from'); self.idt(b); self.kw('across'); self.idt('R1')
            self.end()
        self.end_tok('if'); self.end()
        self.p.count('o-relate-self')

    def o_nav_self(self):
        r = self.r
        frm, to, rel, phrase, many = r.choice([n for n in EXEC_NAV if n[0] == 'A'])
        card = r.choice(['many', 'any']) if many else r.choice(['one', 'any'])
        v = self.name('r')
        self.kw('select'); self.kw(card); self.idt(v); self.kw('related'); self.kw('by'); self.self_kw()
        self.pn('ARROW'); self.idt(to); self.pn('LSQBR'); self.idt(rel)
        if phrase:
            self.pn('DOT'); self.t('TICKED_PHRASE', phrase)
        self.pn('RSQBR'); self.end()
        self.idt('acc'); self.pn('EQUAL'); self.idt('acc'); self.pn('TIMES'); self.num(2); self.pn('PLUS')
        if card == 'many':
            self.kw('cardinality'); self.idt(v)
            self.sets.append((v, to))
        else:
            self.pn('LPAREN'); self.num(1); self.pn('RPAREN')
            self.insts.append((v, to))
        self.end()
        self.p.count('o-nav-self')

    def o_self_attr(self):
        self.self_kw(); self.pn('DOT'); self.idt('N'); self.pn('EQUAL'); self.self_kw(); self.pn('DOT'); self.idt('N')
        self.pn('PLUS'); self.int_expr(1); self.end()
        self.idt('acc'); self.pn('EQUAL'); self.idt('acc'); self.pn('PLUS'); self.self_kw(); self.pn('DOT')
        self.idt('N'); self.end()
        self.p.count('o-self-attr')

    def o_using(self):
        """relate / unrelate ... using: the link instance is a fresh C (the interpreter relates both halves across
        the same association and logs what the model rejects - the same way under every spelling)"""
        c = self.name('u')
        self.kw('create'); self.kw('object'); self.kw('instance'); self.idt(c); self.kw('of'); self.idt('C'); self.end()
        self.next_id += 1
        self.idt(c); self.pn('DOT'); self.idt('Id'); self.pn('EQUAL'); self.num(self.next_id); self.end()
        self.kw('relate'); self.self_kw(); self.kw('to'); self.self_kw(); self.kw('across'); self.idt('R2')
        self.kw('using'); self.idt(c); self.end()
        if self.r.random() < 0.5:
            self.kw('unrelate'); self.self_kw(); self.kw('from'); self.self_kw(); self.kw('across'); self.idt('R2')
            self.kw('using'); self.idt(c); self.end()
        self.p.count('o-using')

    def o_bridge(self):
        r = self.r
        k = r.random()
        if k < 0.35:
            v = self.name('n')
            self.kw('bridge'); self.idt(v); self.pn('EQUAL'); self.t('NAMESPACE', 'LOG')
            self.t('DOUBLECOLON', '::', glue=True); self.idt('Twice'); self.pn('LPAREN'); self.idt('v'); self.pn('COLON')
            self.int_expr(1); self.pn('RPAREN'); self.end()
            self.ints.append(v)
        elif k < 0.7:
            self.kw('bridge'); self.t('NAMESPACE', 'LOG'); self.t('DOUBLECOLON', '::', glue=True); self.idt('Note')
            self.pn('LPAREN'); self.idt('v'); self.pn('COLON'); self.int_expr(1); self.pn('RPAREN'); self.end()
        else:
            v = self.name('n')
            self.idt(v); self.pn('EQUAL'); self.t('NAMESPACE', 'LOG'); self.t('DOUBLECOLON', '::', glue=True)
            self.idt('Twice'); self.pn('LPAREN'); self.idt('v'); self.pn('COLON'); self.int_expr(1); self.pn('RPAREN')
            self.end()
            self.ints.append(v)
        self.p.count('o-bridge')

    def o_transform(self):
        r = self.r
        if r.random() < 0.3:
            # class-based operation: the keyword `transform` makes `A::Count()` a class invocation
            v = self.name('n')
            self.kw('transform'); self.idt(v); self.pn('EQUAL'); self.t('NAMESPACE', 'A')
            self.t('DOUBLECOLON', '::', glue=True); self.idt('Count'); self.pn('LPAREN'); self.pn('RPAREN'); self.end()
            self.ints.append(v)
            self.p.count('o-transform-class')
            return
        if r.random() < 0.5:
            v = self.name('n')
            self.kw('transform'); self.idt(v); self.pn('EQUAL'); self.self_kw(); self.pn('DOT'); self.idt('Bump')
            self.pn('LPAREN'); self.idt('v'); self.pn('COLON'); self.int_expr(1); self.pn('RPAREN'); self.end()
            self.ints.append(v)
        else:
            self.kw('transform'); self.self_kw(); self.pn('DOT'); self.idt('Bump'); self.pn('LPAREN'); self.idt('v')
            self.pn('COLON'); self.num(r.choice([1, 2, 3])); self.pn('RPAREN'); self.end()
        self.p.count('o-transform')

    def ev_spec(self, label, meaning=True, data=True):
        self.idt(label)
        if meaning and self.r.random() < 0.6:
            self.pn('COLON'); self.t('TICKED_PHRASE', "'go'")
        if data and self.r.random() < 0.5:
            self.pn('LPAREN'); self.idt('x'); self.pn('COLON'); self.int_expr(1); self.pn('RPAREN')

    def o_generate(self):
        r = self.r
        k = r.random()
        self.kw('generate')
        if k < 0.3:
            self.ev_spec('A1'); self.kw('to'); self.self_kw()
        elif k < 0.5:
            self.ev_spec('A3'); self.kw('to'); self.idt('A'); self.kw(r.choice(['class', 'assigner']))
        elif k < 0.7:
            self.ev_spec('A2'); self.kw('to'); self.idt('A'); self.kw('creator')
        else:
            self.ev_spec('A1'); self.kw('to'); self.self_kw()
        self.end()
        self.p.count('o-generate')

    def o_create_event(self):
        r = self.r
        ev = self.name('ev')
        self.kw('create'); self.kw('event'); self.kw('instance'); self.idt(ev); self.kw('of')
        k = r.random()
        if k < 0.4:
            self.ev_spec('A1'); self.kw('to'); self.self_kw()
        elif k < 0.7:
            self.ev_spec('A3'); self.kw('to'); self.idt('A'); self.kw(r.choice(['class', 'assigner']))
        else:
            self.ev_spec('A2'); self.kw('to'); self.idt('A'); self.kw('creator')
        self.end()
        self.kw('generate'); self.idt(ev); self.end()
        self.p.count('o-create-event')

    def o_rcvd(self):
        self.idt('acc'); self.pn('EQUAL'); self.idt('acc'); self.pn('PLUS'); self.kw('rcvd_evt'); self.pn('DOT')
        self.idt('n'); self.end()
        self.p.count('o-rcvd-evt')

    def o_stop(self):
        self.kw('if'); self.bool_expr(1); self.kw('control'); self.kw('stop'); self.end(); self.end_tok('if'); self.end()
        self.p.count('o-control-stop')

    def o_delete_self(self):
        self.kw('if'); self.pn('LPAREN'); self.kw('param'); self.pn('DOT'); self.idt('n'); self.pn('GT'); self.num(3)
        self.pn('RPAREN'); self.kw('delete'); self.kw('object'); self.kw('instance'); self.self_kw(); self.end()
        self.end_tok('if'); self.end()
        self.p.count('o-delete-self')

    def program(self):
        r = self.r
        self.idt('acc'); self.pn('EQUAL'); self.num(1); self.end()
        self.ints.append('acc')
        pool = [self.o_relate_self, self.o_nav_self, self.o_self_attr, self.o_using, self.o_bridge, self.o_transform,
                self.o_generate, self.o_create_event, self.o_rcvd, self.o_stop, self.x_effect, self.x_acc,
                self.x_select_related, self.x_assign_int, self.x_misc]
        if self.no_param:
            pool.remove(self.o_rcvd)
        n = r.randint(3, self.max_stmts + 2)
        for _ in range(n):
            r.choice(pool)()
        if r.random() < 0.25 and not self.no_param:
            self.o_delete_self()
        if self.home == 'dattr':
            # the value of the derived attribute D
            self.self_kw(); self.pn('DOT'); self.idt('D'); self.pn('EQUAL'); self.idt('acc'); self.end()
        else:
            if r.random() < 0.15:
                # a port message is beyond both the interpreter and this prebuild domain: last statement only
                self.kw('send'); self.t('NAMESPACE', 'PORT'); self.t('DOUBLECOLON', '::', glue=True); self.idt('sig')
                self.pn('LPAREN'); self.pn('RPAREN'); self.end()
                self.p.count('o-send')
            self.kw('return'); self.idt('acc'); self.end()
        return self.p


def gen_op_program(rng, home='op', max_stmts=5):
    return OpGen(rng, home, max_stmts).program()
