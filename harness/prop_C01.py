"""C01 — Persisted models load back unchanged (schema, values, links).

A case is a random metamodel description (harness/gen_schema.py) built through the public API, so that links
exist independently of any text.  For every writer route of xtuml/persist.py

    db        serialize_database
    parts     serialize_schema + serialize_instances + serialize_unique_identifiers, concatenated in a random order,
              and fed as separate input() calls in another random order
    pdb       persist_database to a file, ModelLoader.filename_input
    pparts    persist_schema / persist_instances / persist_unique_identifiers to three files, load_metamodel([...])
    dispatch  xtuml.serialize(metamodel) and the per-resource dispatch serialize(class|association|instance)
    inferred  the INSERT statements only (no CREATE TABLE): attribute types are guessed from the values
    extra     two of seven further load routes per case (all seven for the fixed families): file object, single file name, the
              database text through a file, the database file through input(), the three files / parts with a missing
              last newline or a last `--` comment without newline, two builds from one loader with the first metamodel
              changed in between
    boundary  five fixed models: 255 / 256 / 257 rows with strings of 254..257 characters, integers at the 8 / 31 / 53 / 63 /
              64-bit boundaries and 128-bit ids; classes with 255 / 256 attributes
    twins     two fixed models with two of everything: identifiers of one name on two classes and over one attribute,
              two associations between one pair of classes, two reflexive associations, phrases differing in a letter
    nonfinite OBSERVATION only: a REAL attribute holding inf / -inf / nan is outside the persistable domain (the format has no
              numeral for it: the writers emit the bare word, the loader raises ParsingException); counted, not demanded
    null-key-link ten fixed models of the OPEN FINDING `null-key-link-lost`, the mirror case: an instance related to one whose
              identifying value is the null value of its STRING / UNIQUE_ID type; the reload loses the link
    unset-relink  twelve fixed models of the OPEN FINDING `unset-referential-relinks` (an unrelated referrer with an unset
              INTEGER / REAL / BOOLEAN referential attribute, an instance of the referred class carrying the type default
              as identifying value); D reports exactly that difference under the finding's signature, any other link
              difference stays `<route>:reload-differs`
    regen     (every third random model, file routes) TWO GENERATIONS AT ONE PATH: after the files were written and loaded,
              values of plain attributes are changed through the API so that the text keeps its size, the model is
              persisted to the SAME paths at once and loaded by new loaders; then once more with a change of size

    pone      (every model) ONE FILE BY APPENDING, the use of the `mode` argument of the three file writers: persist_schema /
              persist_instances / persist_unique_identifiers write to ONE path in a random order, the first call with mode 'w'
              or 'a' on a path that does not exist yet, the later calls with mode='a' (keyword or positional); load_metamodel
              of that one file.  Extra routes of the same kind: persist_database(mode='a') on a new path, persist_database
              with an explicit mode 'w' over a file that holds older text, the three writers with mode='a' on three new paths
    tower     D-only (no model counterpart): NUMERIC VALUES THAT ARE NOT OF THE EXACT PYTHON TYPE OF THEIR COLUMN but belong to
              it by Python's numeric tower: an INTEGER attribute (plain, identifying, referential) holding a bool (True == 1),
              a REAL attribute holding an int or a bool that a double represents exactly; compared by VALUE (1 == True,
              3 == 3.0): fixed schemas and random schemas with such values substituted

  D  the reloaded metamodel has the same canonical dump as the original (classes, attribute types upper-cased,
     associations with number / keys / multiplicity / conditionality / phrases, identifiers, rows per class in order,
     link pairs in both directions), where an unset value equals the null value of its type and reals are compared
     at the six decimals of the format (computed with `decimal`, not with '%f'); and serialising the reloaded
     metamodel, loading that and serialising again gives the same text (fixed point after one round).
  K  lean/PyxModel/Sql: the Lean writers produce the same eight texts character for character from the same
     metamodel; the Lean lexer + parser produce the same statement list as `loader.statements` for each of them
     (and for one concatenation of the three parts); the Lean build produces the same classes / identifiers /
     associations / rows; the links the Lean spec join (`linksOf`) derives from the key values of the generated metamodel
     equal the links the real in-memory model holds, and `linksOf` of the metamodel the Lean side builds from the
     written text equals the links of the really reloaded model; the second-round texts (serialize_database of the
     metamodel rebuilt from the database text, serialize_instances of the metamodel rebuilt from the INSERT statements
     alone) equal the texts the implementation writes from its reloaded metamodels; the token streams of the two database
     texts, from the hand matchers and from the regex engine on the parse trees generated from the `t_*` regexes, equal
     those of the real PLY lexer.
"""
import hashlib
import math
import json
import os
import shutil
import tempfile
import traceback

from sexp import Sym, dumps

import gen_schema

PROP = 'C01'
RULE = ('random schemas (1-5 classes, 0-6 attributes of every core type in every letter case, names also from the '
        'reserved words, M/MC and (one name in twelve) near-keywords such as null / key / integer in every letter case; simple, reflexive-with-phrases, association-class, subtype relationships; 0-3 '
        'identifiers per class) with populations built through the API, values weighted towards the hazards of the '
        'text format (integers at the 8/31/53/63/64-bit boundaries); plus a sweep placing every reserved word in every identifier '
        'position; fixed families: unset-relink (open finding), shared-ref (a referential attribute shared by two / three associations, instances related across only the first, only the second, both, none), boundary (255/256/257 rows, 255/256 attributes), twins (two of '
        'everything), two generations at one path; tower (D-only: INTEGER attributes -- plain, identifying, referential -- holding a bool, REAL attributes holding an int / bool that a double represents exactly, compared by value: 12 fixed models and random schemas with such values substituted); every model also through ONE FILE BY APPENDING (persist_schema / persist_instances / persist_unique_identifiers onto one path in a random order, first call mode w or a on a new path, later calls mode=a), plus one of three further uses of the mode argument per case (persist_database mode=a on a new path, explicit w over older text, three new files with a); two of seven extra load routes per case; the ORIGINAL of every comparison is the description computed from the generated spec alone (`gen_schema.spec_dump`), the model built through the API must read like it (`original-differs-from-input`: a validity check of the case, model under test = generated spec); a case is non-trivial '
        'when it has rows and at least one hazard value or link; distinct = distinct model description')
EXHAUSTIVE = {'quick': False, 'thorough': False}
ASSUMPTIONS = [
    "binary<->decimal conversion of Python floats ('%f' % v, float(text)) is not modelled: a double read from a "
    "six-decimal numeral prints as that numeral (validated on the sampled doubles of every run)",
    'files are written and read in the UTF-8 locale of the check',
    "CPython's limit of 4300 digits for int<->str conversion is outside the model (integers stay below it)",
    'links are compared through navigation on both link directions; the key-matching join itself is the subject of C03',
    "non-finite REALs are outside the persistable domain: the format has no numeral for inf / -inf / nan (m.new('A', r=float('inf')); "
    "serialize_instances(m) writes the bare word inf, ModelLoader.input raises ParsingException 'illegal token ID (inf)'); the "
    "family nonfinite only counts what happens",
    "numeric tower (family tower): a value belongs to a column when Python's numeric tower accepts it for the column's type -- a "
    "bool for INTEGER (bool is a subtype of int), an int or bool for REAL -- and equality is by value (True == 1, 3 == 3.0); ints "
    "in REAL columns are limited to those a double holds exactly (the writers go through '%f'); a float in an INTEGER column "
    "(2.0) is NOT generated: float is no subtype of int, such a model is taken to be outside the persistable domain",
    "the mode argument of the file writers (routes pone-appended, pdb-append-new-path, pdb-w-over-older-text, "
    "pparts-append-new-paths) is used only so that the resulting file holds exactly one schema / population / identifier text "
    "of the model (first writer creates the file, the others append); appending to unrelated older content is not generated",
]
TRUSTED_EXTRA = ['harness/gen_schema.py (generator, canonical dump, six-decimal oracle via the decimal module)']
CHUNK = 100
CASE_TIMEOUT_S = 60
BUDGET_S = {'quick': 80, 'thorough': 780}

_x = None
_tmpdir = None
ROUTE_NAMES = ['db', 'schema', 'instances', 'idents', 'pdb', 'pschema', 'pinstances', 'pidents']


def setup(ctx):
    global _x, _tmpdir
    import xtuml
    _x = xtuml
    _tmpdir = str(ctx.ws.tmp('c01-files'))
    # build the PLY tables once in the parent so that the pool workers only read them
    xtuml.ModelLoader().input('')


# --------------------------------------------------------------------------- cases

def _sweep_specs():
    """every reserved word (three spellings) and the cardinality words in every identifier position"""
    words = []
    for w in gen_schema.RESERVED + ['M', 'MC']:
        for v in (w, w.lower(), w.capitalize()):
            if v not in words:
                words.append(v)
    n = len(words)
    for i, w in enumerate(words):
        w2, w3, w4, w5 = (words[(i + k) % n] for k in (5, 11, 17, 23))
        names = []
        for cand in (w, w2, w3, w4, w5, 'k1', 'k2', 'k3'):
            if cand.upper() not in [x.upper() for x in names]:
                names.append(cand)
        a, b, c, d, e = names[:5]
        classes = [
            {'kind': a, 'attrs': [[b, 'unique_id'], [c, 'STRING'], [d, 'Integer']], 'idents': [[e, [b, c]], ['I1', [d]]],
             'roles': ['key', 'plain', 'plain']},
            {'kind': b, 'attrs': [[a, 'UNIQUE_ID'], [e, 'integer'], [c, 'BOOLEAN']], 'idents': [[a, [e]]],
             'roles': ['ref', 'plain', 'plain']},
        ]
        assocs = [
            {'rel': 1 + i, 'src': {'ci': 1, 'keys': [a], 'many': True, 'cond': bool(i % 2), 'phrase': ''},
             'tgt': {'ci': 0, 'keys': [b], 'many': False, 'cond': bool(i % 3 == 0), 'phrase': ''}},
        ]
        rows = [{'ci': 0, 'vals': [7 + i, "it's %s" % w, -i]}, {'ci': 0, 'vals': [2 ** 100 + i, '', 5]},
                {'ci': 1, 'vals': [None, None, True]}, {'ci': 1, 'vals': [None, None, None]}]
        links = [{'assoc': 0, 'src': 2, 'tgt': 0}, {'assoc': 0, 'src': 3, 'tgt': 0}]
        yield {'classes': classes, 'assocs': assocs, 'rows': rows, 'links': links, 'int_rel_ids': bool(i % 2)}


def _unset_relink_specs():
    """OPEN FINDING `unset-referential-relinks`, generated on purpose: an UNRELATED referrer whose INTEGER / REAL / BOOLEAN
    referential attribute is unset, while an instance of the referred class carries the type default 0 / 0.0 / False as
    identifying value.  The writers print the unset attribute as that default, the loader does not treat it as null, the
    reload links the two.  Variants: other rows and a genuinely related pair next to them; a composite key."""
    for ty, dflt, other in (('INTEGER', 0, 5), ('REAL', 0.0, 2.5), ('BOOLEAN', False, True), ('integer', 0, -3)):
        for variant in range(3):
            b = {'kind': 'B', 'attrs': [['Id', ty]], 'idents': [['I1', ['Id']]], 'roles': ['key']}
            a = {'kind': 'A', 'attrs': [['N', 'INTEGER'], ['B_Id', ty]], 'idents': [], 'roles': ['plain', 'ref']}
            rows = [{'ci': 0, 'vals': [dflt]}, {'ci': 1, 'vals': [7, None]}]
            links = []
            if variant >= 1:
                rows += [{'ci': 0, 'vals': [other]}, {'ci': 1, 'vals': [8, None]}]
                links.append({'assoc': 0, 'src': 3, 'tgt': 2})
            if variant == 2:
                rows.append({'ci': 1, 'vals': [9, None]})          # a second unrelated referrer
            assocs = [{'rel': 1, 'src': {'ci': 1, 'keys': ['B_Id'], 'many': True, 'cond': True, 'phrase': ''},
                       'tgt': {'ci': 0, 'keys': ['Id'], 'many': False, 'cond': True, 'phrase': ''}}]
            yield {'classes': [b, a], 'assocs': assocs, 'rows': rows, 'links': links, 'int_rel_ids': False}


def _boundary_specs():
    """counts and sizes at the 8-bit boundary, integers at the 31 / 53 / 63 / 64-bit boundaries (robustness pattern 6)"""
    ints = [255, 256, 2 ** 31 - 1, 2 ** 31, 2 ** 53 - 1, 2 ** 53, 2 ** 53 + 1, -(2 ** 53) - 1, 2 ** 63 - 1, 2 ** 63, -(2 ** 63) - 1,
            2 ** 64 - 1, 2 ** 64, 2 ** 64 + 1]
    for nrows in (255, 256, 257):
        a = {'kind': 'A', 'attrs': [['Id', 'INTEGER'], ['S', 'STRING'], ['N', 'INTEGER'], ['U', 'UNIQUE_ID']],
             'idents': [['I1', ['Id']]], 'roles': ['key', 'plain', 'plain', 'plain']}
        rows = [{'ci': 0, 'vals': [i + 1, 'x' * (254 + i % 4), ints[i % len(ints)], (2 ** 128 - 1 - i) if i % 2 else 255 + i]}
                for i in range(nrows)]
        yield {'classes': [a], 'assocs': [], 'rows': rows, 'links': [], 'int_rel_ids': False}
    for nattrs in (255, 256):
        w = {'kind': 'Wide', 'attrs': [['a%d' % k, 'INTEGER'] for k in range(nattrs)], 'idents': [['I1', ['a0', 'a%d' % (nattrs - 1)]]],
             'roles': ['plain'] * nattrs}
        yield {'classes': [w], 'assocs': [], 'rows': [{'ci': 0, 'vals': list(range(nattrs))}, {'ci': 0, 'vals': [None] * nattrs}],
               'links': [], 'int_rel_ids': False}


def _twins_specs():
    """TWO OF A KIND (robustness pattern 7): the same identifier name on two classes and twice over the same attribute, two
    associations between the same pair of classes, two reflexive associations on one class, phrases that differ in one letter"""
    for variant in range(2):
        p = {'kind': 'P', 'attrs': [['Id', 'INTEGER'], ['Code', 'STRING'], ['Prev_Id', 'INTEGER'], ['Up_Id', 'INTEGER']],
             'idents': [['I1', ['Id']], ['I2', ['Id', 'Code']], ['I3', ['Id']]], 'roles': ['key', 'plain', 'ref', 'ref']}
        q = {'kind': 'Q', 'attrs': [['Id', 'INTEGER'], ['P_Id', 'INTEGER'], ['P2_Id', 'INTEGER'], ['Code', 'STRING']],
             'idents': [['I1', ['Id']], ['I2', ['Code']]], 'roles': ['key', 'ref', 'ref', 'plain']}

        def end(ci, keys, many, cond, phrase):
            return {'ci': ci, 'keys': keys, 'many': many, 'cond': cond, 'phrase': phrase}
        assocs = [{'rel': 1, 'src': end(1, ['P_Id'], True, True, ''), 'tgt': end(0, ['Id'], False, True, '')},
                  {'rel': 2, 'src': end(1, ['P2_Id'], True, True, ''), 'tgt': end(0, ['Id'], False, True, '')},
                  {'rel': 3, 'src': end(0, ['Prev_Id'], False, True, 'precedes'), 'tgt': end(0, ['Id'], False, True, 'succeeds')},
                  {'rel': 4, 'src': end(0, ['Up_Id'], True, True, 'precedes' if variant else 'is below'),
                   'tgt': end(0, ['Id'], False, True, 'preceded' if variant else 'is above')}]
        rows = [{'ci': 0, 'vals': [1, 'a', None, None]}, {'ci': 0, 'vals': [2, 'a', None, None]}, {'ci': 0, 'vals': [3, 'b', None, None]},
                {'ci': 1, 'vals': [1, None, None, 'a']}, {'ci': 1, 'vals': [2, None, None, 'b']}]
        links = [{'assoc': 0, 'src': 3, 'tgt': 0}, {'assoc': 1, 'src': 3, 'tgt': 1}, {'assoc': 0, 'src': 4, 'tgt': 1},
                 {'assoc': 2, 'src': 1, 'tgt': 0}, {'assoc': 2, 'src': 2, 'tgt': 1}, {'assoc': 3, 'src': 1, 'tgt': 0},
                 {'assoc': 3, 'src': 2, 'tgt': 0}]
        if variant:
            links = links[:3] + [{'assoc': 3, 'src': 0, 'tgt': 2}, {'assoc': 2, 'src': 2, 'tgt': 0}]
        yield {'classes': [p, q], 'assocs': assocs, 'rows': rows, 'links': links, 'int_rel_ids': bool(variant)}


def _shared_ref_specs():
    """A REFERENTIAL ATTRIBUTE SHARED BY TWO ASSOCIATIONS (Booking.Holder_Id refers to Person.Id across R1 and to Company.Id
    across R2, the usual shape of shared referentials): bookings related across only the first-defined association, only the
    second, both (then both keys are equal) and none; the key values of the two referred classes are otherwise disjoint, so
    that the values denote exactly the links.  Every key type, both definition orders, a shared composite key."""
    def end(ci, keys, many, cond, phrase=''):
        return {'ci': ci, 'keys': keys, 'many': many, 'cond': cond, 'phrase': phrase}
    pools = {'INTEGER': ([1, 2, 7], [11, 12, 7]), 'STRING': (['p1', "p'2", 'both'], ['c1', 'c--2', 'both']),
             'UNIQUE_ID': ([1, 2, 2 ** 100], [11, 12, 2 ** 100]), 'integer': ([-1, 2 ** 64, 5], [3, 4, 5])}
    for ty, (pvals, cvals) in pools.items():
        for swap in (False, True):
            person = {'kind': 'Person', 'attrs': [['Id', ty], ['Name', 'STRING']], 'idents': [['I1', ['Id']]], 'roles': ['key', 'plain']}
            company = {'kind': 'Company', 'attrs': [['Id', ty]], 'idents': [['I1', ['Id']]], 'roles': ['key']}
            booking = {'kind': 'Booking', 'attrs': [['N', 'INTEGER'], ['Holder_Id', ty]], 'idents': [['I1', ['N']]], 'roles': ['key', 'ref']}
            assocs = [{'rel': 1, 'src': end(2, ['Holder_Id'], True, True), 'tgt': end(0, ['Id'], False, True)},
                      {'rel': 2, 'src': end(2, ['Holder_Id'], True, True), 'tgt': end(1, ['Id'], False, True)}]
            if swap:
                assocs.reverse()
            a_p, a_c = (1, 0) if swap else (0, 1)
            rows = [{'ci': 0, 'vals': [v, 'n%d' % k]} for k, v in enumerate(pvals)] + [{'ci': 1, 'vals': [v]} for v in cvals] + \
                   [{'ci': 2, 'vals': [k, None]} for k in range(1, 7)]
            # bookings are rows 6..11: only Person, only Company, both (the equal keys), none, only Person (shared target), only Company
            links = [{'assoc': a_p, 'src': 6, 'tgt': 0}, {'assoc': a_c, 'src': 7, 'tgt': 3},
                     {'assoc': a_p, 'src': 8, 'tgt': 2}, {'assoc': a_c, 'src': 8, 'tgt': 5},
                     {'assoc': a_p, 'src': 10, 'tgt': 0}, {'assoc': a_c, 'src': 11, 'tgt': 4}]
            yield {'classes': [person, company, booking], 'assocs': assocs, 'rows': rows, 'links': links, 'int_rel_ids': swap}
    # a shared COMPOSITE referential key, and a third association over the same attribute
    for variant in range(2):
        a = {'kind': 'A', 'attrs': [['X', 'INTEGER'], ['Y', 'INTEGER']], 'idents': [['I1', ['X', 'Y']]], 'roles': ['key', 'key']}
        b = {'kind': 'B', 'attrs': [['X', 'INTEGER'], ['Y', 'INTEGER'], ['S', 'STRING']], 'idents': [['I1', ['X', 'Y']]], 'roles': ['key', 'key', 'plain']}
        c = {'kind': 'C', 'attrs': [['X', 'INTEGER'], ['Y', 'INTEGER']], 'idents': [['I1', ['Y', 'X']]], 'roles': ['key', 'key']}
        r = {'kind': 'Ref', 'attrs': [['N', 'INTEGER'], ['P', 'INTEGER'], ['Q', 'INTEGER']], 'idents': [], 'roles': ['plain', 'ref', 'ref']}
        assocs = [{'rel': 1, 'src': end(3, ['P', 'Q'], True, True), 'tgt': end(0, ['X', 'Y'], False, True)},
                  {'rel': 2, 'src': end(3, ['P', 'Q'], True, True), 'tgt': end(1, ['X', 'Y'], False, True)}]
        if variant:
            assocs.append({'rel': 3, 'src': end(3, ['Q', 'P'], True, True), 'tgt': end(2, ['X', 'Y'], False, True)})
        rows = [{'ci': 0, 'vals': [1, 2]}, {'ci': 0, 'vals': [2, 1]}, {'ci': 1, 'vals': [3, 4, 'b']}, {'ci': 1, 'vals': [4, 3, "b'"]},
                {'ci': 2, 'vals': [5, 6]}, {'ci': 2, 'vals': [8, 9]}] + [{'ci': 3, 'vals': [k, None, None]} for k in range(5)]
        links = [{'assoc': 0, 'src': 6, 'tgt': 0}, {'assoc': 0, 'src': 7, 'tgt': 1}, {'assoc': 1, 'src': 8, 'tgt': 2},
                 {'assoc': 1, 'src': 9, 'tgt': 3}]
        if variant:
            links.append({'assoc': 2, 'src': 10, 'tgt': 4})         # Ref.Q = C.X, Ref.P = C.Y
        yield {'classes': [a, b, c, r], 'assocs': assocs, 'rows': rows, 'links': links, 'int_rel_ids': False}


NONFINITE = [float('inf'), float('-inf'), float('nan')]


def _null_key_specs():
    """OPEN FINDING `null-key-link-lost` (mirror of unset-referential-relinks), generated on purpose: an instance is RELATED to
    an instance whose identifying value is the null value of its STRING / UNIQUE_ID type ('' / 0 / unset); the key is
    written as '' / the zero uuid, the loader treats it as null, the reload has no link."""
    for ty, nullv in (('STRING', ''), ('STRING', None), ('UNIQUE_ID', 0), ('UNIQUE_ID', None), ('string', '')):
        for variant in range(2):
            b = {'kind': 'B', 'attrs': [['Id', ty]], 'idents': [['I1', ['Id']]], 'roles': ['key']}
            a = {'kind': 'A', 'attrs': [['N', 'INTEGER'], ['B_Id', ty]], 'idents': [], 'roles': ['plain', 'ref']}
            rows = [{'ci': 0, 'vals': [nullv]}, {'ci': 1, 'vals': [2, None]}]
            links = [{'assoc': 0, 'src': 1, 'tgt': 0}]
            if variant:
                other = 'k1' if ty.upper() == 'STRING' else 77
                rows += [{'ci': 0, 'vals': [other]}, {'ci': 1, 'vals': [3, None]}, {'ci': 1, 'vals': [4, None]}]
                links.append({'assoc': 0, 'src': 3, 'tgt': 2})
            assocs = [{'rel': 1, 'src': {'ci': 1, 'keys': ['B_Id'], 'many': True, 'cond': True, 'phrase': ''},
                       'tgt': {'ci': 0, 'keys': ['Id'], 'many': False, 'cond': True, 'phrase': ''}}]
            yield {'classes': [b, a], 'assocs': assocs, 'rows': rows, 'links': links, 'int_rel_ids': False}


TOWER_REALS = [0, 1, -1, 7, -42, 255, 10 ** 15, 2 ** 31, -(2 ** 53), 2 ** 53, 2 ** 70, -(2 ** 100), True, False]   # ints / bools a double holds exactly


def _tower_specs():
    """NUMERIC TOWER, fixed models: an INTEGER column may hold a bool (bool is a subtype of int, True == 1) -- as a plain
    flag, as the identifying value of a related instance and hence as a referential value --, a REAL column may hold an int
    or a bool (every value here is exactly a double).  In every letter case of the type names.  False / 0 are never used as
    identifying values (open findings about null keys)."""
    def end(ci, keys, many, cond):
        return {'ci': ci, 'keys': keys, 'many': many, 'cond': cond, 'phrase': ''}
    flag_sets = [[True, False, 1, 0], [True, True, -3, 2 ** 70], [False, None, True, 7]]
    real_sets = [[3, -7, 0, True], [2 ** 70, -(2 ** 53), 1, False], [1, 2.5, -1, None]]
    for ity, rty in (('INTEGER', 'REAL'), ('integer', 'Real')):
        for flags, reals in zip(flag_sets, real_sets):
            for boolkey in (False, True):
                cls = {'kind': 'Cls', 'attrs': [['Id', ity], ['Ratio', rty]], 'idents': [['I1', ['Id']]], 'roles': ['key', 'plain']}
                attr = {'kind': 'Attr', 'attrs': [['N', 'INTEGER'], ['Is_Const', ity], ['Scale', rty], ['Name', 'STRING'], ['Cls_Id', ity]],
                        'idents': [['I1', ['N']]], 'roles': ['key', 'plain', 'plain', 'plain', 'ref']}
                rows = [{'ci': 0, 'vals': [True if boolkey else 5, reals[0]]}, {'ci': 0, 'vals': [2, reals[1]]}] + \
                       [{'ci': 1, 'vals': [n + 1, flags[n], reals[n], "a'%d" % n, None]} for n in range(4)]
                links = [{'assoc': 0, 'src': 2, 'tgt': 0}, {'assoc': 0, 'src': 3, 'tgt': 0}, {'assoc': 0, 'src': 4, 'tgt': 1}]
                assocs = [{'rel': 102, 'src': end(1, ['Cls_Id'], True, True), 'tgt': end(0, ['Id'], False, True)}]
                yield {'classes': [cls, attr], 'assocs': assocs, 'rows': rows, 'links': links, 'int_rel_ids': boolkey}


def _towerize(spec, rng):
    """a random spec with about half of the set values of its plain INTEGER attributes replaced by a bool and of its plain
    REAL attributes by an int / bool that a double holds exactly; None when nothing was replaced"""
    spec = json.loads(json.dumps(spec))
    changed = 0
    for r in spec['rows']:
        c = spec['classes'][r['ci']]
        roles = c.get('roles') or []
        for k, (nm, ty) in enumerate(c['attrs']):
            if k >= len(roles) or roles[k] != 'plain' or r['vals'][k] is None or rng.random() < 0.5:
                continue
            if ty.upper() == 'INTEGER':
                r['vals'][k] = rng.random() < 0.5
                changed += 1
            elif ty.upper() == 'REAL':
                r['vals'][k] = rng.choice(TOWER_REALS)
                changed += 1
    return spec if changed else None


def _tower(d):
    """a canonical dump compared BY VALUE along the numeric tower: a bool in an INTEGER column is the integer it equals, a
    bool in a REAL column the real it equals (gen_schema.canon_value already reads an int in a REAL column as a real)"""
    try:
        for c in d['classes'].values():
            types = [t for _, t in c['attrs']]
            for row in c['rows']:
                for k, cell in enumerate(row):
                    if isinstance(cell, list) and len(cell) == 2 and cell[0] == 'bool' and k < len(types):
                        if types[k] == 'INTEGER':
                            row[k] = ['int', int(cell[1])]
                        elif types[k] == 'REAL':
                            row[k] = gen_schema.canon_value(int(cell[1]), 'REAL')
    except Exception:
        pass                       # a dump of an unexpected shape is compared as it is
    return d


def _mk_case(spec, rng, tag, regen=False):
    perm = [0, 1, 2]
    rng.shuffle(perm)
    perm2 = [0, 1, 2]
    rng.shuffle(perm2)
    case = {'tag': tag, 'spec': spec, 'perm': perm, 'perm2': perm2}
    if regen:
        case['regen'] = True          # family "two generations at one path" on the file routes
    return case


def generate(ctx):
    rng = ctx.rng.fork('sweep')
    for i, spec in enumerate(_sweep_specs()):
        if ctx.quick() and i % 3 != ctx.seed % 3:
            continue
        yield _mk_case(spec, rng, 'sweep')
    for spec in _unset_relink_specs():
        yield _mk_case(spec, rng, 'unset-relink')
    for spec in _null_key_specs():
        yield _mk_case(spec, rng, 'null-key-link')
    for spec in _boundary_specs():
        yield _mk_case(spec, rng, 'boundary')
    srng = ctx.rng.fork('shared-ref')                 # a PRNG of its own: the other cases stay what they were
    for spec in _shared_ref_specs():
        yield _mk_case(spec, srng, 'shared-ref')
    for spec in _twins_specs():
        yield _mk_case(spec, rng, 'twins', regen=True)
    for k in range(3):
        yield {'tag': 'nonfinite', 'nonfinite': k, 'perm': [0, 1, 2], 'perm2': [0, 1, 2]}
    trng = ctx.rng.fork('tower')                      # a PRNG of its own: the other cases stay what they were
    for spec in _tower_specs():
        yield _mk_case(spec, trng, 'tower')
    for i in range(ctx.pick(60, 900)):
        r = ctx.rng.fork('tower-model', i)
        spec = _towerize(gen_schema.gen_spec(r, big=(i % 5 == 4)), r)
        if spec is not None:
            yield _mk_case(spec, r, 'tower')
    n = ctx.pick(650, 9000)
    for i in range(n):
        r = ctx.rng.fork('model', i)
        big = (i % 5 == 4) or (not ctx.quick() and i % 2 == 0)
        yield _mk_case(gen_schema.gen_spec(r, big=big), r, 'random', regen=(i % 3 == 1))


# --------------------------------------------------------------------------- implementation side

_stmt_dump = gen_schema.stmt_dump


def _cell_text(inst, nm, ty):
    try:
        return _x.serialize_value(getattr(inst, nm), ty)
    except Exception:
        return Sym('error')


def _build_dump(m):
    classes = []
    for mc in m.metaclasses.values():
        classes.append([Sym('cls'), mc.kind, [[a, b] for a, b in mc.attributes],
                        [[nm, list(attrs)] for nm, attrs in mc.indices.items()],
                        [[_cell_text(inst, nm, ty) for nm, ty in mc.attributes] for inst in mc.storage]])
    assocs = []
    for ass in m.associations:
        sl, tl = ass.source_link, ass.target_link
        assocs.append([Sym('assoc'), ass.rel_id,
                       [_b(sl.many), _b(sl.conditional), sl.to_metaclass.kind, list(ass.source_keys), tl.phrase],
                       [_b(tl.many), _b(tl.conditional), tl.to_metaclass.kind, list(ass.target_keys), sl.phrase]])
    return [Sym('ok'), classes, assocs]


def _b(v):
    return Sym('T') if v else Sym('F')


def _load_obs(text):
    l = _x.ModelLoader()
    try:
        l.input(text)
    except _x.ParsingException:
        return [Sym('parsing')]
    stmts = [_stmt_dump(s) for s in l.statements]
    try:
        b = _build_dump(l.build_metamodel())
    except _x.ParsingException:
        b = Sym('parsing')
    except _x.MetaException:
        b = Sym('meta')
    return [Sym('accepted'), stmts, b]


def _link_pairs(m):
    """per association (in the order of metamodel.associations) the sorted pairs [source row index, target row index],
    each index within its class's storage, read from the target link"""
    out = []
    for ass in m.associations:
        sl, tl = ass.source_link, ass.target_link
        sidx = {id(x): i for i, x in enumerate(sl.to_metaclass.storage)}
        tidx = {id(x): i for i, x in enumerate(tl.to_metaclass.storage)}
        pairs = set()
        for src in sl.to_metaclass.storage:
            for tgt in tl.navigate(src):
                pairs.add((sidx.get(id(src), -1), tidx.get(id(tgt), -1)))
        for tgt in tl.to_metaclass.storage:
            for src in sl.navigate(tgt):
                pairs.add((sidx.get(id(src), -1), tidx.get(id(tgt), -1)))
        out.append([list(p) for p in sorted(pairs)])
    return out


def _second_text(text, writer):
    """the text the writer produces from the really reloaded metamodel (second round)"""
    try:
        return writer(_reload_text([text]))
    except Exception:
        return Sym('error')


def _reload_text(texts):
    l = _x.ModelLoader()
    for t in texts:
        l.input(t)
    return l.build_metamodel()


def _read(path):
    with open(path, 'r', newline='') as f:
        return f.read()


def _case_key(case):
    return hashlib.sha1(json.dumps(case.get('spec', case.get('nonfinite')), sort_keys=True, default=repr).encode()).hexdigest()[:16]


def _no_boolean(mc):
    return all(ty.upper() != 'BOOLEAN' for _, ty in mc.attributes)


def _same_length_value(v, ty):
    """another value of the type whose text is as long as that of `v` (None: no such edit for this value)"""
    ty = ty.upper()
    if v is None or isinstance(v, bool):
        return None
    if ty == 'INTEGER' and isinstance(v, int):
        w = abs(v)
        w2 = w + 1 if w % 10 != 9 else w - 1
        if w2 == 0 and v < 0:
            return None
        return -w2 if v < 0 else w2
    if ty == 'UNIQUE_ID' and isinstance(v, int) and 0 < v < 2 ** 128:
        return (v ^ 1) or None                   # a uuid text always has 36 characters; 0 is the null id
    if ty == 'STRING' and isinstance(v, str):
        for i, ch in enumerate(v):
            if 'a' <= ch <= 'y' or 'A' <= ch <= 'Y' or '0' <= ch <= '8':
                return v[:i] + chr(ord(ch) + 1) + v[i + 1:]
            if ch in 'zZ9':
                return v[:i] + chr(ord(ch) - 1) + v[i + 1:]
    return None


def _two_generations(x, spec, built, paths, perm2, fail, stats):
    """TWO GENERATIONS AT ONE PATH: the files of the first generation have been written and loaded; now values of
    non-identifying, non-referential attributes are changed through the API so that the text keeps its size, the model is
    persisted again to the SAME paths at once and loaded by new loaders: the reload must equal the model just written.
    Then once more with a change that alters the size (contrast)."""
    p_db, p_s, p_i, p_u = paths
    m = built.m
    sizes = [os.path.getsize(p) for p in (p_db, p_i)]
    edits = 0
    # the edited input, kept beside the model: the expectation of each generation is computed from it, not read from the model
    spec2 = dict(spec, rows=[dict(r, vals=list(r['vals'])) for r in spec['rows']])
    for r, r2, inst in zip(spec['rows'], spec2['rows'], built.insts):
        c = spec['classes'][r['ci']]
        for k, ((nm, ty), role) in enumerate(zip(c['attrs'], c['roles'])):
            if role != 'plain':
                continue
            v2 = _same_length_value(getattr(inst, nm), ty)
            if v2 is not None:
                setattr(inst, nm, v2)
                r2['vals'][k] = v2
                edits += 1
    if not edits:
        stats['regen_no_edit'] = 1
        return
    files = [p_s, p_i, p_u]
    for gen in ('same-size', 'other-size'):
        if gen == 'other-size':
            grown = False
            for r, r2, inst in zip(spec['rows'], spec2['rows'], built.insts):
                c = spec['classes'][r['ci']]
                for k, ((nm, ty), role) in enumerate(zip(c['attrs'], c['roles'])):
                    v = r2['vals'][k]
                    if role == 'plain' and ty.upper() == 'STRING' and isinstance(v, str) and not grown:
                        r2['vals'][k] = v + 'xy'
                        setattr(inst, nm, r2['vals'][k])
                        grown = True
                    elif role == 'plain' and ty.upper() == 'INTEGER' and isinstance(v, int) and not isinstance(v, bool) and not grown:
                        r2['vals'][k] = v * 100 + 7 if v >= 0 else v * 100 - 7
                        setattr(inst, nm, r2['vals'][k])
                        grown = True
            if not grown:
                return
        want = gen_schema.dump(x, m)
        dd = gen_schema.diff(gen_schema.spec_dump(spec2), want)
        if dd:
            fail('regen:original-differs-from-input', 'after %d values were assigned through the API (%s) the model reads '
                 'differently from the edited input, at %s' % (edits, gen, dd))
        x.persist_database(m, p_db)
        x.persist_instances(m, p_i)
        if gen == 'same-size':
            same = [os.path.getsize(p) for p in (p_db, p_i)] == sizes
            stats['regen_same_size' if same else 'regen_size_changed'] = 1
        else:
            stats['regen_other_size'] = 1
        for name, load in (('pdb', lambda: _file_load(x, p_db)), ('pparts', lambda: x.load_metamodel([files[i] for i in perm2]))):
            try:
                got = gen_schema.dump(x, load())
            except Exception as e:
                fail('%s-regen:reload-raises:%s' % (name, type(e).__name__), 'route %s, second generation at the same path (%s): '
                     'loading raised %s: %s' % (name, gen, type(e).__name__, str(e)[:300]))
                continue
            d = gen_schema.diff(want, got)
            if d:
                fail('%s-regen:reload-differs' % name, 'route %s: a model was written to a path and loaded, %d values were changed '
                     '(%s text), the model was written to the same path again and loaded by a new loader: the reload differs '
                     'from the model just written at %s' % (name, edits, gen, d))


_DEFAULTS = {'INTEGER': 0, 'REAL': 0.0, 'BOOLEAN': False}
KNOWN_SIGS = ('unset-referential-relinks', 'null-key-link-lost')


def _null_key_findings(x, m, d0, d2):
    """are the ONLY differences between the dump of the original `m` and that of its reload instances of the two open findings
    about keys that are the null value of their type?  Returns the set of their signatures (empty: some other difference).
      unset-referential-relinks  a link GAINED: a referrer all of whose referential attributes for the association were unset
                                 (INTEGER / REAL / BOOLEAN) is joined to an instance whose identifying values are the type
                                 defaults 0 / 0.0 / False (written alike, and not null for the loader);
      null-key-link-lost         a link LOST: the identifying value of the referred instance is the null value of a STRING /
                                 UNIQUE_ID attribute ('' / 0 / unset), which the loader treats as null.
    Everything but the links must be equal."""
    def strip(d):
        return {'classes': d['classes'], 'assocs': [{k: v for k, v in a.items() if k not in ('links', 'links_back')} for a in d['assocs']]}
    if gen_schema.diff(strip(d0), strip(d2)) or len(d0['assocs']) != len(d2['assocs']):
        return set()
    sigs = set()
    for a0, a2 in zip(d0['assocs'], d2['assocs']):
        for key in ('links', 'links_back'):
            l0 = set(map(lambda p: (tuple(p[0]), tuple(p[1])), a0[key]))
            l2 = set(map(lambda p: (tuple(p[0]), tuple(p[1])), a2[key]))
            for gained, pairs in ((True, l2 - l0), (False, l0 - l2)):
                for (sk, si), (tk, ti) in pairs:
                    src = m.metaclasses[sk].storage[si]
                    tgt = m.metaclasses[tk].storage[ti]
                    sty = dict((n.upper(), t.upper()) for n, t in m.metaclasses[sk].attributes)
                    tty = dict((n.upper(), t.upper()) for n, t in m.metaclasses[tk].attributes)
                    if gained:
                        for sname, tname in zip(a0['src'][1], a0['tgt'][1]):
                            st, tt = sty.get(sname.upper()), tty.get(tname.upper())
                            if st not in _DEFAULTS or tt not in _DEFAULTS or getattr(src, sname) is not None:
                                return set()
                            tv = getattr(tgt, tname)
                            if tv is None or isinstance(tv, str) or tv != _DEFAULTS[tt]:
                                return set()
                        sigs.add('unset-referential-relinks')
                    else:
                        nullkey = False
                        for sname, tname in zip(a0['src'][1], a0['tgt'][1]):
                            tt = tty.get(tname.upper())
                            tv = getattr(tgt, tname)
                            if (tt == 'STRING' and tv in (None, '')) or (tt == 'UNIQUE_ID' and (tv is None or (not isinstance(tv, bool) and tv == 0))):
                                nullkey = True
                        if not nullkey:
                            return set()
                        sigs.add('null-key-link-lost')
    return sigs


def _file_load(x, path):
    l = x.ModelLoader()
    l.filename_input(path)
    return l.build_metamodel()


def _run_nonfinite(case):
    """OBSERVATION, not a demand: a REAL attribute holding inf / -inf / nan is OUTSIDE the persistable domain (the file format
    has no numeral for it): every writer emits the bare word `inf` / `-inf` / `nan`, and the loader raises the documented
    ParsingException for it.  Counted in the stats, no D failure."""
    x = _x
    v = NONFINITE[case['nonfinite']]
    stats = {'tag_nonfinite': 1}
    m = x.MetaModel(x.IntegerGenerator())
    m.define_class('A', [('Id', 'INTEGER'), ('r', 'REAL')])
    m.new('A', Id=1, r=1.5)
    m.new('A', Id=2, r=v)
    work = tempfile.mkdtemp(prefix='n-', dir=_tmpdir)
    p = os.path.join(work, 'db.sql')
    routes = [('db', lambda: _reload_text([x.serialize_database(m)])),
              ('parts', lambda: _reload_text([x.serialize_schema(m), x.serialize_instances(m)])),
              ('pdb', lambda: (x.persist_database(m, p), _file_load(x, p))[1]),
              ('dispatch', lambda: _reload_text([x.serialize(m)]))]
    for name, load in routes:
        try:
            load()
            stats['nonfinite_reloads'] = stats.get('nonfinite_reloads', 0) + 1
        except x.ParsingException:
            stats['nonfinite_rejected_with_parsing_exception'] = stats.get('nonfinite_rejected_with_parsing_exception', 0) + 1
        except Exception as e:
            stats['nonfinite_other_' + type(e).__name__] = 1
    for f in os.listdir(work):
        os.unlink(os.path.join(work, f))
    os.rmdir(work)
    return {'obs': 'nonfinite', 'd_fail': [], 'nontrivial': False, 'key': 'nonfinite/%d' % case['nonfinite'], 'stats': stats}


def _raised_in_repo(e):
    """the innermost frame of the traceback that lies in the xtuml package, or None (then the exception is the harness's own)"""
    root = os.path.dirname(os.path.abspath(_x.__file__)) + os.sep
    inner = [f for f in traceback.extract_tb(e.__traceback__) if os.path.abspath(f.filename).startswith(root)]
    return inner[-1] if inner else None


def run_impl(case):
    """every model the generators make is inside the persistable domain: an exception that one of the library's functions
    raises outside the places where run_impl expects one (building the model, the writers, the dumps) is a FAILURE of the
    property with a witness, not a crash of the harness"""
    try:
        return _run_impl(case)
    except Exception as e:
        fr = _raised_in_repo(e)
        if fr is None:
            raise
        outer = [f for f in traceback.extract_tb(e.__traceback__) if os.path.abspath(f.filename) == os.path.abspath(__file__)]
        at = outer[-1].line if outer else '?'
        return {'obs': [Sym('raised'), type(e).__name__], 'nontrivial': False, 'key': _case_key(case), 'stats': {'impl_raised': 1},
                'd_fail': [{'sig': 'raises:%s:%s' % (type(e).__name__, fr.name),
                            'what': '%s: %s raised in %s (%s:%d) during `%s` on a model inside the persistable domain' % (
                                type(e).__name__, str(e)[:200], fr.name, os.path.basename(fr.filename), fr.lineno, at.strip()[:120])}]}


def _run_impl(case):
    if case['tag'] == 'nonfinite':
        return _run_nonfinite(case)
    x = _x
    spec = case['spec']
    fails = []
    stats = {'models': 1, 'tag_' + case['tag']: 1}

    known = {}

    def fail(sig, what):
        # entries of the open findings are kept once per signature and OUTSIDE the cap, so that they cannot crowd out
        # later failures of the same case
        if sig in KNOWN_SIGS:
            known.setdefault(sig, {'sig': sig, 'what': what})
        elif len(fails) < 4:
            fails.append({'sig': sig, 'what': what})

    if case['tag'] == 'tower':
        # compared by value along the numeric tower (True == 1, 3 == 3.0)
        def dump(x_, m_, **kw):
            return _tower(gen_schema.dump(x_, m_, **kw))

        def spec_dump(spec_):
            return _tower(gen_schema.spec_dump(spec_))
    else:
        dump, spec_dump = gen_schema.dump, gen_schema.spec_dump
    built = gen_schema.build(x, spec)
    m = built.m
    d0 = dump(x, m)
    # the ORIGINAL of the statement is what was put in: the description computed from the spec alone.  The dump of the model
    # built through the API must be that description (otherwise every later comparison would be relative to an in-memory
    # model that already deviates, read through the same accessors on both sides)
    dd = gen_schema.diff(spec_dump(spec), d0)
    if dd:
        fail('original-differs-from-input', 'the metamodel built through the API reads differently from the classes, values '
             'and links that were put in (input vs model), at %s' % dd)
    nrows = len(spec['rows'])
    stats['rows'] = nrows
    stats['links'] = len(spec['links'])
    if spec.get('prelinks') is not None:
        stats['rewired_models'] = 1
        stats['rewired_links'] = len(set((l['assoc'], l['src'], l['tgt']) for l in spec['prelinks']) ^
                                     set((l['assoc'], l['src'], l['tgt']) for l in spec['links']))
    stats['assocs'] = len(spec['assocs'])
    stats['classes'] = len(spec['classes'])

    # --- the writer routes
    t_db = x.serialize_database(m)
    t_schema = x.serialize_schema(m)
    t_inst = x.serialize_instances(m)
    t_ident = x.serialize_unique_identifiers(m)
    work = tempfile.mkdtemp(prefix='m-', dir=_tmpdir)
    p_db, p_s, p_i, p_u = (os.path.join(work, n) for n in ('db.sql', 'schema.sql', 'inst.sql', 'ident.sql'))
    x.persist_database(m, p_db)
    x.persist_schema(m, p_s)
    x.persist_instances(m, p_i)
    x.persist_unique_identifiers(m, p_u)
    f_db, f_s, f_i, f_u = _read(p_db), _read(p_s), _read(p_i), _read(p_u)
    parts = [t_schema, t_inst, t_ident]
    concat = ''.join(parts[i] for i in case['perm'])
    files = [p_s, p_i, p_u]
    t_dispatch = x.serialize(m)
    pieces = ''.join(x.serialize(mc.clazz) for mc in m.metaclasses.values()) + \
        ''.join(x.serialize(a) for a in m.associations) + ''.join(x.serialize(i) for i in m.instances) + t_ident

    def ld_texts(texts):
        return lambda: _reload_text(texts)

    def ld_file():
        l = x.ModelLoader()
        l.filename_input(p_db)
        return l.build_metamodel()

    # ONE FILE BY APPENDING: the three file writers onto one path, in a random order; the first call creates the file (mode
    # 'w', or 'a' on a path that does not exist), the later calls append (mode given by keyword or by position).  The
    # writers are called inside the route, so that whatever they raise is a failure of that route.
    writers3 = [x.persist_schema, x.persist_instances, x.persist_unique_identifiers]

    def ld_one_appended():
        p_one = os.path.join(work, 'one.sql')
        for n, k in enumerate(case['perm']):
            if n == 0:
                writers3[k](m, p_one, mode=('a' if case['perm2'][0] == 0 else 'w'))
            elif (n + case['perm2'][1]) % 2:
                writers3[k](m, p_one, mode='a')
            else:
                writers3[k](m, p_one, 'a')
        return x.load_metamodel(p_one)

    def ld_db_append_new():
        p_new = os.path.join(work, 'db-a.sql')
        x.persist_database(m, p_new, mode='a')
        return x.load_metamodel(p_new)

    def ld_db_w_over_old():
        # an older, longer text at the path; mode 'w' given explicitly replaces it
        p_old = os.path.join(work, 'db-w.sql')
        with open(p_old, 'w', newline='') as f:
            f.write('CREATE TABLE Old_Class_That_Is_Gone (Id INTEGER);\n' + t_db + "INSERT INTO Old_Class_That_Is_Gone VALUES (1);\n" * 3)
        x.persist_database(m, p_old, 'w')
        return x.load_metamodel(p_old)

    def ld_parts_append_new():
        out = [os.path.join(work, 'a%d.sql' % k) for k in range(3)]
        for k in range(3):
            writers3[k](m, out[k], mode='a')
        return x.load_metamodel([out[i] for i in case['perm2']])

    routes = [
        ('db', ld_texts([t_db]), x.serialize_database),
        ('parts-concat', ld_texts([concat]), x.serialize_database),
        ('parts-calls', ld_texts([parts[i] for i in case['perm2']]), x.serialize_database),
        ('pdb', ld_file, None),
        ('pparts', lambda: x.load_metamodel([files[i] for i in case['perm2']]), None),
        ('pone-appended', ld_one_appended, 'skip'),
        ('dispatch', ld_texts([t_dispatch]), x.serialize),
        # the per-resource dispatch is composed by the caller in an order of his own (here: dict order, not the
        # sorted order of the writers), so only the reload is compared for it, not the fixed point
        ('dispatch-pieces', ld_texts([pieces]), 'skip'),
    ]
    # ROUTE x ROUTE (robustness patterns 1, 3, 4): every text through the file loaders and every file through input();
    # file objects; a single file name; files whose last line lacks the newline or is a `--` comment without newline
    # (each file has its own lexer, so neither may leak into the next file); two builds from one loader with the first
    # metamodel changed in between
    def ld_fileobj():
        l = x.ModelLoader()
        with open(p_db, 'r', newline='') as f:
            l.file_input(f)
        return l.build_metamodel()

    def ld_text_via_file():
        pt = os.path.join(work, 'text.sql')
        with open(pt, 'w', newline='') as f:
            f.write(t_db)
        return x.load_metamodel(pt)

    def ld_ragged_files():
        out = []
        for k, src in enumerate(files):
            t = _read(src)
            t = t.rstrip('\n') if k % 2 == 0 else t + '-- the last line is a comment without a newline'
            pk = os.path.join(work, 'ragged%d.sql' % k)
            with open(pk, 'w', newline='') as f:
                f.write(t)
            out.append(pk)
        return x.load_metamodel([out[i] for i in case['perm2']])

    def ld_ragged_calls():
        l = x.ModelLoader()
        for k in case['perm2']:
            l.input(parts[k].rstrip('\n') + ('' if k == 1 else ' -- c'))
        return l.build_metamodel()

    def ld_twice():
        l = x.ModelLoader()
        l.input(t_db)
        before = [_stmt_dump(st) for st in l.statements]
        ma = l.build_metamodel()
        for mc in ma.metaclasses.values():
            for inst in mc.storage[:3]:
                for nm, ty in mc.attributes:
                    if nm in mc.referential_attributes or nm in mc.identifying_attributes:
                        continue
                    setattr(inst, nm, {'STRING': 'changed', 'INTEGER': 12345, 'REAL': 0.25, 'BOOLEAN': True, 'UNIQUE_ID': 77}.get(ty.upper()))
        mb = l.build_metamodel()
        if [_stmt_dump(st) for st in l.statements] != before:
            fail('build-changed-statements', 'building a metamodel and changing its instances changed loader.statements')
        return mb

    extras = [('pdb-fileobj', ld_fileobj, 'skip'), ('db-text-via-file', ld_text_via_file, 'skip'),
              ('pdb-file-via-input', ld_texts([f_db]), 'skip'), ('pparts-ragged-files', ld_ragged_files, 'skip'),
              ('parts-ragged-calls', ld_ragged_calls, 'skip'), ('db-built-twice', ld_twice, 'skip'),
              ('pdb-single-name', lambda: x.load_metamodel(p_db), 'skip')]
    sel = (case['perm'][0] + 3 * case['perm2'][0]) % len(extras)
    routes += [extras[sel], extras[(sel + 3) % len(extras)]]
    # further uses of the mode argument: one of three per random case, all three for the fixed families
    extras_mode = [('pdb-append-new-path', ld_db_append_new, 'skip'), ('pdb-w-over-older-text', ld_db_w_over_old, 'skip'),
                   ('pparts-append-new-paths', ld_parts_append_new, 'skip')]
    routes.append(extras_mode[(case['perm'][1] + case['perm2'][2]) % 3])
    if case['tag'] != 'random':
        routes += [e for e in extras + extras_mode if e not in routes]
    for name, load, writer in routes:
        try:
            m2 = load()
        except Exception as e:
            fail('%s:reload-raises:%s' % (name, type(e).__name__),
                 'route %s: loading the written text raised %s: %s' % (name, type(e).__name__, str(e)[:300]))
            continue
        d2 = dump(x, m2)
        diff = gen_schema.diff(d0, d2)
        sigs = _null_key_findings(x, m, d0, d2) if diff else set()
        if 'unset-referential-relinks' in sigs:
            stats['unset_relinks'] = 1
            fail('unset-referential-relinks', 'route %s: an unrelated referrer with an unset INTEGER / REAL / BOOLEAN referential '
                 'attribute is linked after the reload to the instance that carries the type default as identifying value: %s' % (name, diff))
        if 'null-key-link-lost' in sigs:
            stats['null_key_links_lost'] = 1
            fail('null-key-link-lost', 'route %s: a link to an instance whose identifying value is the null value of its type '
                 "('' / id 0 / unset) is lost by the reload (the loader treats that key as null): %s" % (name, diff))
        if diff and not sigs:
            fail('%s:reload-differs' % name, 'route %s: the reloaded metamodel differs from the original at %s' % (name, diff))
        # fixed point after one round
        if writer == 'skip':
            continue
        try:
            if writer is not None:
                t2 = writer(m2)
                t3 = writer(_reload_text([t2]))
            else:
                p2 = os.path.join(work, 'round2.sql')
                x.persist_database(m2, p2)
                t2 = _read(p2)
                l = x.ModelLoader()
                l.filename_input(p2)
                p3 = os.path.join(work, 'round3.sql')
                x.persist_database(l.build_metamodel(), p3)
                t3 = _read(p3)
            if t2 != t3:
                fail('%s:fixed-point' % name, 'route %s: the text written from the reloaded metamodel is not reproduced '
                     'by loading and writing it again (first difference at offset %d)' % (
                         name, next((i for i, (a, b) in enumerate(zip(t2, t3)) if a != b), min(len(t2), len(t3)))))
        except Exception as e:
            fail('%s:second-round-raises:%s' % (name, type(e).__name__),
                 'route %s: writing / loading the reloaded metamodel raised %s: %s' % (name, type(e).__name__, str(e)[:300]))

    # --- without CREATE TABLE: types are guessed from the values
    try:
        mi = _reload_text([t_inst])
        di = dump(x, mi, with_links=False)
        for ukind, mc in m.metaclasses.items():
            if not mc.storage or not _no_boolean(mc):
                continue
            stats['inferred_classes'] = stats.get('inferred_classes', 0) + 1
            got = di['classes'].get(ukind)
            want = d0['classes'][ukind]
            if got is None:
                fail('inferred:class-missing', 'INSERT statements alone did not create class %s' % mc.kind)
                continue
            if [t for _, t in got['attrs']] != [t for _, t in want['attrs']]:
                fail('inferred:types', 'class %s: guessed types %r, declared %r' % (
                    mc.kind, [t for _, t in got['attrs']], [t for _, t in want['attrs']]))
            elif got['rows'] != want['rows']:
                fail('inferred:rows', 'class %s: rows differ at %s' % (mc.kind, gen_schema.diff(want['rows'], got['rows'])))
    except Exception as e:
        fail('inferred:reload-raises:%s' % type(e).__name__, 'loading the INSERT statements alone raised %s: %s' % (
            type(e).__name__, str(e)[:300]))

    texts = [t_db, t_schema, t_inst, t_ident, f_db, f_s, f_i, f_u]
    # the links the real in-memory model holds, and the links of the really reloaded model (serialize_database route)
    try:
        links_after = _link_pairs(_reload_text([t_db]))
    except Exception:
        links_after = Sym('none')
    obs = [[Sym('texts')] + texts, [Sym('loads')] + [_load_obs(t) for t in texts] + [_load_obs(concat)],
           [Sym('links'), Sym('not-key-denoted') if case['tag'] == 'null-key-link' else _link_pairs(m), links_after], [Sym('round2'), _second_text(t_db, x.serialize_database),
                                                         _second_text(t_inst, x.serialize_instances)],
           [Sym('tokens')] + [[gen_schema.real_tokens(x, t), Sym('same')] for t in (t_db, f_db)]]
    if case.get('regen'):
        # last: this changes the in-memory model
        try:
            _two_generations(x, spec, built, (p_db, p_s, p_i, p_u), case['perm2'], fail, stats)
        except Exception as e:
            fail('regen:raises:%s' % type(e).__name__, 'two generations at one path: %s: %s' % (type(e).__name__, str(e)[:300]))
    hazard = case['tag'] == 'tower' or any(isinstance(v, str) and any(h in v for h in ("'", '--', '\n', '\x00')) or
                 (isinstance(v, int) and not isinstance(v, bool) and abs(v) >= 2 ** 63)
                 for r in spec['rows'] for v in r['vals'])
    shutil.rmtree(work, ignore_errors=True)      # also what a misbehaving writer may have left there
    return {'obs': obs, 'd_fail': fails + list(known.values()), 'nontrivial': nrows > 0 and (hazard or bool(spec['links'])),
            'key': _case_key(case), 'stats': stats}


# --------------------------------------------------------------------------- model side

def _val_sexp(v, ty):
    core = ty.upper()
    if v is None:
        return Sym('none')
    if core == 'BOOLEAN':
        return [Sym('b'), _b(v)]
    if core == 'INTEGER':
        return [Sym('i'), int(v)]
    if core == 'REAL':
        neg, micro = gen_schema.dec6_parts(v)
        return [Sym('r'), _b(neg), micro]
    if core == 'STRING':
        return [Sym('s'), v]
    if core == 'UNIQUE_ID':
        return [Sym('u'), int(v)]
    return Sym('none')


def mm_sexp(m):
    classes = [Sym('classes')]
    for mc in m.metaclasses.values():
        classes.append([Sym('cls'), mc.kind, [[a, b] for a, b in mc.attributes],
                        [[nm, list(attrs)] for nm, attrs in mc.indices.items()]] +
                       [[Sym('row')] + [_val_sexp(getattr(inst, nm), ty) for nm, ty in mc.attributes]
                        for inst in mc.storage])
    assocs = [Sym('assocs')]
    for ass in m.associations:
        sl, tl = ass.source_link, ass.target_link
        assocs.append([Sym('assoc'), ass.rel_id,
                       [Sym('end'), _b(sl.many), _b(sl.conditional), sl.to_metaclass.kind, list(ass.source_keys), tl.phrase],
                       [Sym('end'), _b(tl.many), _b(tl.conditional), tl.to_metaclass.kind, list(ass.target_keys), sl.phrase]])
    return [Sym('mm'), classes, assocs]


def model_line(case):
    if case['tag'] == 'nonfinite':
        return None                 # inf / nan are no six-decimal numerals: outside the model and outside the domain
    if case['tag'] == 'tower':
        return None                 # D-only: the Lean values are typed, a bool in an INTEGER column has no counterpart there
    if any(isinstance(v, float) and not math.isfinite(v) for r in case['spec']['rows'] for v in r['vals']):
        return None                 # GUARD: a non-finite REAL is no value of the model (outside the persistable domain)
    try:
        built = gen_schema.build(_x, case['spec'])
        m = built.m
        parts = [_x.serialize_schema(m), _x.serialize_instances(m), _x.serialize_unique_identifiers(m)]
        concat = ''.join(parts[i] for i in case['perm'])
        return dumps([Sym('c01'), mm_sexp(m), concat])
    except Exception as e:
        if _raised_in_repo(e) is None:
            raise
        return None                 # the library raised while the model was built / written: run_impl reports that (D)


def model_obs(case, ans):
    if isinstance(ans, list) and len(ans) == 5 and isinstance(ans[4], list):
        # beyond its length limit the regex engine is not run: that stream is not compared there
        ans = ans[:4] + [[ans[4][0]] + [[p[0], Sym('same')] if isinstance(p, list) and len(p) == 2 and str(p[1]) == 'skipped' else p
                                        for p in ans[4][1:]]]
    if case['tag'] == 'null-key-link' and isinstance(ans, list) and len(ans) > 2 and isinstance(ans[2], list) and len(ans[2]) == 3:
        # the family relates instances across a key that is the null value: the in-memory links are by construction NOT the
        # links the key values denote (hypothesis KeysResolve of the theorems fails), so that leg is not compared
        ans = ans[:2] + [[ans[2][0], Sym('not-key-denoted'), ans[2][2]]] + ans[3:]
    return ans


def _all_links(spec):
    return list(spec['links']) + list(spec.get('prelinks') or [])


def shrink_candidates(case):
    if 'spec' not in case:
        return
    spec = case['spec']
    # drop a link / pre-link, a row without links, an association without links, an identifier, a plain attribute value
    for key in ('links', 'prelinks'):
        for i in range(len(spec.get(key) or [])):
            s = json.loads(json.dumps(spec))
            del s[key][i]
            yield dict(case, spec=s)
    if spec.get('prelinks') == []:
        s = json.loads(json.dumps(spec))
        del s['prelinks']
        yield dict(case, spec=s)
    linked = set()
    for l in _all_links(spec):
        linked.add(l['src'])
        linked.add(l['tgt'])
    for i in range(len(spec['rows'])):
        if i in linked:
            continue
        s = json.loads(json.dumps(spec))
        del s['rows'][i]
        for l in _all_links(s):
            l['src'] -= (l['src'] > i)
            l['tgt'] -= (l['tgt'] > i)
        yield dict(case, spec=s)
    used = set(l['assoc'] for l in _all_links(spec))
    for i in range(len(spec['assocs'])):
        if i in used:
            continue
        s = json.loads(json.dumps(spec))
        del s['assocs'][i]
        for l in _all_links(s):
            l['assoc'] -= (l['assoc'] > i)
        yield dict(case, spec=s)
    for ci, c in enumerate(spec['classes']):
        for k in range(len(c['idents'])):
            s = json.loads(json.dumps(spec))
            del s['classes'][ci]['idents'][k]
            yield dict(case, spec=s)
    for ri, r in enumerate(spec['rows']):
        roles = spec['classes'][r['ci']].get('roles') or []
        for k, v in enumerate(r['vals']):
            if isinstance(v, str) and len(v) > 1 and k < len(roles) and roles[k] == 'plain':
                for cut in (v[:len(v) // 2], v[len(v) // 2:]):
                    s = json.loads(json.dumps(spec))
                    s['rows'][ri]['vals'][k] = cut
                    yield dict(case, spec=s)
