"""C12 — Loading fails only in documented ways and never half-applies input.

A case is a sequence of 1-4 texts fed to ONE ModelLoader, followed by build_metamodel.  Texts come from three
streams derived from one PRNG:
    fuzz      arbitrary strings over an alphabet of dialect characters and non-ASCII characters
    tokens    random token sequences of the dialect (keywords in any case, identifiers, numbers, fractions, strings,
              guids, punctuation, rel ids, cardinalities) with random separators and comments
    family    (3 %) small complete files around identifiers python treats specially: attribute names of one class that
              differ at most in letter case (declared or inferred from a named INSERT) under an association, and `mro`
              (the one non-dunder attribute every python class has) as class / attribute / key / identifier name
    mutation  single-edit mutations of valid files (70 %): delete / duplicate / swap / replace a token, flip the
              lexical class of a value, truncate, unterminated string / guid, comment marker inserted, separator
              removed.  Valid files are grammar-derived statement lists (incl. named INSERTs, leading commas, reserved
              words as identifiers) kept consistent with a running schema, or serialised random metamodels.
    numerals  (before the streams) small valid files in which the digits at one position of the dialect (association number,
              cardinality, values of every column type, both parts of a fraction, names, strings, guids, comments, stray tokens)
              are a numeral of 1 - 20000 digits; positions x lengths are crossed completely on every run
plus a few timing cases on adversarial families (long runs of one character).

  D  ModelLoader.input either returns or raises xtuml.ParsingException; after a rejected call the deep dump of
     loader.statements is what it was before; build_metamodel either returns or raises ParsingException or an
     exception of the xtuml.MetaException family; statements and the built metamodel equal those of a FRESH loader that
     was given only the accepted texts; doubling the length of an adversarial input four times does not multiply the
     time by more than a generous linear factor.
     AFTERLIFE (robustness patterns 1-3): every text is also given to a FRESH loader, which must classify it the same way
     and produce the same statements (acceptance is a function of the text, not of the loader's history or of class-level
     state); building does not change loader.statements; a second build from the same loader ends the same way with an
     equal metamodel; after the build (whatever its outcome) one more valid text is accepted and the next build equals
     that of a fresh loader given the accepted texts and that text; when the build raised, `populate` on a metamodel of the
     caller's raises the same documented exception and leaves the statements alone (that the caller's half-built
     metamodel may then hold a half-initialised instance is counted, `half_built_metamodels`, not demanded: the property
     speaks about the loader's content only).
  K  lean/PyxModel/Sql: the model's accepted/rejected classification of every text, the accumulated statement list
     and the build outcome (ok | parsing | meta | builtin) equal the implementation's; the TOKEN STREAM of every text, from the model's hand matchers and from the generic regex
     engine on the parse trees generated from the `t_*` regexes, equals that of the real PLY lexer (token types and a digest
     of the lexemes); and what `float()` reads from every
     INSERT value that has the form of a number (at most 15 digits, at most six of them after the point, any `\\d`
     characters) equals the model's `parseReal`.  Python's Unicode tables for the
     non-ASCII characters of a case (\\d, \\w, str.upper) are passed to the model as its parameter.
"""
import os
import re
import tempfile
import zlib
import time

from sexp import Sym, dumps

import gen_schema

PROP = 'C12'
RULE = ('four streams from one PRNG: arbitrary strings (15 %), random token sequences (14 %), valid files and their '
        'single-edit mutations (68 %; attribute names of one class may coincide apart from letter case, `mro` is in the '
        'identifier pool), small files around case-variant attribute names and python class attributes (3 %); 2.5 % of the texts get a numeral of 39-3999 digits (with or without fraction, in a column of a declared type) and 2 % a lone surrogate; 1-4 texts per loader; 700 / 9000 extra small files crossing every column type with every lexical class of value (positional and named INSERT, null-valued keys); 366 / 3000 extra small valid files in which the digits at ONE position are a numeral of 1 - 20000 digits: every position where the dialect has a run of digits (association number R<n>, cardinality, value of an integer / real / boolean / string / id column, integer and fractional part of a fraction, tail of a class / attribute / index name, inside of a string, phrase, guid, comment, stray token, any digit run of a grammar-derived file) is CROSSED with every length of 1, 2, 19, 20, 39, 309, 310, 639-641, 1000, 4299-4302, 5000, 8601, 20000 digits (random digits, one repeated digit, leading zeros, powers of ten), a third of them after a valid text on the same loader; every third case is fed once more through filename_input / file_input / load_metamodel (files) and compared with what input() did; a case is non-trivial when at least one text was accepted and at least '
        'one rejected, or the build ended in a documented exception; distinct = distinct text sequence')
EXHAUSTIVE = {'quick': False, 'thorough': False}
ASSUMPTIONS = [
    'the exception discipline and the running time are runtime facts: they are decided by the direct predicate on the '
    'implementation, the Lean theorems are about the loader as a state machine',
    "uuid texts whose 32 significant characters contain characters that only Python's int(x, 16) accepts (underscore, "
    'blanks, sign, 0x, non-ASCII digits), runs of 4000 or more digits (numerals, and digit runs in names, strings, guids, comments: the numeral family reaches 20000) and texts with lone surrogate code points (2 % of the '
    "texts get one in a comment, in a string literal or between the tokens; Lean's Char is a unicode scalar value) are outside the "
    "correspondence (D still applies: input() accepts or raises ParsingException, nothing else); "
    'texts with __x__ identifiers are INSIDE (rejected with MetaModelException at build since 7fb506e)',
]
CHUNK = 1500
CASE_TIMEOUT_S = 60
BUDGET_S = {'quick': 80, 'thorough': 780}

_x = None

RESERVED = gen_schema.RESERVED
DUNDER = re.compile(r'__\w+__')
PYATTRS = ['mro']          # the names every python class has besides the dunders (dir(type)); none comes from xtuml.Class
# names of the form __x__ (`_is_reserved`): define_class / define_association raise MetaModelException for them in attribute
# positions; expected outcome of such texts: accepted by input(), `meta` at build -- never a built-in exception
DUNDERS = ['__class__', '__dict__', '__metaclass__', '__hash__', '__init__', '__weakref__', '__getattribute__', '__name__',
           '__a__', '_____', '__x', 'x__', '____', '__A_B__']


_tmpdir = None


def setup(ctx):
    global _x, _tmpdir
    import xtuml
    _x = xtuml
    _tmpdir = str(ctx.ws.tmp('c12-files')) if ctx is not None and hasattr(ctx, 'ws') else tempfile.mkdtemp(prefix='c12-')
    xtuml.ModelLoader().input('')


# --------------------------------------------------------------------------- generators

FUZZ_ALPHABET = list("''\"\"--  \n\n\t\r\x0c.,;()()0123456789RCMabcxyzABCXYZ_\\'-1C") + \
    ['é', 'ß', '٣', 'ſ', 'ı', '日', '²', '\U0001F600', '\xa0', '\x00', ' ', '\x85', '߀', 'İ', 'ǅ'] + \
    ['CREATE', 'TABLE', 'INSERT', 'INTO', 'VALUES', 'ROP', 'REF_ID', 'FROM', 'TO', 'UNIQUE', 'INDEX', 'ON', 'PHRASE', 'TRUE',
     'FALSE', ' ', ' ', ';', "'a'", '"b"', 'R1', '1C', 'MC', '1.5', '--x\n']
SEPS = [' ', ' ', ' ', '\n', '\t', '  ', '\n    ', ' -- c\n', '\r\n', '\x0c', ' --\n']


def g_fuzz(rng):
    n = rng.choice([0, 1, 2, 3, 5, 8, 13, 30, 80, 200])
    return ''.join(rng.choice(FUZZ_ALPHABET) for _ in range(n))


def g_case(rng, w):
    return gen_schema._case_variant(rng, w)


def g_ident(rng, dunder_ok=True):
    r = rng.random()
    if dunder_ok and r < 0.012:
        return rng.choice(DUNDERS)
    if r < 0.014:
        return rng.choice(PYATTRS + PYATTRS + [w.upper() for w in PYATTRS] + [w.capitalize() for w in PYATTRS])
    if r < 0.25:
        return g_case(rng, rng.choice(RESERVED))
    if r < 0.33:
        return rng.choice(['M', 'MC', 'm', 'C', 'R', 'Rx', 'r1', '_', '__', '_1'])
    if r < 0.37:
        return rng.choice(['aé', 'aß', 'xſ', 'INſERT', 'UNıQUE', 'n٣', 'k日', 'VALUEſ', 'FALſE', 'x²'])
    if r < 0.39:
        return rng.choice(['R1', 'R22x', 'R0'])          # lexes as RELID (+ID): not an identifier
    return rng.choice(gen_schema.PLAIN)


def g_string(rng):
    body = ''.join(rng.choice(gen_schema.STR_PIECES + ['\r', 'x', 'yz']) for _ in range(rng.randint(0, 4)))
    return "'" + body.replace("'", "''") + "'"


def g_guid(rng):
    r = rng.random()
    if r < 0.6:
        import uuid
        return '"%s"' % uuid.UUID(int=rng.getrandbits(rng.choice([8, 128])))
    if r < 0.7:
        h = '%032x' % rng.getrandbits(128)
        return '"' + rng.choice(['{%s}' % h, 'urn:uuid:' + h, h.upper(), h[:31], h + '0', h[:8] + '-' + h[8:], 'uuid:' + h]) + '"'
    body = ''.join(rng.choice(['a', '0', '-', '\\"', '\\\\', "'", ' ', 'é', '\\n', '{', 'urn:', '_']) for _ in range(rng.randint(0, 8)))
    return '"' + body + '"'


def g_number(rng):
    return rng.choice(['0', '1', '7', '00', '42', '18446744073709551616', '007', str(rng.randint(0, 10 ** rng.randint(1, 30))),
                       '255', '256', '9007199254740991', '9007199254740992', '9007199254740993', '9223372036854775807',
                       '9223372036854775808', '18446744073709551615'])


def g_fraction(rng):
    return rng.choice(['0.0', '1.5', '3.14159', '0.000001', '10.25', '1.0000000001', '٣.٥', '12.٣', '1.50', '١٢.٥', '߁.߂', '0.999999',
                       '9007199254740993.0', '00.5', '255.255', '123456789.123456', '٠.٠'])


def g_value_of(rng, core):
    """value tokens (a list: a negative number is two tokens) of the lexical class of a core type"""
    if core == 'BOOLEAN':
        return [rng.choice(['0', '1', g_case(rng, 'TRUE'), g_case(rng, 'FALSE'), '2'])]
    if core == 'INTEGER':
        return (['-'] if rng.random() < 0.3 else []) + [g_number(rng)]
    if core == 'REAL':
        return (['-'] if rng.random() < 0.3 else []) + [g_fraction(rng) if rng.random() < 0.8 else g_number(rng)]
    if core == 'STRING':
        return [g_string(rng)]
    if core == 'UNIQUE_ID':
        return [g_guid(rng)] if rng.random() < 0.85 else [g_number(rng)]
    return g_value_of(rng, rng.choice(gen_schema.CORE))


def g_type(rng):
    if rng.random() < 0.06:
        return rng.choice(['FOO', 'INT', 'TEXT', 'same_as', 'boolean_', 'STRING2'])
    return gen_schema.gen_type(rng)


class Env(object):
    def __init__(self):
        self.classes = []        # [kind, [[name, type], ...]]


def _idseq(rng, names):
    toks = []
    if names and rng.random() < 0.03:
        toks.append(',')         # leading comma (accepted by the grammar)
    for i, n in enumerate(names):
        if i:
            toks.append(',')
        toks.append(n)
    return toks


def g_stmt(rng, env):
    """one syntactically valid statement as a token list, mostly consistent with the running schema"""
    r = rng.random()
    if r < 0.22 or not env.classes:
        kind = g_ident(rng)
        names = set()
        attrs = []
        for _ in range(rng.randint(0, 4)):
            if attrs and rng.random() < 0.04:
                nm = g_case(rng, rng.choice(attrs)[0])     # a second attribute of that name, in the same or another letter case
            else:
                nm = g_ident(rng)
                if nm.upper() in names:
                    continue
            names.add(nm.upper())
            attrs.append([nm, g_type(rng)])
        if rng.random() < 0.9 or not env.classes:
            env.classes.append([kind, attrs])
        elif env.classes:
            kind = rng.choice(env.classes)[0]          # duplicate class
        toks = ['CREATE', 'TABLE', kind, '(']
        if attrs and rng.random() < 0.03:
            toks.append(',')
        for i, (a, t) in enumerate(attrs):
            if i:
                toks.append(',')
            toks += [a, t]
        return toks + [')', ';']
    if r < 0.36:
        s = rng.choice(env.classes)
        t = rng.choice(env.classes)
        skind = s[0] if rng.random() < 0.92 else g_ident(rng)
        tkind = t[0] if rng.random() < 0.92 else g_ident(rng)
        n = rng.choice([1, 1, 1, 2, 0])
        tkeys = [rng.choice(t[1])[0] if t[1] and rng.random() < 0.9 else g_ident(rng) for _ in range(n)]
        skeys = [rng.choice(s[1])[0] if s[1] and rng.random() < 0.8 else g_ident(rng) for _ in range(n if rng.random() < 0.95 else n + 1)]

        def end(kind, keys):
            card = rng.choice(['1', '1C', 'M', 'MC']) if rng.random() < 0.96 else rng.choice(['2', 'm', 'X', '0', 'Mc', '11'])
            out = [card, kind, '('] + _idseq(rng, keys) + [')']
            if rng.random() < 0.3:
                out += ['PHRASE', g_string(rng)]
            return out
        rel = 'R%d' % rng.choice([1, 2, 3, 10, 100, 0])
        return ['CREATE', 'ROP', 'REF_ID', rel, 'FROM'] + end(skind, skeys) + ['TO'] + end(tkind, tkeys) + [';']
    if r < 0.46:
        c = rng.choice(env.classes)
        kind = c[0] if rng.random() < 0.9 else g_ident(rng)
        k = rng.randint(0, 3)
        attrs = [rng.choice(c[1])[0] if c[1] and rng.random() < 0.9 else g_ident(rng) for _ in range(k)]
        name = rng.choice(['I1', 'I2', 'I3', g_ident(rng)])
        return ['CREATE', 'UNIQUE', 'INDEX', name, 'ON', kind, '('] + _idseq(rng, attrs) + [')', ';']
    # INSERT
    if rng.random() < 0.12:
        kind = g_ident(rng)                                  # class inferred from the values
        attrs = []
        for _ in range(rng.randint(0, 4)):
            r2 = rng.random()
            nm = '_' if r2 < 0.15 else g_case(rng, rng.choice(attrs)[0]) if attrs and r2 < 0.3 else g_ident(rng)
            attrs.append([nm, rng.choice(gen_schema.CORE)])
    else:
        c = rng.choice(env.classes)
        kind = g_case(rng, c[0]) if rng.random() < 0.3 else c[0]
        attrs = c[1]
    named = rng.random() < 0.3
    cols = list(attrs)
    if named:
        rng.shuffle(cols)
        if cols and rng.random() < 0.3:
            cols = cols[:rng.randint(0, len(cols))]
    vals = []
    for i, (a, t) in enumerate(cols):
        core = t.upper() if rng.random() < 0.93 else rng.choice(gen_schema.CORE)    # sometimes the wrong lexical class
        vals.append(g_value_of(rng, core))
    if rng.random() < 0.05 and vals:
        vals.pop()                                           # arity mismatch
    elif rng.random() < 0.04:
        vals.append(g_value_of(rng, 'INTEGER'))
    toks = ['INSERT', 'INTO', kind]
    if named:
        names = [g_case(rng, a) if rng.random() < 0.3 else a for a, _ in cols]
        if rng.random() < 0.05 and names:
            names.pop()
        toks += ['('] + _idseq(rng, names) + [')']
    toks += ['VALUES', '(']
    if vals and rng.random() < 0.03:
        toks.append(',')
    for i, v in enumerate(vals):
        if i:
            toks.append(',')
        toks += v
    return toks + [')', ';']


def g_keyword_case(rng, toks):
    return [g_case(rng, t) if t in RESERVED and rng.random() < 0.3 else t for t in toks]


def g_valid_tokens(rng, env):
    toks = []
    for _ in range(rng.randint(1, 6)):
        toks += g_keyword_case(rng, g_stmt(rng, env))
    return toks


def join_tokens(rng, toks, tight=0.0):
    out = []
    for i, t in enumerate(toks):
        out.append(t)
        if rng.random() < tight:
            continue
        out.append(rng.choice(SEPS))
    return ''.join(out)


def g_model_text(rng):
    """text of a serialised random metamodel (computed with the implementation's own writer)"""
    spec = gen_schema.gen_spec(rng)
    m = gen_schema.build(_x, spec).m
    return _x.serialize_database(m)


TOKEN_RE = re.compile(r"--[^\n]*\n?|'(?:''|[^'])*'|\"(?:[^\\\n\"]|\\.)*\"|\d+\.\d+|[A-Za-z_]\w*|\d+|\s+|.", re.S)


def split_text(text):
    """a rough tokenisation of a valid text for the mutation operators (separators are kept as tokens)"""
    return TOKEN_RE.findall(text)


def g_random_token(rng):
    r = rng.random()
    if r < 0.3:
        return g_case(rng, rng.choice(RESERVED))
    if r < 0.45:
        return g_ident(rng)
    if r < 0.75:
        return rng.choice(g_value_of(rng, rng.choice(gen_schema.CORE)))
    return rng.choice(['(', ')', ',', ';', '-', 'R1', 'R77', '1C', 'M', 'MC', '1', '.', '"', "'", '--', '\\', '1.', '.5', '#', '*', '=',
                       '&', '$', '@', '1e5', '1.5e5', '1.5E+5', 'inf', 'nan', '-inf', '١٢'])


def mutate(rng, toks):
    """one edit of a token list; returns the mutated TEXT"""
    toks = list(toks)
    n = len(toks)
    idx = [i for i, t in enumerate(toks) if t.strip()] or [0]
    op = rng.choice(['delete', 'duplicate', 'swap', 'replace', 'flip', 'truncate', 'unterminated', 'comment', 'glue',
                     'insert', 'delete', 'flip', 'swap', 'illegal+syntax'])
    if n == 0:
        return g_random_token(rng)
    i = rng.choice(idx) if idx else 0
    if op == 'delete':
        del toks[i]
    elif op == 'duplicate':
        toks.insert(i, toks[i])
        toks.insert(i + 1, ' ')
    elif op == 'swap':
        j = rng.choice(idx)
        toks[i], toks[j] = toks[j], toks[i]
    elif op == 'replace':
        toks[i] = g_random_token(rng)
    elif op == 'insert':
        toks.insert(i, g_random_token(rng) + rng.choice(['', ' ']))
    elif op == 'flip':
        vals = [k for k in idx if re.match(r"^(\d|'|\"|TRUE$|FALSE$)", toks[k], re.I)]
        if vals:
            k = rng.choice(vals)
            toks[k] = ' '.join(g_value_of(rng, rng.choice(gen_schema.CORE)))
        else:
            toks[i] = g_random_token(rng)
    elif op == 'truncate':
        text = ''.join(toks)
        return text[:rng.randint(0, max(0, len(text) - 1))]
    elif op == 'unterminated':
        qs = [k for k in idx if toks[k][:1] in ("'", '"') and len(toks[k]) >= 2]
        if qs and rng.random() < 0.7:
            k = rng.choice(qs)
            toks[k] = toks[k][:-1] if rng.random() < 0.6 else toks[k][1:]
        else:
            toks.insert(i, rng.choice(["'", '"', "''", '"\\']))
    elif op == 'comment':
        toks.insert(i, rng.choice(['--', '-- ', '-']))
    elif op == 'illegal+syntax':
        # TWO edits: an illegal character, and a syntax error before or (mostly) after it in the same text
        j = rng.choice(idx)
        toks[i] = rng.choice(['&', '$', '#', '@', '\x00', '?']) + (toks[i] if rng.random() < 0.5 else '')
        if j != i:
            toks[j] = '' if rng.random() < 0.7 else g_random_token(rng)
        elif rng.random() < 0.5:
            return ''.join(toks)[:max(1, len(''.join(toks)) - rng.randint(1, 4))]
    elif op == 'glue':
        # remove the separators around a token
        for k in (i + 1, i - 1):
            if 0 <= k < len(toks) and not toks[k].strip():
                toks[k] = ''
    return ''.join(toks)


def g_family(rng):
    """small complete files around identifiers that python treats specially: two attribute names of one class that differ
    at most in letter case (declared, or inferred from a named INSERT) with an association over one of them, and the
    non-dunder names every python class has (`mro`) as class name, attribute name, association key, identifier"""
    core = gen_schema.CORE

    def val(t):
        return ' '.join(g_value_of(rng, t))

    base = rng.choice(['i', 'x', 'Id', 'Key', 'mro', 'name'])
    fam = rng.choice(['case-attrs', 'case-attrs', 'pyattr', 'many'])
    if fam == 'many':
        # counts at the 8-bit boundary: values of one INSERT (class inferred or declared), attributes of one class, statements
        n = rng.choice([255, 256, 257])
        kind = rng.choice(['A', 'Wide'])
        r = rng.random()
        if r < 0.35:
            return 'INSERT INTO %s VALUES (%s);' % (kind, ', '.join(val(rng.choice(['INTEGER', 'STRING'])) for _ in range(n)))
        if r < 0.7:
            ty = rng.choice(core)
            text = 'CREATE TABLE %s (%s);' % (kind, ', '.join('a%d %s' % (k, ty) for k in range(n)))
            return text + ' INSERT INTO %s VALUES (%s);' % (kind, ', '.join(val(ty) for _ in range(n - rng.choice([0, 0, 1]))))
        return 'CREATE TABLE %s (i INTEGER);' % kind + ''.join(' INSERT INTO %s VALUES (%d);' % (kind, k) for k in range(n))
    if fam == 'case-attrs':
        a1 = base
        a2 = g_case(rng, base)
        if a2 == a1 and rng.random() < 0.8:
            a2 = a1.swapcase()
        acls, bcls, j = rng.choice(['A', 'a', 'Dog']), rng.choice(['B', 'Owner']), rng.choice(['j', 'Ref', a1])
        skey, tkey = j, rng.choice([a1, a2, a2])
    else:
        special = PYATTRS + ([rng.choice(DUNDERS)] if rng.random() < 0.6 else [])     # `mro`, and names of the form __x__
        pool = special + ['i', 'j', 'A', 'B']
        a1, a2 = rng.choice(pool), rng.choice(['k', 'n_2'])
        acls, bcls, j = rng.choice(['A', 'A'] + special), rng.choice(['B', 'B'] + special), rng.choice(pool)
        skey, tkey = rng.choice([j] + special), rng.choice([a1, a1] + special)
        if acls.upper() == bcls.upper():
            bcls = 'B'
    t1, t2, t3 = rng.choice(core), rng.choice(core), rng.choice(core)
    if fam == 'case-attrs' and rng.random() < 0.35:
        t1, t2 = 'STRING', rng.choice(['INTEGER', 'REAL', 'BOOLEAN', 'UNIQUE_ID'])    # the type looked up by upper-cased name is not the value's
    if rng.random() < 0.5:
        t3 = rng.choice([t1, t2])
    stmts = []
    declared = rng.random() < 0.8
    if declared:
        stmts.append('CREATE TABLE %s (%s %s, %s %s);' % (acls, a1, t1, a2, t2))
    stmts.append('CREATE TABLE %s (%s %s);' % (bcls, j, t3))
    if rng.random() < 0.85:
        ends = [(rng.choice(['MC', 'M', '1C']), bcls, skey), (rng.choice(['1', '1C']), acls, tkey)]
        if rng.random() < 0.25:
            ends.reverse()
        stmts.append('CREATE ROP REF_ID R1 FROM %s %s (%s) TO %s %s (%s);' % (ends[0] + ends[1]))
    if rng.random() < 0.3:
        stmts.append('CREATE UNIQUE INDEX %s ON %s (%s);' % (rng.choice(['I1'] + PYATTRS + DUNDERS[:3]), acls, rng.choice([a1, a2, tkey])))
    for _ in range(rng.randint(0, 2)):
        stmts.append('INSERT INTO %s VALUES (%s);' % (bcls, val(t3)))
    for _ in range(rng.randint(0 if declared else 1, 2)):
        if declared and rng.random() < 0.6:
            stmts.append('INSERT INTO %s VALUES (%s, %s);' % (acls, val(t1), val(t2)))
        else:
            stmts.append('INSERT INTO %s (%s, %s) VALUES (%s, %s);' % (acls, a1, a2, val(t1), val(t2)))
    if rng.random() < 0.3:
        rng.shuffle(stmts)
    return rng.choice(['\n', ' ']).join(stmts)


SURROGATES = ['\ud800', '\udbff', '\udc00', '\udce9', '\udfff']       # lone ones, e.g. bytes read with errors='surrogateescape'


def with_surrogate(rng, text):
    """a LONE surrogate code point put into a comment, into a string literal or between the tokens of `text`: python strings
    hold them (a Latin-1 file read with errors='surrogateescape'), the lexer treats them like any other character that is
    neither a word character nor blank. Lean's Char is a unicode scalar value, so these texts are checked by D only."""
    sur = rng.choice(SURROGATES) * rng.choice([1, 1, 1, 2])
    toks = split_text(text)
    where = rng.choice(['comment', 'comment', 'string', 'string', 'stray'])
    if where == 'string':
        qs = [k for k, t in enumerate(toks) if len(t) >= 2 and t[0] == "'" and t[-1] == "'"]
        if qs:
            k = rng.choice(qs)
            cut = rng.randint(1, len(toks[k]) - 1)
            if toks[k][cut - 1:cut + 1] == "''" and cut > 1 and cut < len(toks[k]) - 1:
                cut -= 1                            # not between the two quotes of an escaped quote
            toks[k] = toks[k][:cut] + sur + toks[k][cut:]
            return ''.join(toks)
        where = 'comment'
    gaps = [k for k, t in enumerate(toks) if not t.strip()] + [len(toks)]
    k = rng.choice(gaps) if where == 'comment' or rng.random() < 0.5 else rng.randint(0, len(toks))
    if where == 'comment':
        toks.insert(k, rng.choice([' -- caf%s\n', '--%s\n', '\n-- %s x\n']) % sur)
    else:
        toks.insert(k, sur)
    return ''.join(toks)


NUM_TOKEN = re.compile(r'\d+(?:\.\d+)?\Z')


def long_numeral(rng):
    """numerals around and beyond the range of a double (1.797e308: 309 digits) and of every machine integer"""
    n = rng.choice([39, 300, 308, 309, 309, 310, 320, 400, 400, 1000, 3999])
    body = rng.choice('1129') + ''.join(rng.choice('0123456789') for _ in range(n - 1))
    if rng.random() < 0.2:
        body = '0' * rng.choice([1, 50]) + body
    return body + rng.choice(['', '', '.0', '.0', '.5', '.000000', '.0000001', '.' + '9' * 30])


def with_long_numeral(rng, text):
    """a very long numeral, with or without a fraction: in place of a numeral of the text, or in a small file of its own
    (appended) whose only column has a declared core type, or none"""
    toks = split_text(text)
    nums = [k for k, t in enumerate(toks) if NUM_TOKEN.match(t)]
    lit = long_numeral(rng)
    if nums and rng.random() < 0.5:
        toks[rng.choice(nums)] = lit
        return ''.join(toks)
    kind = rng.choice(['LN', 'Ln_%d' % rng.randint(0, 9)])
    sign = rng.choice(['', '', '-'])
    ty = gen_schema.gen_type(rng, 'INTEGER' if rng.random() < 0.35 else None)
    head = 'CREATE TABLE %s (N %s); ' % (kind, ty) if rng.random() < 0.85 else ''
    return text + rng.choice([' ', '\n']) + head + 'INSERT INTO %s VALUES (%s%s);\n' % (kind, sign, lit)


def g_text(rng, env, stream):
    text = g_text0(rng, env, stream)
    lrng = rng.fork('long-numeral', len(text), zlib.crc32(text.encode('utf-8', 'surrogatepass')))
    if lrng.random() < 0.025:
        text = with_long_numeral(lrng, text)
    # a PRNG of its own: the other cases stay what they were
    srng = rng.fork('surrogate', len(text), zlib.crc32(text.encode('utf-8', 'surrogatepass')))
    if srng.random() < 0.02:
        return with_surrogate(srng, text)
    return text


def g_text0(rng, env, stream):
    if stream == 'family':
        return g_family(rng)
    if stream == 'fuzz':
        return g_fuzz(rng)
    if stream == 'tokens':
        toks = [g_random_token(rng) for _ in range(rng.choice([1, 2, 3, 5, 8, 15, 40]))]
        return join_tokens(rng, toks, tight=0.15)
    if stream == 'valid':
        if rng.random() < 0.2:
            return g_model_text(rng)
        return join_tokens(rng, g_valid_tokens(rng, env), tight=0.02)
    # mutation of a valid file
    if rng.random() < 0.2:
        base = split_text(g_model_text(rng))
    else:
        base = split_text(join_tokens(rng, g_valid_tokens(rng, Env() if rng.random() < 0.5 else env)))
    return mutate(rng, base)


ZERO_GUID = '"00000000-0000-0000-0000-000000000000"'


def g_typed(rng):
    """COLUMN TYPE x LEXICAL CLASS, exhaustively crossed by a small file: one declared column (every core type in every letter
    case, unknown types) receives a value of every lexical class (number, negative number, fraction, string, TRUE / FALSE,
    well-formed and malformed uuid, very long numeral), positionally or by name (names that the class lacks, fewer names
    than values); and referrers / referred instances whose key is the null value of its type ('' / the zero uuid / 0)"""
    r = rng.random()
    if r < 0.25:
        ty = rng.choice(['STRING', 'UNIQUE_ID', 'INTEGER', 'STRING', 'UNIQUE_ID'])
        nulls = {'STRING': ["''", "'k'", "' '"], 'UNIQUE_ID': [ZERO_GUID, '0', '"00000000-0000-0000-0000-000000000007"', '7'],
                 'INTEGER': ['0', '7', '-0']}[ty]
        t1, t2 = gen_schema.gen_type(rng, ty), gen_schema.gen_type(rng, ty)
        stmts = ['CREATE TABLE B (Id %s, N INTEGER);' % t1, 'CREATE TABLE A (B_Id %s);' % t2,
                 'CREATE ROP REF_ID R1 FROM %s A (B_Id) TO %s B (Id);' % (rng.choice(['MC', 'M', '1C']), rng.choice(['1', '1C']))]
        for k in range(rng.randint(1, 3)):
            stmts.append('INSERT INTO B VALUES (%s, %d);' % (rng.choice(nulls), k))
        for k in range(rng.randint(1, 3)):
            stmts.append('INSERT INTO A VALUES (%s);' % rng.choice(nulls))
        if rng.random() < 0.3:
            rng.shuffle(stmts)
        return ' '.join(stmts)
    ty = g_type(rng) if rng.random() < 0.8 else rng.choice(['FOO', 'INT', 'same_as', 'inst_ref', 'TEXT'])
    pick = rng.random()
    if pick < 0.15:
        val = rng.choice([ZERO_GUID, '"%032x"' % rng.getrandbits(128), '"zz"', '""', '"12345678-1234-1234-1234-1234567890ab"',
                          '"{12345678123412341234123456789012}"', '"urn:uuid:12345678123412341234123456789012"', '"1234"'])
    elif pick < 0.22:
        val = rng.choice(['', '-']) + long_numeral(rng)
    else:
        val = ' '.join(g_value_of(rng, rng.choice(gen_schema.CORE)))
    two = rng.random() < 0.4
    decl = 'CREATE TABLE T (N %s%s);' % (ty, ', S STRING' if two else '')
    vals = [val] + (["'x'"] if two else [])
    if rng.random() < 0.15:
        vals = vals + ['1'] if rng.random() < 0.5 else vals[:-1] or vals        # more / fewer values than columns
    if rng.random() < 0.4:
        names = ['N', 'S'][:len(vals)] + ['X%d' % k for k in range(max(0, len(vals) - 2))]
        q = rng.random()
        if q < 0.2:
            names[rng.randrange(len(names))] = rng.choice(['Q', 'n_', 'NN'])       # a name the class does not have
        elif q < 0.3:
            names = names[:-1] or names + ['S']                                   # other number of names than values
        elif q < 0.45:
            names = [g_case(rng, w) for w in names]
        ins = 'INSERT INTO T (%s) VALUES (%s);' % (', '.join(names), ', '.join(vals))
    else:
        ins = 'INSERT INTO T VALUES (%s);' % ', '.join(vals)
    parts = [decl, ins] if rng.random() < 0.85 else [ins, decl]
    return rng.choice([' ', '\n']).join(parts)


# --------------------------------------------------------------------------- NUMERAL POSITIONS x NUMERAL LENGTHS

# every place of the dialect where a run of digits can stand
NUMERAL_SLOTS = ['relid', 'card', 'card-c', 'int', 'int-in-real', 'int-in-other', 'real-int', 'real-frac', 'class-name', 'attr-name',
                 'index-name', 'string', 'phrase', 'guid', 'comment', 'stray', 'digit-run']
# lengths around the limits a numeral can meet on its way through python: machine integers (19 / 20 / 39 digits), the range of a
# double (309), CPython's limit for int(str) / str(int) (sys.int_info.default_max_str_digits = 4300; 640 is the lowest value
# that limit can be set to), and well beyond
NUMERAL_LENGTHS = [1, 2, 19, 20, 39, 309, 310, 639, 640, 641, 1000, 4299, 4300, 4301, 4302, 5000, 8601, 20000]


def g_digits(rng, n):
    """a run of `n` digits: random, one repeated digit, leading zeros (all but the last digit / half of them), a power of ten"""
    style = rng.choice(['random', 'random', 'ones', 'nines', 'zeros-one', 'zeros', 'half-zeros', 'power'])
    if style == 'random':
        return rng.choice('123456789') + ''.join(rng.choice('0123456789') for _ in range(n - 1))
    if style == 'ones':
        return '1' * n
    if style == 'nines':
        return '9' * n
    if style == 'zeros-one':
        return '0' * (n - 1) + '1'
    if style == 'zeros':
        return '0' * n
    if style == 'half-zeros':
        return '0' * (n // 2) + ''.join(rng.choice('0123456789') for _ in range(n - n // 2))
    return '1' + '0' * (n - 1)


DIGIT_RUN = re.compile(r'[0-9]+')


def g_numerals(rng, slot, n):
    """a small VALID file (two classes, an association between them, optionally an index, instances) in which the digits at ONE
    position -- `slot`: the association number, a cardinality, a value of an integer / real / other column, the integer or the
    fractional part of a fraction, the tail of a class / attribute / index name, the inside of a string, phrase, guid or comment,
    a stray token -- are a numeral of `n` digits; slot `digit-run`: any maximal run of digits of a grammar-derived valid file
    (wherever it stands: R1, 1C, x1, 42, 1.5, 'a1') is replaced.  Every other part of the file stays valid, so what happens to
    the text is decided by that numeral alone."""
    num = g_digits(rng, n)
    if slot == 'digit-run':
        text = join_tokens(rng, g_valid_tokens(rng, Env()), tight=0.02)
        runs = list(DIGIT_RUN.finditer(text))
        if runs:
            mt = rng.choice(runs)
            return text[:mt.start()] + num + text[mt.end():]
        slot = 'relid'
    core = gen_schema.CORE
    kt = rng.choice(['INTEGER', 'INTEGER', 'INTEGER', 'STRING', 'UNIQUE_ID', 'REAL', 'BOOLEAN'])      # type of the key columns
    ot = rng.choice([t for t in core if t not in ('INTEGER', 'REAL')])
    X, Y = rng.choice([('X', 'Y'), ('Dog', 'Owner'), ('A', 'B'), ('x1', 'R_1')])
    xid, yref, w, o = rng.choice(['Id', 'i', 'Key']), rng.choice(['X_Id', 'j', 'Ref']), rng.choice(['Weight', 'w']), rng.choice(['Other', 'o'])
    iname = rng.choice(['I1', 'I2', 'Idx'])
    sign = rng.choice(['', '', '-'])

    def lit(t, k):
        return {'INTEGER': str(k), 'REAL': '%d.5' % k, 'STRING': "'s%d'" % k, 'BOOLEAN': rng.choice(['TRUE', 'false', '1', '0']),
                'UNIQUE_ID': '"00000000-0000-0000-0000-%012d"' % k}[t]

    rel, card, phrase, comment, stray = 'R%d' % rng.choice([1, 2, 10, 0]), rng.choice(['1', '1C']), '', '', ''
    keyv, wv, ov = lit(kt, 7), '2.5', lit(ot, 3)
    if slot == 'relid':
        rel = 'R' + num
    elif slot == 'card':
        card = num
    elif slot == 'card-c':
        card = num + rng.choice(['C', 'c'])
    elif slot == 'int':
        kt, keyv = 'INTEGER', sign + num
    elif slot == 'int-in-real':
        wv = sign + num
    elif slot == 'int-in-other':
        ov = sign + num
    elif slot == 'real-int':
        wv = sign + num + rng.choice(['.0', '.5', '.000001', '.25'])
    elif slot == 'real-frac':
        wv = sign + rng.choice(['0', '1', '42']) + '.' + num
    elif slot == 'class-name':
        X = X + rng.choice(['', '_']) + num
    elif slot == 'attr-name':
        xid = xid + rng.choice(['', '_']) + num
    elif slot == 'index-name':
        iname = rng.choice(['I', 'I_', '_']) + num
    elif slot == 'string':
        ot, ov = 'STRING', "'%s%s'" % (rng.choice(['', 'a', "''", '-']), num)
    elif slot == 'phrase':
        phrase = " PHRASE '%s'" % num
    elif slot == 'guid':
        ot, ov = 'UNIQUE_ID', '"%s%s"' % (rng.choice(['', '', '00000000-0000-0000-0000-', 'urn:uuid:', '{']), num)
    elif slot == 'comment':
        comment = '-- %s%s\n' % (rng.choice(['', 'R', 'v']), num)
    elif slot == 'stray':
        stray = rng.choice(['%s', '%s;', '(%s)', 'R%s', '%s.%s' % ('%s', num[:7])]) % num
    many = rng.choice(['MC', 'M', '1C', '1'])
    stmts = ['CREATE TABLE %s (%s %s, %s %s, %s %s);' % (X, xid, gen_schema.gen_type(rng, kt), w, gen_schema.gen_type(rng, 'REAL'),
                                                         o, gen_schema.gen_type(rng, ot)),
             'CREATE TABLE %s (Id INTEGER, %s %s);' % (Y, yref, gen_schema.gen_type(rng, kt))]
    ends = ['%s %s (%s)' % (many, Y, yref), '%s %s (%s)%s' % (card, X, xid, phrase)]
    stmts.append('CREATE ROP REF_ID %s FROM %s TO %s;' % (rel, ends[0], ends[1]))
    if slot == 'index-name' or rng.random() < 0.5:
        stmts.append('CREATE UNIQUE INDEX %s ON %s (%s);' % (iname, X, xid))
    if rng.random() < 0.7:
        stmts.append('INSERT INTO %s VALUES (%s, %s, %s);' % (X, keyv, wv, ov))
    else:
        stmts.append('INSERT INTO %s (%s, %s, %s) VALUES (%s, %s, %s);' % (X, o, xid, w, ov, keyv, wv))
    for k in range(rng.randint(0, 2)):
        stmts.append('INSERT INTO %s VALUES (%d, %s);' % (Y, k, keyv if rng.random() < 0.7 else lit(kt, 8)))
    if rng.random() < 0.25:
        rng.shuffle(stmts)
    if comment:
        stmts.insert(rng.randint(0, len(stmts)), comment)
    if stray:
        stmts.insert(rng.randint(0, len(stmts)), stray)
    return rng.choice(['\n', ' ', '\n']).join(stmts) + rng.choice(['', '\n'])


NUMERALS_BEFORE = 'CREATE TABLE P_Before (a INTEGER); INSERT INTO P_Before VALUES (4);'


def g_numerals_cases(ctx, count, tag='numerals'):
    """`count` cases; the first len(NUMERAL_SLOTS) * len(NUMERAL_LENGTHS) of them CROSS every position with every length (the
    order of the cross is shuffled per seed), the others draw both at random; a third of the cases feed a valid text first, so
    that a rejected numeral text has content to leave alone"""
    cross = [(s, n) for s in NUMERAL_SLOTS for n in NUMERAL_LENGTHS]
    ctx.rng.fork(tag, 'order').shuffle(cross)
    for i in range(count):
        rng = ctx.rng.fork(tag, i)
        slot, n = cross[i] if i < len(cross) else (rng.choice(NUMERAL_SLOTS), rng.choice(NUMERAL_LENGTHS + [rng.randint(1, 9000)]))
        text = g_numerals(rng, slot, n)
        if rng.random() < 0.33:
            yield {'texts': [NUMERALS_BEFORE, text], 'streams': ['valid', 'numerals'], 'slot': slot, 'digits': n}
        else:
            yield {'texts': [text], 'streams': ['numerals'], 'slot': slot, 'digits': n}


def search(ctx, broken):
    """targeted generator used when a tie is broken: first the numeral cross (positions x lengths) several times over, then the
    ordinary streams at the enlarged size"""
    for case in g_numerals_cases(ctx, 4 * len(NUMERAL_SLOTS) * len(NUMERAL_LENGTHS), tag='numerals-search'):
        yield case
    for case in generate(ctx):
        yield case


def generate(ctx):
    # the numeral cross first (a few seconds): it is complete on every run, also when the time budget cuts the streams short on
    # a loaded machine; every family draws from a PRNG forked by (family, index), so the order does not change any case
    for case in g_numerals_cases(ctx, ctx.pick(len(NUMERAL_SLOTS) * len(NUMERAL_LENGTHS) + 60, 3000)):
        yield case
    for case in generate0(ctx):
        yield case
    # extra cases AFTER the streams (which stay what they were)
    for i in range(ctx.pick(700, 9000)):
        rng = ctx.rng.fork('typed', i)
        k = rng.choice([1, 1, 1, 2])
        yield {'texts': [g_typed(rng) for _ in range(k)], 'streams': ['typed'] * k}


def generate0(ctx):
    n = ctx.pick(11000, 150000)
    for i in range(n):
        rng = ctx.rng.fork('case', i)
        env = Env()
        k = rng.choice([1, 1, 2, 2, 3, 4])
        texts = []
        streams = []
        for _ in range(k):
            r = rng.random()
            stream = 'mutation' if r < 0.53 else 'valid' if r < 0.68 else 'fuzz' if r < 0.83 else 'tokens' if r < 0.97 else 'family'
            texts.append(g_text(rng, env, stream))
            streams.append(stream)
        yield {'texts': texts, 'streams': streams}
    for fam in TIMING_FAMILIES:
        yield {'timing': fam, 'n': ctx.pick(20000, 60000)}


TIMING_FAMILIES = ["'", '"', '-', '7', "''", '\\', "'a", '"a', '(', '1.', ' ', '\n', "INSERT INTO A VALUES ('", 'x', '"\\', '1C', ',']


def _timing_text(fam, n):
    if fam.startswith('INSERT'):
        return fam + "'" * n
    return fam * (n // len(fam))


# --------------------------------------------------------------------------- implementation side

LONG_RUN = re.compile(r'\d{41,}')


def _show(text, limit=300):
    """`text` for a message: long runs of digits abbreviated (so that the position of a long numeral stays visible), then cut"""
    return LONG_RUN.sub(lambda mt: '%s...<%d digits>' % (mt.group(0)[:8], len(mt.group(0))), text)[:limit]


def _deep(statements):
    """per statement its class name and the fields the PARSER gave it (every attribute not starting with `_`), as texts"""
    out = []
    for s in statements:
        out.append((type(s).__name__, {k: repr(v) for k, v in vars(s).items() if not k.startswith('_')}))
    return out


def _deep_eq(before, after):
    """the accumulated CONTENT is the same: as many statements, of the same classes, and every field a statement had in `before`
    (taken right after input(), before any build) has the same value in `after`.  Attributes that appear LATER on a statement
    object, or whose names start with `_`, are private bookkeeping of the library (a memo), not applied input: ignored here
    and counted by `_bookkeeping`."""
    if len(before) != len(after):
        return False
    for (tb, fb), (ta, fa) in zip(before, after):
        if tb != ta or any(k not in fa or fa[k] != v for k, v in fb.items()):
            return False
    return True


def _bookkeeping(statements, before):
    """number of statements that carry attributes the parser did not give them"""
    n = 0
    for s, (_, fb) in zip(statements, before):
        if any(k.startswith('_') or k not in fb for k in vars(s)):
            n += 1
    return n


def _classify_build_exc(e, statements):
    if isinstance(e, _x.ParsingException):
        return 'parsing'
    if isinstance(e, _x.MetaException):
        return 'meta'
    return None


def _build(loader):
    """(outcome symbol, metamodel or None, exception or None)"""
    try:
        m = loader.build_metamodel(_x.IntegerGenerator())
        return 'ok', m, None
    except _x.ParsingException as e:
        return 'parsing', None, e
    except _x.MetaException as e:
        return 'meta', None, e
    except RecursionError as e:
        return 'builtin', None, e
    except Exception as e:
        return 'builtin', None, e


def _safe_dump(m):
    try:
        return gen_schema.dump(_x, m)
    except Exception as e:
        return 'undumpable:%s' % type(e).__name__


def top_level_semicolons(text):
    """number of `;` outside string literals, guids and comments (a four-state scanner that does not share any code with
    the loader; exact on texts the loader accepts)"""
    n = 0
    i = 0
    state = ''
    while i < len(text):
        ch = text[i]
        if state == "'":
            if ch == "'":
                state = ''
        elif state == '"':
            if ch == '\\':
                i += 1
            elif ch == '"':
                state = ''
        elif state == '-':
            if ch == '\n':
                state = ''
        elif ch == "'" or ch == '"':
            state = ch
        elif ch == '-' and text[i + 1:i + 2] == '-':
            state = '-'
            i += 1
        elif ch == ';':
            n += 1
        i += 1
    return n


NUMLIKE = re.compile(r'-?(\d+)(?:\.(\d+))?\Z')
AFTER_TEXT = 'CREATE TABLE ZZ_After (a INTEGER, b STRING); INSERT INTO ZZ_After VALUES (1, \'x\');'


def _real_comparable(v):
    """value texts on which float() and the six-decimal numerals of the model can be compared exactly"""
    mt = NUMLIKE.match(v)
    return bool(mt) and len(mt.group(1)) + len(mt.group(2) or '') <= 15 and len(mt.group(2) or '') <= 6


def _reals_obs(statements):
    out = [Sym('reals')]
    for st in statements:
        if type(st).__name__ != 'CreateInstanceStmt':
            continue
        for v in gen_schema.field(st, 'values', []):
            if isinstance(v, str) and _real_comparable(v):
                try:
                    neg, micro = gen_schema.dec6_parts(float(v))
                except ValueError:
                    continue
                out.append([v, Sym('T') if neg else Sym('F'), micro])
    return out


def _real_tokens(text):
    return gen_schema.real_tokens(_x, text)


def _run_timing(case):
    fam, n = case['timing'], case['n']
    fails = []

    def once(k):
        text = _timing_text(fam, k)
        best = None
        for _ in range(3):
            l = _x.ModelLoader()
            t0 = time.process_time()
            try:
                l.input(text)
            except _x.ParsingException:
                pass
            dt = time.process_time() - t0
            best = dt if best is None else min(best, dt)
        return best
    t1 = once(n)
    t4 = once(4 * n)
    if t4 > 12 * t1 + 0.5:
        fails.append({'sig': 'time-superlinear', 'what': 'input of %d x %r took %.3fs, of %d x took %.3fs' % (n, fam, t1, 4 * n, t4)})
    return {'obs': 'timing', 'd_fail': fails, 'nontrivial': False, 'key': 'timing/' + fam,
            'stats': {'timing_cases': 1}}


def run_impl(case):
    if 'timing' in case:
        return _run_timing(case)
    x = _x
    texts = case['texts']
    fails = []
    stats = {}
    if 'slot' in case:
        stats['numeral_at_' + str(case['slot'])] = 1
        stats['numeral_digits_%s' % ('1-39' if case.get('digits', 0) <= 39 else '40-4300' if case.get('digits', 0) <= 4300 else 'over-4300')] = 1

    def fail(sig, what):
        if len(fails) < 3:
            fails.append({'sig': sig, 'what': what})

    loader = x.ModelLoader()
    outs = []
    accepted = []
    for k, text in enumerate(texts):
        before = _deep(loader.statements)
        t0 = time.process_time()
        try:
            loader.input(text)
            outs.append(Sym('accepted'))
            accepted.append(text)
            # an accepted text is applied completely: one statement per top-level semicolon, after the old CONTENT (the property
            # speaks about the loader's accumulated content, not about the identity of the list object)
            added = len(loader.statements) - len(before)
            if added != top_level_semicolons(text) or not _deep_eq(before, _deep(loader.statements[:len(before)])):
                fail('accepted-text-not-applied', 'text %d %r was accepted and has %d statements, but loader.statements grew '
                     'by %d' % (k, text[:300], top_level_semicolons(text), added))
        except x.ParsingException:
            outs.append(Sym('parsing'))
            after = _deep(loader.statements)
            if not _deep_eq(before, after):
                fail('rejected-input-changed-statements', 'text %d %r was rejected but loader.statements changed from %d to %d '
                     'entries' % (k, text[:200], len(before), len(after)))
        except Exception as e:
            outs.append(Sym('other'))
            fail('input-raises:%s' % type(e).__name__, 'input(%r) raised %s: %s' % (_show(text), type(e).__name__, str(e)[:200]))
        dt = time.process_time() - t0
        # acceptance is a function of the TEXT: a fresh loader classifies it the same way and parses the same statements
        if str(outs[-1]) in ('accepted', 'parsing'):
            probe = x.ModelLoader()
            try:
                probe.input(text)
                pacc = 'accepted'
            except x.ParsingException:
                pacc = 'parsing'
            except Exception as e:
                pacc = 'other:' + type(e).__name__
            if pacc != str(outs[-1]):
                fail('input-depends-on-history', 'text %d %r is %s by a loader that saw %r before, and %s by a fresh loader' % (
                    k, text[:300], outs[-1], [t[:80] for t in texts[:k]], pacc))
            elif pacc == 'accepted' and not _deep_eq(_deep(probe.statements), _deep(loader.statements[len(before):])):
                fail('input-depends-on-history', 'text %d %r gives other statements on a loader with history than on a fresh one' % (
                    k, text[:300]))
        if dt > 2.0 + 2e-4 * len(text):
            fail('time-budget', 'input of %d characters took %.2fs: %r' % (len(text), dt, text[:100]))
        stats['stream_' + case['streams'][k]] = stats.get('stream_' + case['streams'][k], 0) + 1
        stats['in_' + str(outs[-1])] = stats.get('in_' + str(outs[-1]), 0) + 1
    stmts = [gen_schema.stmt_dump(s) for s in loader.statements]
    reals = _reals_obs(loader.statements)
    deep_before_build = _deep(loader.statements)
    outcome, m, exc = _build(loader)
    if outcome == 'builtin':
        # no known finding is left for C12 (the `__x__` names are rejected with MetaModelException since 7fb506e): every
        # built-in exception is a failure
        if any(type(s).__name__ == 'CreateAssociationStmt' and len(gen_schema.field(s, 'source_keys', [])) != len(gen_schema.field(s, 'target_keys', []))
               for s in loader.statements):
            fail('build-builtin:rop-key-count-mismatch', 'build_metamodel raised %s (%s) for input with a CREATE ROP whose key '
                 'lists differ in length: %r' % (type(exc).__name__, str(exc)[:120], [t[:400] for t in accepted]))
        else:
            fail('build-builtin:%s' % type(exc).__name__, 'build_metamodel raised %s: %s for accepted texts %r' % (
                type(exc).__name__, str(exc)[:200], [_show(t, 400) for t in accepted]))
    if gen_schema.OBS_UNAVAILABLE:
        stats['observation_unavailable'] = 1          # an internal field of a statement class is gone: marker instead of a crash
    stats['build_' + outcome] = 1
    stats['statements'] = len(stmts)
    # a fresh loader that never saw the rejected texts
    if len(accepted) != len(texts) and outcome != 'builtin':
        fresh = x.ModelLoader()
        try:
            for t in accepted:
                fresh.input(t)
            fstmts = [gen_schema.stmt_dump(s) for s in fresh.statements]
            if fstmts != stmts:
                fail('rejected-input-visible:statements', 'statements after %r differ from those of a loader given only the '
                     'accepted texts' % ([t[:120] for t in texts],))
            foutcome, fm, fexc = _build(fresh)
            if foutcome != outcome:
                fail('rejected-input-visible:build-outcome', 'build gives %s, a loader given only the accepted texts gives %s: %r' % (
                    outcome, foutcome, [t[:120] for t in texts]))
            elif outcome == 'ok':
                d = gen_schema.diff(_safe_dump(m), _safe_dump(fm))
                if d:
                    fail('rejected-input-visible:build', 'built metamodel differs from that of a loader given only the accepted '
                         'texts at %s: %r' % (d, [t[:120] for t in texts]))
        except Exception as e:
            fail('fresh-loader-raises:%s' % type(e).__name__, 'a fresh loader raised %s on texts the first loader accepted' % type(e).__name__)
    if outcome != 'builtin':
        _afterlife(x, loader, accepted, outcome, m, deep_before_build, fail, stats)
    if zlib.crc32(dumps(texts).encode('ascii')) % 3 == 0 and 'other' not in [str(o) for o in outs]:
        try:
            _file_routes(x, texts, outs, stmts, accepted, outcome, m, fail, stats)
        except OSError as e:
            stats['file_routes_os_error'] = 1
    toks = [Sym('tokens')] + [[_real_tokens(t), Sym('same')] for t in texts]
    obs = [outs, stmts, Sym(outcome), reals, toks]
    nontrivial = (0 < len(accepted) < len(texts)) or outcome in ('parsing', 'meta')
    return {'obs': obs, 'd_fail': fails, 'nontrivial': nontrivial, 'key': dumps(texts), 'stats': stats}


def _file_routes(x, texts, outs, stmts, accepted, outcome, m, fail, stats):
    """THE OTHER WAYS OF FEEDING TEXT to a loader: `filename_input`, `file_input` (an open file) and `load_metamodel` (a list of
    file names).  Each text goes into a file of its own; the expectation is what `input()` did with the same text in the main
    run (that behaviour is compared with the Lean model): the same verdict per text, nothing else raised, a rejected file
    leaves the content as it was, the same accumulated statements, the same build."""
    work = tempfile.mkdtemp(prefix='f-', dir=_tmpdir)
    try:
        paths = []
        for k, text in enumerate(texts):
            pk = os.path.join(work, 't%d.sql' % k)
            try:
                with open(pk, 'w', newline='', encoding='utf-8') as f:
                    f.write(text)
                with open(pk, 'r', newline='') as f:
                    back = f.read()
            except (UnicodeError, ValueError):
                back = None
            if back != text:
                stats['file_routes_text_not_representable'] = 1           # e.g. a lone surrogate: no file holds this text
                return
            paths.append(pk)
        loader = x.ModelLoader()
        for k, (text, pk) in enumerate(zip(texts, paths)):
            before = _deep(loader.statements)
            route = 'filename_input' if (k + len(texts)) % 2 == 0 else 'file_input'
            try:
                if route == 'filename_input':
                    loader.filename_input(pk)
                else:
                    with open(pk, 'r', newline='') as f:
                        loader.file_input(f)
                got = 'accepted'
            except x.ParsingException:
                got = 'parsing'
            except Exception as e:
                got = 'other'
                fail('%s-raises:%s' % (route, type(e).__name__), '%s of a file holding %r raised %s: %s' % (
                    route, text[:300], type(e).__name__, str(e)[:200]))
            stats['file_route_' + route] = stats.get('file_route_' + route, 0) + 1
            if got != 'other' and got != str(outs[k]):
                fail('file-route-differs:verdict', '%s of a file holding %r: %s, input() of the same text: %s' % (
                    route, text[:300], got, outs[k]))
            if got != 'accepted' and not _deep_eq(before, _deep(loader.statements)):
                fail('rejected-file-changed-statements', '%s of a file holding %r was rejected (%s) but loader.statements changed '
                     'from %d to %d entries' % (route, text[:300], got, len(before), len(loader.statements)))
        fstmts = [gen_schema.stmt_dump(s) for s in loader.statements]
        if fstmts != stmts:
            fail('file-route-differs:statements', 'the statements accumulated through filename_input / file_input differ from '
                 'those accumulated through input() for %r' % ([t[:200] for t in texts],))
        # load_metamodel over the files input() accepted, in order
        if outcome != 'builtin':
            acc_paths = [pk for pk, o in zip(paths, outs) if str(o) == 'accepted']
            try:
                lm = x.load_metamodel(acc_paths if len(acc_paths) != 1 or len(texts) % 2 else acc_paths[0])
                lout = 'ok'
            except Exception as e:
                lm = None
                lout = _classify_build_exc(e, []) or 'builtin'
                if lout == 'builtin':
                    fail('load_metamodel-raises:%s' % type(e).__name__, 'load_metamodel of files holding %r raised %s: %s' % (
                        [t[:200] for t in accepted], type(e).__name__, str(e)[:200]))
            stats['file_route_load_metamodel'] = 1
            if lout != 'builtin' and lout != outcome:
                fail('file-route-differs:build-outcome', 'load_metamodel of the accepted files ends %s, input() + build_metamodel '
                     'of the same texts ends %s: %r' % (lout, outcome, [t[:200] for t in accepted]))
            elif lout == 'ok':
                # the reference is built with the SAME (default) id generator as load_metamodel, which takes none: with the
                # harness's IntegerGenerator a DEFAULTED unique id (1, 2, …) can equal a given key by accident and link a row
                # that load_metamodel's random id does not link
                try:
                    ref_loader = x.ModelLoader()
                    for t in accepted:
                        ref_loader.input(t)
                    ref = ref_loader.build_metamodel()
                except Exception:
                    ref = m
                    stats['file_route_reference_with_integer_ids'] = 1
                da, db = _safe_dump(ref), _safe_dump(lm)
                if gen_schema.diff(da, db) and isinstance(da, dict) and isinstance(db, dict):
                    # load_metamodel has no id generator argument: unique ids that were DEFAULTED (an INSERT with fewer values
                    # than attributes) come from another generator; the statements (compared above) carry all given values
                    for dx in (da, db):
                        for c in dx.get('classes', {}).values():
                            for i, (_, ty) in enumerate(c['attrs']):
                                if ty == 'UNIQUE_ID':
                                    for row in c['rows']:
                                        row[i] = 'id'
                    stats['file_route_ids_masked'] = 1
                d = gen_schema.diff(da, db)
                if d:
                    fail('file-route-differs:build', 'load_metamodel of the accepted files builds another metamodel than input() + '
                         'build_metamodel of the same texts, at %s: %r' % (d, [t[:200] for t in accepted]))
    finally:
        for f in os.listdir(work):
            os.unlink(os.path.join(work, f))
        os.rmdir(work)


def _afterlife(x, loader, accepted, outcome, m, deep_before_build, fail, stats):
    """keep using the loader (and what it built) after the build, whatever its outcome"""
    nb = _bookkeeping(loader.statements, deep_before_build)
    if nb:
        stats['statements_with_bookkeeping_attrs'] = nb
    if not _deep_eq(deep_before_build, _deep(loader.statements)):
        fail('build-changed-statements', 'build_metamodel (%s) changed loader.statements: %r' % (outcome, [t[:200] for t in accepted]))
        return
    # the loader's content is not consumed: a second build ends the same way
    outcome2, m2, exc2 = _build(loader)
    if outcome2 != outcome:
        fail('second-build-differs', 'the first build_metamodel gives %s, the second one from the same loader %s: %r' % (
            outcome, outcome2, [t[:200] for t in accepted]))
        return
    d1 = _safe_dump(m) if outcome == 'ok' else None
    if outcome == 'ok':
        d = gen_schema.diff(d1, _safe_dump(m2))
        if d:
            fail('second-build-differs', 'two builds from one loader differ at %s: %r' % (d, [t[:200] for t in accepted]))
    else:
        # a rejected populate() on a metamodel of the caller's: same documented exception, statements untouched, and the
        # half-built metamodel still answers every observer
        mu = x.MetaModel(x.IntegerGenerator())
        try:
            loader.populate(mu)
            got = 'ok'
        except x.ParsingException:
            got = 'parsing'
        except x.MetaException:
            got = 'meta'
        except Exception as e:
            got = 'builtin:' + type(e).__name__
        if got != outcome:
            fail('populate-differs-from-build', 'build_metamodel ends in %s, populate on a new metamodel in %s: %r' % (
                outcome, got, [t[:200] for t in accepted]))
        elif isinstance(_safe_dump(mu), str):
            # observation only: after a populate() that raised, the caller's metamodel may hold a half-initialised instance
            # (MetaClass.new appends to storage before the defaults are set); the property does not speak about it
            stats['half_built_metamodels'] = 1
        stats['afterlife_rejected_populate'] = 1
        if not _deep_eq(deep_before_build, _deep(loader.statements)):
            fail('build-changed-statements', 'a rejected populate changed loader.statements: %r' % ([t[:200] for t in accepted],))
            return
    # one more text after the build: the loader goes on as a fresh one that saw the accepted texts and this one
    try:
        loader.input(AFTER_TEXT)
        fresh = x.ModelLoader()
        for t in accepted:
            fresh.input(t)
        fresh.input(AFTER_TEXT)
    except Exception as e:
        fail('input-after-build-raises:%s' % type(e).__name__, 'a valid text fed after the build (%s) raised %s: %r' % (
            outcome, type(e).__name__, [t[:200] for t in accepted]))
        return
    o3, m3, _ = _build(loader)
    o4, m4, _ = _build(fresh)
    stats['afterlife'] = 1
    if o3 != o4:
        fail('loader-after-build-differs', 'after a build (%s) and one more text the loader builds %s, a fresh loader with the same '
             'texts %s: %r' % (outcome, o3, o4, [t[:200] for t in accepted]))
    elif o3 == 'ok':
        d = gen_schema.diff(_safe_dump(m3), _safe_dump(m4))
        if d:
            fail('loader-after-build-differs', 'after a build (%s) and one more text the built metamodel differs from that of a fresh '
                 'loader at %s: %r' % (outcome, d, [t[:200] for t in accepted]))
        elif d1 is not None and gen_schema.diff(d1, _safe_dump(m)):
            fail('earlier-metamodel-changed', 'the metamodel of the first build changed while the loader was used further: %r' % (
                [t[:200] for t in accepted],))


# --------------------------------------------------------------------------- model side

GUID_RE = re.compile(r'"((?:[^\\\n"]|\\.)*)"')
HEX32 = re.compile(r'^[0-9a-fA-F]{32}$')


def _outside_model(text):
    """texts the model deliberately does not cover (see ASSUMPTIONS)"""
    if re.search(r'\d{4000}', text):
        return True
    for q in GUID_RE.findall(text) + re.findall(r"'((?:''|[^'])*)'", text):
        h = q.replace('urn:', '').replace('uuid:', '').strip('{}').replace('-', '')
        if len(h) == 32 and not HEX32.match(h):
            return True
    return any(0xD800 <= ord(ch) <= 0xDFFF for ch in text)


def model_line(case):
    if 'timing' in case:
        return None
    if any(_outside_model(t) for t in case['texts']):
        return None
    return dumps([Sym('c12'), [Sym('uc')] + gen_schema.uc_table(case['texts'])] + list(case['texts']))


def model_obs(case, ans):
    # the model lists every value `parseReal` reads; the comparison is restricted to the texts float() reads exactly
    if isinstance(ans, list) and len(ans) == 5 and isinstance(ans[3], list):
        ans = ans[:3] + [[ans[3][0]] + [e for e in ans[3][1:] if isinstance(e, list) and e and _real_comparable(e[0])]] + ans[4:]
        # the regex engine is not run beyond its length limit: there the second stream is not compared
        if isinstance(ans[4], list):
            ans[4] = [ans[4][0]] + [[p[0], Sym('same')] if isinstance(p, list) and len(p) == 2 and str(p[1]) == 'skipped' else p
                                    for p in ans[4][1:]]
    return ans


def shrink_candidates(case):
    if 'timing' in case:
        return
    texts = case['texts']
    for i in range(len(texts)):
        if len(texts) > 1:
            yield {'texts': texts[:i] + texts[i + 1:], 'streams': case['streams'][:i] + case['streams'][i + 1:]}
    for i, t in enumerate(texts):
        parts = split_text(t)
        if len(parts) > 1:
            for j in range(len(parts)):
                cand = ''.join(parts[:j] + parts[j + 1:])
                yield {'texts': texts[:i] + [cand] + texts[i + 1:], 'streams': case['streams']}
        # statement-wise
        stm = t.split(';')
        if len(stm) > 2:
            for j in range(len(stm) - 1):
                cand = ';'.join(stm[:j] + stm[j + 1:])
                yield {'texts': texts[:i] + [cand] + texts[i + 1:], 'streams': case['streams']}
