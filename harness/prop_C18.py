"""C18 — One loader builds independent metamodels.

A case is a list of text chunks (chunk 0 = a generated schema with some rows, later chunks = more rows, a new
class, or — rarely — a chunk that makes every later build fail) and a history of operations on ONE loader:

    input            loader.input(next chunk)              (the empty text once the chunks are used up)
    build            loader.build_metamodel(IntegerGenerator())  -> metamodel number #builds
    mut k m          a mutation of the k-th built metamodel: append/insert/delete_attribute,
                     define_unique_identifier, new (without and WITH arguments: batch relate), delete, setattr,
                     relate, unrelate
    clone k j K i    metamodel k clones the i-th created instance of class K of metamodel j

  D  (property predicate, evaluated on the implementation after EVERY step):
       * every built metamodel other than the one the step targeted is unchanged: same canonical dump (classes,
         attributes, identifiers, instances by creation index with their stored values, key lists, both link
         directions, next id of its generator) and same `xtuml.serialize` text (or the same exception);
       * no step writes an object another metamodel or the loader can reach (id()-based probe: shallow content of
         every mutable object reachable from loader.statements and from the other metamodels before / after);
       * the objects shared between the loader's statements and a metamodel, or between two metamodels, are only
         objects no listed mutator writes (walk with roles: a shared `MetaClass.attributes`, `indices`, `storage`,
         `Link`, `OrderedSet`, instance `__dict__`, id generator ... is a failure even if this history did not write it);
       * a metamodel, when built, equals the one a FRESH loader builds from the chunks accepted so far.
  K  (correspondence): result of every step and dump of every metamodel after every step = the Lean heap model
       `Pyx.Heap.run` (PyxModel/LoadHeap.lean) run with the sharing parameters generated from the source.
"""
import gc
import hashlib
import itertools
import os

import loadgen as G
from sexp import Sym, dumps

PROP = 'C18'
RULE = ('exhaustive histories up to length 4 (thorough: 5) over the alphabet {input, build, reject (an input call whose text is a valid '
        'prefix followed by a syntax error: raises ParsingException, nothing is accepted)} + {mut k m : k in {0,1}, '
        'm in a fixed list of 10 mutations} + 3 clone operations, and of length 5 (thorough: 6) over a reduced alphabet of 5 mutations, on a '
        'fixed two-class scenario, only histories with a build whose mutations target an already built metamodel; '
        'plus random histories of length <= 12 (builds with their own IntegerGenerator or with none; some with a row that cannot be populated, so that every later build is rejected; some whose builds are rejected until a later input brings the missing CREATE TABLE; every 40th case also runs twelve build / discard / gc.collect rounds on a loader of its own) over '
        'generated schemas and populations (some with a class whose rows are read before its CREATE TABLE, so that earlier builds infer it) with randomly chosen mutations. Non-trivial = at least two metamodels were '
        'built and a mutation changed one of them; distinct = distinct (chunks, history)')
EXHAUSTIVE = {'quick': True, 'thorough': True}
ASSUMPTIONS = ['a build is given its own IntegerGenerator, or none (the metamodel then makes its own generator, whose random ids are '
               'not compared; a generator object handed to two builds is shared by the caller)',
               'mutations are applied through the public API of the built metamodel only',
               'the aliasing probe follows lists, tuples, dicts, sets, OrderedSets and the __dict__ of xtuml objects; '
               'classes, functions and modules are not followed']
TRUSTED_EXTRA = ['harness/loadgen.py (generator, SQL text writer)',
                 'translator/gen_sharing.py (escape / write-set analysis of the source text)']
CHUNK = 3000
CASE_TIMEOUT_S = 60
BUDGET_S = {'quick': 60, 'thorough': 600}

_x = None
_DOC = None
# per-step dumps are compared as digests of their canonical text (small results); PYXVERIF_FULL_OBS=1 keeps them
FULL_OBS = bool(os.environ.get('PYXVERIF_FULL_OBS'))


def _digest(x):
    if FULL_OBS or isinstance(x, Sym):
        return x
    return hashlib.sha1(dumps(x).encode('utf-8')).hexdigest()[:20]


def setup(ctx):
    global _x, _DOC
    import xtuml
    _x = xtuml
    _DOC = (xtuml.MetaException, xtuml.ParsingException)
    l = xtuml.ModelLoader()
    l.input('CREATE TABLE W (a INTEGER);')
    l.build_metamodel()


# ----------------------------------------------------------------------------- generation

FIXED_CHUNKS = [
    [{'t': 'cls', 'kind': 'KA', 'attrs': [['a0', 'INTEGER'], ['a1', 'STRING'], ['a2', 'UNIQUE_ID']]},
     {'t': 'cls', 'kind': 'KB', 'attrs': [['b0', 'UNIQUE_ID'], ['b1', 'INTEGER']]},
     {'t': 'assoc', 'rel': 'R1', 'sk': 'KB', 'scard': 'MC', 'skeys': ['b1'], 'sph': '', 'tk': 'KA', 'tcard': '1C',
      'tkeys': ['a0'], 'tph': ''},
     {'t': 'cls', 'kind': 'KC', 'attrs': [['c0', 'UNIQUE_ID'], ['c1', 'INTEGER']]},
     {'t': 'assoc', 'rel': 'R2', 'sk': 'KC', 'scard': 'MC', 'skeys': ['c1'], 'sph': '', 'tk': 'KA', 'tcard': '1C',
      'tkeys': ['a0'], 'tph': ''},
     {'t': 'uniq', 'kind': 'KA', 'name': 'I1', 'attrs': ['a0']},
     {'t': 'insert', 'kind': 'KA', 'names': None, 'vals': [['i', 1], ['s', 'a'], ['u', 5]], 'lex': ['1', "'a'", '5']},
     {'t': 'insert', 'kind': 'KC', 'names': None, 'vals': [['u', 4], ['i', 1]], 'lex': ['4', '1']},
     {'t': 'insert', 'kind': 'KB', 'names': None, 'vals': [['u', 2], ['i', 1]], 'lex': ['2', '1']},
     {'t': 'insert', 'kind': 'KB', 'names': None, 'vals': [['u', 3], ['i', 9]], 'lex': ['3', '9']}],
    [{'t': 'insert', 'kind': 'KA', 'names': None, 'vals': [['i', 9], ['s', ''], ['u', 0]], 'lex': ['9', "''", '0']}],
]
FIXED_MUTS = [
    ['append-attr', 'KA', 'x1', 'STRING'],
    ['delete-attr', 'KA', 'a1'],
    ['define-unique', 'KA', 'I1', ['a1', 'a0']],
    ['new', 'KA'],
    ['delete', 'KA', 0],
    ['set-attr', 'KA', 0, 'a1', ['s', 'zz']],
    ['relate', 0, 1, 0],
    ['unrelate', 0, 0, 0],
    ['insert-attr', 'KB', 0, 'y1', 'REAL'],
    ['new-args', 'KC', [['u', 9], ['i', 1]]],
]
FIXED_CLONES = [['clone', 0, 1, 'KC', 0], ['clone', 1, 0, 'KC', 0], ['clone', 0, 0, 'KC', 0]]
REDUCED = [0, 3, 4, 6, 9]


def _valid_histories(alphabet, length):
    """all op sequences of the given length whose mutations target a metamodel that exists"""
    def rec(prefix, builds, left):
        if left == 0:
            yield list(prefix)
            return
        for op in alphabet:
            if op[0] == 'mut' and op[1] >= builds:
                continue
            if op[0] == 'clone' and (op[1] >= builds or op[2] >= builds):
                continue
            prefix.append(op)
            yield from rec(prefix, builds + (1 if op[0] == 'build' else 0), left - 1)
            prefix.pop()
    return rec([], 0, length)


def _simulate(chunks, ops):
    """per metamodel: kind -> number of instances created so far ('cnt'), deleted (kind, id) pairs ('dead') and
    whether an attribute list was edited ('edited'), as the history unfolds; used to pick targets"""
    read = 0
    metas = []
    for op in ops:
        if op[0] == 'input':
            read = min(read + 1, len(chunks) + 1)
        elif op[0] == 'build':
            cnt = {}
            for ch in chunks[:read]:
                for s in ch:
                    if s['t'] == 'insert':
                        cnt[s['kind']] = cnt.get(s['kind'], 0) + 1
                    elif s['t'] == 'cls':
                        cnt.setdefault(s['kind'], 0)
            metas.append({'cnt': cnt, 'dead': set(), 'edited': False, 'default': len(op) > 1})
        elif op[0] == 'mut' and op[1] < len(metas):
            m, mut = metas[op[1]], op[2]
            if mut[0] in ('new', 'new-args') and mut[1] in m['cnt']:
                m['cnt'][mut[1]] += 1
            elif mut[0] == 'delete':
                m['dead'].add((mut[1], mut[2]))
            elif mut[0] in ('append-attr', 'insert-attr', 'delete-attr'):
                m['edited'] = True
        elif op[0] == 'clone' and op[1] < len(metas) and op[3] in metas[op[1]]['cnt']:
            metas[op[1]]['cnt'][op[3]] += 1
    return metas, read


def _random_case(rng, maxlen):
    stmts = None
    while not stmts or not any(s['t'] == 'cls' for s in stmts):
        stmts = G.gen_population(rng, max_rows=3, phrase_mode='mixed', inferred_p=0.0, allow_empty_keys=False)
    schema = [s for s in stmts if s['t'] != 'insert']
    rows = [s for s in stmts if s['t'] == 'insert']
    classes = [s for s in stmts if s['t'] == 'cls']
    assocs = [s for s in stmts if s['t'] == 'assoc']
    cut = rng.randint(0, len(rows))
    chunks = [schema + rows[:cut]]
    rest = rows[cut:]
    if rest:
        c2 = rng.randint(0, len(rest))
        chunks.append(rest[:c2])
        if rest[c2:]:
            chunks.append(rest[c2:])
    late = False
    r = rng.random()
    if r < 0.25:
        # a later chunk brings a new class with a row
        chunks.append([{'t': 'cls', 'kind': 'KN', 'attrs': [['n0', 'INTEGER']]},
                       {'t': 'insert', 'kind': 'KN', 'names': None, 'vals': [['i', 4]], 'lex': ['4']}])
    elif r < 0.33:
        # ... or makes every later build fail (class defined twice)
        chunks.append([{'t': 'cls', 'kind': classes[0]['kind'], 'attrs': [['z', 'INTEGER']]}])
    elif r < 0.45:
        # ... or a class whose rows come first (positional INSERTs: the class is inferred from the data by every build
        # until then) and whose CREATE TABLE arrives with a later input
        late_rows = [{'t': 'insert', 'kind': 'KL', 'names': None, 'vals': [['i', 7], ['s', 'x']], 'lex': ['7', "'x'"]},
                     {'t': 'insert', 'kind': 'KL', 'names': None, 'vals': [['i', 8], ['s', '']], 'lex': ['8', "''"]}]
        chunks[rng.randrange(len(chunks))].extend(late_rows[:rng.randint(1, 2)])
        chunks.append([{'t': 'cls', 'kind': 'KL', 'attrs': [['l0', 'INTEGER'], ['l1', 'STRING']]}])
        late = True
    elif r < 0.52:
        # ... or a row that cannot be populated (a named INSERT with more values than names): every build from then on
        # is rejected while populating the instances — and must leave the loader's statements as they are
        c0 = classes[0]
        chunks.insert(rng.randint(1, len(chunks)),
                      [{'t': 'insert', 'kind': c0['kind'], 'names': [c0['attrs'][0][0]], 'vals': [['i', 1], ['i', 2]], 'lex': ['1', '2']}])
    elif r < 0.62 and assocs:
        # ... or a build that is rejected and REPAIRED by a later input: the CREATE TABLE of a class that an association
        # names arrives last; every build before that raises (unknown class), the builds after it must succeed
        a0 = rng.choice(assocs)
        kind0 = rng.choice([a0['sk'], a0['tk']])
        moved = [s_ for s_ in chunks[0] if s_['t'] == 'cls' and s_['kind'] == kind0]
        if moved:
            chunks[0] = [s_ for s_ in chunks[0] if not (s_['t'] == 'cls' and s_['kind'] == kind0)]
            chunks.append(moved)
    refs = {}
    for a in assocs:
        refs.setdefault(a['sk'], set()).update(a['skeys'])
    chained = G.has_chain(stmts)
    ops = []
    n = rng.randint(2, maxlen)
    extra = 0
    for _ in range(n):
        metas, read = _simulate(chunks, ops)
        r = rng.random()
        if not metas or r < 0.15:
            ops.append(['build'] if (read > 0 and rng.random() < 0.7) else ['input'])
            continue
        if r < 0.3:
            ops.append(['input'])
            continue
        if r < 0.36:
            ops.append(['reject', rng.randrange(2)])
            continue
        if r < 0.47:
            # some builds name no id generator: the metamodel then makes its own
            ops.append(['build', 'default'] if rng.random() < 0.25 else ['build'])
            continue
        k = rng.randrange(len(metas))
        cnt = metas[k]['cnt']
        dead = metas[k]['dead']
        if late and 'KL' in cnt and rng.random() < 0.3:
            # the attribute list of the class that earlier builds INFER (and later ones find declared) is edited in one
            # metamodel: no other build, earlier or later, may see it
            extra += 1
            m = rng.choice(['append-attr', 'insert-attr', 'delete-attr'])
            if m == 'append-attr':
                mut = [m, 'KL', 'x%d' % extra, rng.choice(G.TYPES)]
            elif m == 'insert-attr':
                mut = [m, 'KL', rng.randint(0, 3), 'x%d' % extra, rng.choice(G.TYPES)]
            else:
                mut = [m, 'KL', rng.choice(['_0', '_1', 'l0', 'l1', 'nope'])]
            ops.append(['mut', k, mut])
            continue
        c = rng.choice(classes)
        kind = c['kind']
        names = [a[0] for a in c['attrs']]
        m = rng.choice(['append-attr', 'insert-attr', 'delete-attr', 'define-unique', 'new', 'new', 'delete', 'set-attr',
                        'set-attr', 'relate', 'relate', 'unrelate', 'new-args', 'new-args', 'clone', 'clone'])
        if m in ('new-args', 'clone') and (chained or metas[k]['edited']):
            m = 'new'
        if m == 'new-args':
            if kind not in cnt:
                m = 'new'
            else:
                vals = []
                for n_, ty in c['attrs']:
                    if n_ in refs.get(kind, ()) and rng.random() < 0.2:
                        vals.append(None)
                    else:
                        vals.append([G.TAG[ty], rng.choice(G.POOL[ty])])
                ops.append(['mut', k, ['new-args', kind, vals]])
                continue
        if m == 'clone':
            # (instances of a metamodel with its own generator may carry random ids: not cloned into another one)
            srcs = [j for j, mj in enumerate(metas) if not mj['edited'] and mj['cnt'].get(kind) and (not mj['default'] or j == k)]
            if not srcs or kind not in cnt:
                m = 'new'
            else:
                j = rng.choice(srcs)
                ids = [i for i in range(metas[j]['cnt'][kind]) if (kind, i) not in metas[j]['dead']]
                if not ids:
                    m = 'new'
                else:
                    ops.append(['clone', k, j, kind, rng.choice(ids)])
                    continue
        if m == 'append-attr':
            extra += 1
            mut = [m, kind, 'x%d' % extra, rng.choice(G.TYPES)]
        elif m == 'insert-attr':
            extra += 1
            mut = [m, kind, rng.randint(0, len(names) + 1), 'x%d' % extra, rng.choice(G.TYPES)]
        elif m == 'delete-attr':
            mut = [m, kind, rng.choice(names + ['x1', 'nope'])]
        elif m == 'define-unique':
            mut = [m, kind, rng.choice(['I1', 'I2', 'I7']), rng.sample(names, rng.randint(0, min(2, len(names))))]
        elif m == 'new':
            mut = [m, kind]
        elif m in ('delete', 'set-attr'):
            if not cnt.get(kind):
                mut = ['new', kind]
            elif m == 'delete':
                mut = [m, kind, rng.randrange(cnt[kind])]
            else:
                free = [a for a in c['attrs'] if a[0] not in refs.get(kind, ())]
                if not free:
                    mut = ['new', kind]
                else:
                    a = rng.choice(free)
                    mut = [m, kind, rng.randrange(cnt[kind]), a[0], [G.TAG[a[1]], rng.choice(G.POOL[a[1]])]]
        else:
            ok = [(i, a) for i, a in enumerate(assocs) if cnt.get(a['sk']) and cnt.get(a['tk'])]
            if not ok:
                mut = ['new', kind]
            else:
                i, a = rng.choice(ok)
                s, t = rng.randrange(cnt[a['sk']]), rng.randrange(cnt[a['tk']])
                if (a['sk'] == a['tk'] and s == t) or (a['sk'], s) in dead or (a['tk'], t) in dead:
                    mut = ['new', kind]
                else:
                    mut = [m, i, s, t]
        ops.append(['mut', k, mut])
    return {'chunks': chunks, 'ops': ops, 'fam': 'random'}


def generate(ctx):
    alphabet = [['input'], ['build'], ['reject', 0]] + [['mut', k, m] for k in (0, 1) for m in FIXED_MUTS] + FIXED_CLONES
    reduced = [['input'], ['build']] + [['mut', k, FIXED_MUTS[i]] for k in (0, 1) for i in REDUCED] + FIXED_CLONES[:2]
    full_len = ctx.pick(4, 5)
    for n in range(1, full_len + 1):
        for h in _valid_histories(alphabet, n):
            if any(o[0] == 'build' for o in h):
                yield {'chunks': FIXED_CHUNKS, 'ops': [list(o) for o in h], 'fam': 'exhaustive'}
    for h in _valid_histories(reduced, full_len + 1):
        if any(o[0] == 'build' for o in h):
            yield {'chunks': FIXED_CHUNKS, 'ops': [list(o) for o in h], 'fam': 'exhaustive-reduced'}
    rng = ctx.rng.fork('random')
    for i in range(ctx.pick(4000, 40000)):
        case = _random_case(rng.fork(i), 12)
        if i % 40 == 0:
            case['discard'] = True       # additionally: twelve build / discard / collect rounds on a loader of its own
        yield case


# ----------------------------------------------------------------------------- observation of one metamodel

class Handle(object):
    """a built metamodel with the creation indices of its instances"""

    def __init__(self, m):
        self.m = m
        self.created = {}          # kind -> [instances in creation order]
        self.cid = {}              # id(inst) -> creation index
        if m is not None:
            for mc in m.metaclasses.values():
                self.created[mc.kind] = list(mc.storage)
                for i, inst in enumerate(mc.storage):
                    self.cid[id(inst)] = i


def _canon_val(v, ty):
    """by the value's own class (an edited attribute list can pair a value with a column of another type)"""
    if v is None:
        return Sym('none')
    if isinstance(v, bool):
        return [Sym('b'), Sym('T') if v else Sym('F')]
    if isinstance(v, int):
        return [Sym('n'), v]
    if isinstance(v, str):
        return [Sym('s'), v]
    if isinstance(v, float):
        from fractions import Fraction
        f = Fraction(v) * 10 ** 6
        if f.denominator == 1:
            return [Sym('r'), f.numerator]
    return [Sym('odd'), repr(v)]


def _unify_ints(x):
    """the model distinguishes INTEGER and UNIQUE_ID values, Python does not"""
    if isinstance(x, list):
        if len(x) == 2 and isinstance(x[0], Sym) and x[0] in ('i', 'u') and isinstance(x[1], int):
            return [Sym('n'), x[1]]
        return [_unify_ints(e) for e in x]
    return x


def dump(h):
    if h.m is None:
        return Sym('failed')
    m = h.m
    classes = []
    for mc in m.metaclasses.values():
        tys = {}
        for n, t in mc.attributes:
            tys.setdefault(n, t)
        rows = [[h.cid.get(id(inst), -1), [[n, _canon_val(v, tys[n])] for n, v in inst.__dict__.items() if n in tys]]
                for inst in mc.storage]
        classes.append([mc.kind, [[n, Sym(G.TYSYM.get(t.upper(), t))] for n, t in mc.attributes],
                        [[n, list(a)] for n, a in mc.indices.items()], rows])
    assocs = []
    for ass in m.associations:
        sc, tc = ass.source_link.to_metaclass, ass.target_link.to_metaclass
        tgt = [[h.cid.get(id(i), -1), [h.cid.get(id(o), -1) for o in ass.target_link.get(i, ())]] for i in sc.storage]
        src = [[h.cid.get(id(i), -1), [h.cid.get(id(o), -1) for o in ass.source_link.get(i, ())]] for i in tc.storage]
        assocs.append([ass.rel_id, list(ass.source_keys), list(ass.target_keys), tgt, src])
    return [classes, assocs, m.id_generator.peek()]


def ser(h):
    if h.m is None:
        return 'failed'
    try:
        return _x.serialize(h.m)
    except Exception as e:          # an attribute added to a class with instances makes serialize raise: still deterministic
        return 'raises:%s' % type(e).__name__


# ----------------------------------------------------------------------------- aliasing probe

def _is_xt(o):
    mod = type(o).__module__ or ''
    return mod.startswith('xtuml') or mod.startswith('bridgepoint')


# the fields the PARSER gives a statement object (recorded right after input(), per statement class); an attribute
# a later build adds to a statement — private bookkeeping such as a memo — is not part of what the property speaks
# about and is neither followed nor compared (counted in the stats as `statement-memo-attributes`)
_STMT_FIELDS = {}
_MEMO_SEEN = set()


def _is_stmt(o):
    return type(o).__module__ == 'xtuml.load' and type(o).__name__.endswith('Stmt')


def _stmt_items(o):
    fields = _STMT_FIELDS.get(type(o).__name__)
    out = []
    for k, v in vars(o).items():
        if k.startswith('_') or (fields is not None and k not in fields):
            _MEMO_SEEN.add((type(o).__name__, k))
            continue
        out.append((k, v))
    return out


def walk(root, role='root'):
    """id -> (object, role) of every mutable object reachable from root; role = how it was reached"""
    import types
    seen = {}
    stack = [(root, role)]
    while stack:
        o, r = stack.pop()
        if isinstance(o, (str, bytes, int, float, bool, type(None), type, types.FunctionType, types.ModuleType,
                          types.MethodType, types.BuiltinFunctionType, property)):
            continue
        if id(o) in seen:
            continue
        mutable = not isinstance(o, (tuple, frozenset))
        if mutable:
            seen[id(o)] = (o, r)
        tn = type(o).__name__
        if isinstance(o, dict):
            for k, v in o.items():
                stack.append((k, r + '.key'))
                stack.append((v, r + '[]'))
            if _is_xt(o) and hasattr(o, '__dict__'):
                for k, v in vars(o).items():
                    stack.append((v, '%s.%s' % (tn, k)))
        elif isinstance(o, (list, tuple, set, frozenset)):
            for v in o:
                stack.append((v, r + '[]'))
        elif tn == 'OrderedSet' or tn == 'QuerySet':
            for v in list(o):
                stack.append((v, r + '[]'))
        elif _is_stmt(o):
            for k, v in _stmt_items(o):
                stack.append((v, '%s.%s' % (tn, k)))
        elif _is_xt(o) and hasattr(o, '__dict__'):
            for k, v in vars(o).items():
                stack.append((v, '%s.%s' % (tn if not isinstance(o, _x.Class) else 'Class', k)))
        elif hasattr(o, '__dict__') and not isinstance(o, type):
            for k, v in vars(o).items():
                stack.append((v, '%s.%s' % (tn, k)))
    return seen


def shallow(o):
    """content signature of one mutable object (identity of what it holds, values of immutables)"""
    def key(v):
        return v if isinstance(v, (str, int, float, bool, type(None))) else ('@', id(v))
    try:
        if isinstance(o, dict):
            s = [(key(k), key(v)) for k, v in o.items()]
            if hasattr(o, '__dict__'):
                s.append(('__dict__', [(k, key(v)) for k, v in vars(o).items()]))
            return s
        if isinstance(o, list):
            return [key(v) for v in o]
        if isinstance(o, set):
            return sorted(repr(key(v)) for v in o)
        if type(o).__name__ in ('OrderedSet', 'QuerySet'):
            return [key(v) for v in list(o)]
        if _is_stmt(o):
            return [(k, key(v)) for k, v in _stmt_items(o)]
        if hasattr(o, '__dict__'):
            return [(k, key(v)) for k, v in vars(o).items()]
    except Exception:
        return 'unreadable'
    return 'opaque'


# what the listed mutators write (roles as `walk` names them); a shared object in one of these roles is a failure
WRITTEN_ROLES = ('MetaClass.attributes', 'MetaClass.indices', 'MetaClass.identifying_attributes', 'MetaClass.storage',
                 'MetaClass.links[]', 'Association.source_link', 'Association.target_link', 'MetaModel.id_generator',
                 'MetaModel.metaclasses', 'MetaModel.associations')


def _written_role(role):
    if role in WRITTEN_ROLES:
        return True
    last = role.rsplit('.', 1)[-1]
    if role.endswith('[]') and ('source_link' in role or 'target_link' in role or 'links[]' in role):
        return True                                  # the OrderedSets inside a Link
    if role.startswith('Class.') or 'storage[]' in role:
        return True                                  # instances and their __dict__
    return last in ('_current',)


# ----------------------------------------------------------------------------- run_impl

def _apply(h, mut, stmts_assocs):
    """apply one mutation through the public API -> result symbol"""
    m = h.m
    kind = mut[0]
    try:
        if kind == 'append-attr':
            m.find_metaclass(mut[1]).append_attribute(mut[2], mut[3])
        elif kind == 'insert-attr':
            m.find_metaclass(mut[1]).insert_attribute(mut[2], mut[3], mut[4])
        elif kind == 'delete-attr':
            m.find_metaclass(mut[1]).delete_attribute(mut[2])
        elif kind == 'define-unique':
            m.define_unique_identifier(mut[1], mut[2], *mut[3])
        elif kind == 'new':
            inst = m.new(mut[1])
            h.created.setdefault(mut[1], []).append(inst)
            h.cid[id(inst)] = len(h.created[mut[1]]) - 1
        elif kind == 'new-args':
            mc = m.find_metaclass(mut[1])
            before = len(mc.storage)
            try:
                m.new(mut[1], *[None if v is None else G.py_value(v) for v in mut[2]])
            finally:
                if len(mc.storage) > before:         # the instance stays even when the batch relate raises
                    inst = mc.storage[-1]
                    h.created.setdefault(mut[1], []).append(inst)
                    h.cid[id(inst)] = len(h.created[mut[1]]) - 1
        elif kind == 'delete':
            m.find_metaclass(mut[1])
            _x.delete(h.created[mut[1]][mut[2]])
        elif kind == 'set-attr':
            m.find_metaclass(mut[1])
            setattr(h.created[mut[1]][mut[2]], mut[3], G.py_value(mut[4]))
        elif kind in ('relate', 'unrelate'):
            if mut[1] >= len(m.associations):
                return Sym('no-assoc')          # nothing to call: the metamodel has no such association
            ass = m.associations[mut[1]]
            sk, tk = ass.source_link.to_metaclass.kind, ass.target_link.to_metaclass.kind
            s, t = h.created[sk][mut[2]], h.created[tk][mut[3]]
            fn = _x.relate if kind == 'relate' else _x.unrelate
            fn(s, t, ass.rel_id, ass.target_link.phrase)
        else:
            raise ValueError(kind)
        return Sym('ok')
    except _x.DeleteException:
        return Sym('DeleteException')
    except _x.RelateException:
        return Sym('RelateException')
    except _x.UnrelateException:
        return Sym('UnrelateException')
    except _x.UnknownClassException:
        return Sym('UnknownClassException')
    except _x.UnknownLinkException:
        return Sym('UnknownLinkException')
    except (AttributeError, RecursionError):
        # RelateException / UnrelateException format both instances with str(); after append_attribute an older
        # instance lacks the new attribute and Class.__str__ raises AttributeError (or recurses through a cyclic chain
        # of referential attributes) while the exception is being constructed.  The links are as the intended exception leaves them; not a matter of this property.
        if kind == 'relate':
            return Sym('RelateException')
        if kind == 'unrelate':
            return Sym('UnrelateException')
        raise
    except (IndexError, KeyError) as e:
        if kind in ('delete', 'set-attr', 'relate', 'unrelate') and isinstance(e, (IndexError, KeyError)):
            return Sym('no-such-instance')
        raise


def _clone(h, src, kind, idx):
    """h.m.clone(instance (kind, idx) of src.m) -> result symbol"""
    if kind.upper() not in src.m.metaclasses or idx >= len(src.created.get(kind, ())):
        return Sym('unmodelled')            # there is no such instance to clone
    inst = src.created[kind][idx]
    try:
        mc = h.m.find_metaclass(kind)
    except _x.UnknownClassException:
        return Sym('UnknownClassException')
    before = len(mc.storage)
    try:
        h.m.clone(inst)
        return Sym('ok')
    except _x.RelateException:
        return Sym('RelateException')
    except _x.UnknownLinkException:
        return Sym('UnknownLinkException')
    finally:
        if len(mc.storage) > before:
            new = mc.storage[-1]
            h.created.setdefault(kind, []).append(new)
            h.cid[id(new)] = len(h.created[kind]) - 1


def _snapshot(roots):
    snap = {}
    for name, root in roots:
        for i, (o, role) in walk(root, name).items():
            if i not in snap:
                snap[i] = (o, role, shallow(o), name)
    return snap


def run_impl(case):
    chunks = case['chunks']
    fails = []

    def fail(sig, what):
        if len(fails) < 3:
            fails.append({'sig': sig, 'what': what + '\nhistory: %s\nchunks:\n%s' % (
                dumps([_enc_op(o, case) for o in case['ops']]), '\n--\n'.join(G.text_of(c) for c in chunks))})

    loader = _x.ModelLoader()
    accepted = []
    handles = []
    defaults = set()       # metamodels built without naming a generator (random ids: masked in the observation)
    obs = []
    changed_some = False
    stats = {'fam_' + case['fam']: 1, 'ops': len(case['ops'])}
    _STMT_FIELDS.clear()
    _MEMO_SEEN.clear()
    for step, op in enumerate(case['ops']):
        before = [(dump(h), ser(h)) for h in handles]
        target = None
        res = Sym('ok')
        opname = 'op_' + (op[2][0] if op[0] == 'mut' else op[0])
        stats[opname] = stats.get(opname, 0) + 1
        # objects every NON-targeted party can reach, before the step
        if op[0] in ('mut', 'clone') and op[1] < len(handles) and handles[op[1]].m is not None:
            target = op[1]
        roots = [('loader.statements', loader.statements)] + \
                [('meta%d' % j, h.m) for j, h in enumerate(handles) if j != target and h.m is not None]
        snap = _snapshot(roots)
        if op[0] == 'input':
            text = G.text_of(chunks[len(accepted)]) if len(accepted) < len(chunks) else ''
            loader.input(text)
            accepted.append(text)
            for st in loader.statements:
                _STMT_FIELDS.setdefault(type(st).__name__, set(vars(st)))
        elif op[0] == 'reject':
            # an input call that is refused: a valid prefix (the text of the chunk that would be read next — or of the
            # last one — so that a leaked prefix shows in every later build), then a syntax error / an illegal character
            prefix = G.text_of(chunks[min(len(accepted), len(chunks) - 1)])
            bad = prefix + ("INSERT INTO KZ VALUES (1) oops;\n" if op[1] == 0 else "INSERT INTO KZ VALUES (1, $);\n")
            try:
                loader.input(bad)
                fail('rejected-input-accepted', 'step %d: input of a text with a syntax error raised nothing' % step)
                res = Sym('accepted')
            except _x.ParsingException:
                pass
        elif op[0] == 'build':
            default_gen = len(op) > 1          # ['build', 'default']: no generator named, the metamodel makes its own
            try:
                m = loader.build_metamodel() if default_gen else loader.build_metamodel(_x.IntegerGenerator())
            except _DOC:
                m = None
                res = Sym('error')
            h = Handle(m)
            # an object handed out twice is not a new metamodel
            for j, other in enumerate(handles):
                if m is not None and other.m is m:
                    fail('build-returns-same-object', 'build number %d returned the very object of build number %d' % (len(handles), j))
            handles.append(h)
            if default_gen:
                defaults.add(len(handles) - 1)
            # the id generators of two builds are distinct objects (the caller passed none twice)
            for j, other in enumerate(handles[:-1]):
                if m is not None and other.m is not None and other.m.id_generator is m.id_generator:
                    fail('shared-id-generator', 'build number %d hands out ids from the generator object of build number %d: '
                         'creating instances in one metamodel shifts the ids of the other' % (len(handles) - 1, j))
            # D: equals what a fresh loader builds from the chunks accepted so far
            fl = _x.ModelLoader()
            for t in accepted:
                fl.input(t)
            try:
                fm = fl.build_metamodel() if default_gen else fl.build_metamodel(_x.IntegerGenerator())
            except _DOC:
                fm = None
            fh = Handle(fm)
            # (a metamodel that made its own generator draws random ids: the next id is not compared)
            if (dump(fh)[:2] != dump(h)[:2] if default_gen and m is not None and fm is not None else dump(fh) != dump(h)) \
                    or ser(fh) != ser(h):
                fail('later-build-differs', 'build number %d differs from the build of a fresh loader fed the same %d input(s): %s vs %s'
                     % (len(handles) - 1, len(accepted), dumps(dump(h))[:600], dumps(dump(fh))[:600]))
            _probe_sharing(loader, handles, fail, stats)
            if m is not None:
                _check_build_from_input(m, [s_ for ch in chunks[:len(accepted)] for s_ in ch], fail,
                                        'build number %d' % (len(handles) - 1))
        elif op[0] == 'clone':
            if target is None:
                res = Sym('no-target')
            elif op[2] >= len(handles) or handles[op[2]].m is None:
                res = Sym('no-source')
            else:
                res = _clone(handles[target], handles[op[2]], op[3], op[4])
        else:
            if target is None:
                res = Sym('no-target')
            else:
                res = _apply(handles[target], op[2], None)
        after = [(dump(h), ser(h)) for h in handles]
        for j, (b, a) in enumerate(zip(before, after)):
            if j == target:
                if b != a:
                    changed_some = True
                continue
            if b[0] != a[0]:
                fail('metamodel-changed', 'step %d (%s) changed metamodel number %d, which it did not target: %s -> %s'
                     % (step, dumps(_enc_op(op, case)), j, dumps(b[0])[:700], dumps(a[0])[:700]))
            elif b[1] != a[1]:
                fail('serialize-changed', 'step %d (%s) changed the serialized text of metamodel number %d, which it did not target'
                     % (step, dumps(_enc_op(op, case)), j))
        # no object reachable by the others may have been written (input may only append to loader.statements)
        for i, (o, role, sig, root) in snap.items():
            now = shallow(o)
            if now != sig:
                if op[0] == 'input' and o is loader.statements and isinstance(sig, list) and now[:len(sig)] == sig:
                    continue
                if op[0] == 'build' and o is loader.statements:
                    fail('build-edits-statements', 'step %d: build_metamodel (result %s) changed the loader\'s list of accepted '
                         'statements (%d -> %d): later builds differ from a fresh loader fed the same input'
                         % (step, res, len(sig) if isinstance(sig, list) else -1, len(now) if isinstance(now, list) else -1))
                    break
                if op[0] == 'reject' and o is loader.statements:
                    fail('rejected-input-kept', 'step %d: the input call raised ParsingException, but %d statement(s) of its text '
                         'stayed in the loader (the metamodels built later contain input that was never accepted)'
                         % (step, len(now) - len(sig) if isinstance(sig, list) else -1))
                    break
                fail('shared-write:%s' % role.split('[')[0][:40],
                     'step %d (%s) wrote an object (%s, reached as %s from %s) that the step\'s target does not own'
                     % (step, dumps(_enc_op(op, case)), type(o).__name__, role, root))
                break
        obs.append([res] + [Sym('own-generator') if j in defaults else _digest(a[0]) for j, a in enumerate(after)])
    if _MEMO_SEEN:
        stats['statement-memo-attributes'] = len(_MEMO_SEEN)
    if case.get('discard'):
        _discard_rounds(chunks, fail, stats)
        _retyped_build(fail, stats)
    nontrivial = len([h for h in handles if h.m is not None]) >= 2 and changed_some
    return {'obs': obs, 'd_fail': fails, 'nontrivial': nontrivial,
            'key': dumps([_enc_op(o, case) for o in case['ops']]) + '|' + str(hash(repr(chunks))),
            'stats': stats}


def _discard_rounds(chunks, fail, stats):
    """a loader whose results are DISCARDED: build, compare with the accepted input, drop every reference, collect the
    garbage, build again — twelve rounds, with further input in between (nothing a build leaves behind in the loader may
    stand for a metamodel that no longer exists: a later metamodel can live at the same address)"""
    loader = _x.ModelLoader()
    accepted = []
    nxt = 0
    for rnd in range(12):
        if nxt < len(chunks) and rnd % 3 == 0:
            loader.input(G.text_of(chunks[nxt]))
            accepted.extend(chunks[nxt])
            nxt += 1
        try:
            m = loader.build_metamodel(_x.IntegerGenerator())
        except _DOC:
            m = None
        if m is not None:
            before = len(accepted)
            _check_build_from_input(m, accepted, fail, 'round %d of a loader whose earlier metamodels were discarded' % rnd)
            if any(s_['t'] == 'cls' for s_ in accepted) and not len(m.metaclasses):
                fail('build-empty', 'round %d: build_metamodel returned a metamodel without classes although %d statements were '
                     'accepted (the earlier metamodels had been discarded and collected)' % (rnd, before))
        m = None
        gc.collect()
    stats['discard_rounds'] = 1


def _retyped_build(fail, stats):
    """rows read and BUILT before their CREATE TABLE (the class is inferred from the lexemes: INTEGER, INTEGER, STRING),
    then the CREATE TABLE declares other types for the same lexemes; the build after it holds the values as the DECLARED
    types read them (whatever a loader remembered of the first build must not show) — expectation from the text alone"""
    loader = _x.ModelLoader()
    loader.input("INSERT INTO KR VALUES (1, 7, 'x');\nINSERT INTO KR VALUES (0, 2, '');\n")
    want1 = [(1, 7, 'x'), (0, 2, '')]
    want2 = [(True, 7.0, 'x'), (False, 2.0, '')]
    for rnd, (text, names, want) in enumerate([('', ['_0', '_1', '_2'], want1),
                                                ('CREATE TABLE KR (r0 BOOLEAN, r1 REAL, r2 STRING);\n', ['r0', 'r1', 'r2'], want2),
                                                ('', ['r0', 'r1', 'r2'], want2)]):
        if text:
            loader.input(text)
        try:
            m = loader.build_metamodel(_x.IntegerGenerator())
        except _DOC as e:
            fail('retyped-build-raises', 'build %d of the retyped scenario raised %s: %s' % (rnd, type(e).__name__, e))
            return
        got = [tuple(inst.__dict__.get(n) for n in names) for inst in m.find_metaclass('KR').storage]
        if got != want or [tuple(type(x) for x in r) for r in got] != [tuple(type(x) for x in r) for r in want]:
            fail('build-row-differs', 'build %d (CREATE TABLE KR (r0 BOOLEAN, r1 REAL, r2 STRING) %s) holds the KR rows %r, the '
                 'accepted input says %r' % (rnd, 'accepted' if rnd else 'not yet accepted', got, want))
            return
    stats['retyped_build'] = 1


def _check_build_from_input(m, stmts, fail, which):
    """D, independent of any loader: a built metamodel holds, per class, one instance per INSERT accepted so far, in
    INSERT order, each with the values as written (every attribute that is not referential; None when left out), and
    links exactly the key-matching pairs — computed from the generated statements alone"""
    raw = {}
    by_kind = {}
    for i, s_ in enumerate(stmts):
        if s_['t'] == 'insert':
            raw[i] = G.raw_row(stmts, s_)
            by_kind.setdefault(s_['kind'], []).append(i)
    for kind, ids in by_kind.items():
        try:
            mc = m.find_metaclass(kind)
        except _DOC:
            fail('build-misses-class', '%s has no class %s although %d INSERT(s) were accepted' % (which, kind, len(ids)))
            return
        if len(mc.storage) != len(ids):
            fail('build-instance-count', '%s holds %d instances of %s, %d INSERT(s) were accepted' % (which, len(mc.storage), kind, len(ids)))
            return
        refs = G.referential_of(stmts, kind)
        for inst, i in zip(mc.storage, ids):
            for n, tv in raw[i].items():
                if n in refs:
                    continue
                want = None if tv is None else G.py_value(tv)
                got = inst.__dict__.get(n)
                if got != want or type(got) is not type(want):
                    fail('build-row-differs', '%s: instance of %s created by `%s` holds %s = %r, the statement says %r'
                         % (which, kind, G.stmt_text(stmts[i]), n, got, want))
                    return
    assocs = [a for a in stmts if a['t'] == 'assoc']
    if len(m.associations) != len(assocs):
        fail('build-association-count', '%s holds %d associations, %d were accepted' % (which, len(m.associations), len(assocs)))
        return
    for ass, a in zip(m.associations, assocs):
        S, T = by_kind.get(a['sk'], []), by_kind.get(a['tk'], [])
        sc, tc = ass.source_link.to_metaclass, ass.target_link.to_metaclass
        tpos = dict((id(o), T[j]) for j, o in enumerate(tc.storage)) if len(tc.storage) == len(T) else {}
        for inst, i in zip(sc.storage, S):
            got = set(tpos.get(id(o)) for o in ass.target_link.get(inst, ()))
            want = set(j for j in T if G.key_match(a, raw[i], raw[j]))
            if got != want:
                fail('build-links-differ', '%s: `%s` is linked over %s to the INSERTs %s, the key predicate gives %s'
                     % (which, G.stmt_text(stmts[i]), a['rel'], sorted(got, key=str), sorted(want)))
                return


def _probe_sharing(loader, handles, fail, stats):
    """objects reachable from two parties: only objects that no listed mutator writes may be shared"""
    live = [(j, h) for j, h in enumerate(handles) if h.m is not None]
    if not live:
        return
    j, h = live[-1]
    mine = walk(h.m, 'MetaModel')
    others = [('loader.statements', walk(loader.statements, 'loader.statements'))] + \
             [('metamodel %d' % k, walk(o.m, 'MetaModel')) for k, o in live[:-1]]
    for name, g in others:
        for i in set(mine) & set(g):
            o, role = mine[i]
            stats['shared_' + role.split('[')[0][-30:]] = 1
            if _written_role(role) or _written_role(g[i][1]):
                fail('shared-mutable:%s' % role.split('[')[0][:40],
                     'metamodel %d shares the mutable %s it holds as %s with %s (held there as %s); a listed mutator writes it'
                     % (j, type(o).__name__, role, name, g[i][1]))
                return


# ----------------------------------------------------------------------------- model side

def _enc_mut(mut):
    k = mut[0]
    if k == 'append-attr':
        return [Sym(k), mut[1], mut[2], Sym(G.TYSYM[mut[3]])]
    if k == 'insert-attr':
        return [Sym(k), mut[1], mut[2], mut[3], Sym(G.TYSYM[mut[4]])]
    if k == 'delete-attr':
        return [Sym(k), mut[1], mut[2]]
    if k == 'define-unique':
        return [Sym(k), mut[1], mut[2], list(mut[3])]
    if k == 'new':
        return [Sym(k), mut[1]]
    if k == 'new-args':
        return [Sym(k), mut[1], [G.enc_val(v) for v in mut[2]]]
    if k == 'delete':
        return [Sym(k), mut[1], mut[2]]
    if k == 'set-attr':
        return [Sym(k), mut[1], mut[2], mut[3], G.enc_val(mut[4])]
    return [Sym(k), mut[1], mut[2], mut[3]]


def _enc_op(op, case):
    if op[0] == 'mut':
        return [Sym('mut'), op[1], _enc_mut(op[2])]
    if op[0] == 'clone':
        return [Sym('clone'), op[1], op[2], op[3], op[4]]
    if op[0] == 'reject':
        return [Sym('rejected')]
    return [Sym(op[0])]


def model_line(case):
    out = [Sym('c18')]
    n = 0
    for op in case['ops']:
        if op[0] == 'input':
            ch = case['chunks'][n] if n < len(case['chunks']) else []
            n += 1
            out.append([Sym('input')] + [G.enc_stmt(s) for s in ch])
        elif op[0] == 'build':
            out.append([Sym('build')])
        else:
            out.append(_enc_op(op, case))
    return dumps(out)


def model_obs(case, ans):
    builds = [op for op in case['ops'] if op[0] == 'build']
    defaults = set(j for j, op in enumerate(builds) if len(op) > 1)
    return [[st[0]] + [Sym('own-generator') if j in defaults else _digest(_unify_ints(d)) for j, d in enumerate(st[1:])]
            for st in ans]


def shrink_candidates(case):
    ops = case['ops']
    for i in range(len(ops)):
        if ops[i][0] == 'build':
            # removing a build renumbers the later metamodels
            k = sum(1 for o in ops[:i] if o[0] == 'build')
            new = []
            ok = True
            for o in ops[:i] + ops[i + 1:]:
                if o[0] == 'mut':
                    if o[1] == k:
                        ok = False
                        break
                    new.append(['mut', o[1] - (1 if o[1] > k else 0), o[2]])
                elif o[0] == 'clone':
                    if k in (o[1], o[2]):
                        ok = False
                        break
                    new.append(['clone', o[1] - (1 if o[1] > k else 0), o[2] - (1 if o[2] > k else 0), o[3], o[4]])
                else:
                    new.append(o)
            if ok:
                yield dict(case, ops=new)
        elif ops[i][0] in ('mut', 'clone', 'reject'):
            yield dict(case, ops=ops[:i] + ops[i + 1:])
