"""C15 - Callable model elements behave as their OAL bodies specify.

A case = a generated BridgePoint model (classes A and B with attributes, derived attributes, class- and instance-based
operations; functions; an external entity with bridges; enumerations; constants) whose OAL bodies form a call graph of
depth <= 5 (self and mutual recursion bounded by a counter parameter), written as ooaofooa INSERT rows in a PERMUTED
order, loaded with `bridgepoint.ooaofooa.Loader`, turned into a domain with `mk_component`, plus a population created
through the domain, plus a sequence of invocations made from Python: functions through `Domain.find_symbol`, bridges
through the external entity, operations through the class / the instance, derived attributes as instance attributes,
enumerators and constants through `find_symbol`.

  reference   `Spec` (lean/PyxModel/Interp) extended with the callable table: invocation = the callee's body in a FRESH
              environment, parameters bound by name, self = receiver, result = the return register; enumerators numbered
              by the model of mk_enum on the rows in their row order, constants converted by the model of mk_constant.
              As in C04 `Spec` decides the domain (type-correct, error-free, terminating).
  D = K       every value delivered to Python and the final population equal `Spec`'s.  Every caller folds ALL its
              variables into its result after its calls (the generator's epilogue), and all bodies draw their variable
              names from the same small pool, so a callee that disturbs its caller's variables changes the result.
"""
import gen_bp_model as B
import io
import sys

import gen_oal_prog as G
import oal_sexp
import prop_C04 as P4
from sexp import Sym, dumps, loads

PROP = 'C15'
RULE = ('random call graphs: 1-5 levels, 1-2 callables per level drawn from functions, bridges, class-based and '
        'instance-based operations (integer / string / boolean / no result; integer, string, boolean parameters), '
        'derived attributes of two classes, self-recursive and mutually recursive callables bounded by a counter '
        'parameter; bodies by the C04 statement generator (calls inside expressions, call statements, where clauses, '
        'loop and if conditions; return <expr>, bare return, fall-through, control stop); enumerations and constants; '
        'model rows in permuted order; 3-7 invocations from Python per case on a random population; cases on which the '
        'reference semantics reports an error / runs out of fuel are dropped and counted; non-trivial = at least one '
        'nested call was executed and a value other than none was delivered; distinct = distinct model text + entries; '
        'families with a signature of their own: every 50th case (i % 50 == 7) a local variable named like the function / '
        'external entity it invokes, every 50th case (i % 50 == 23) two model elements of different kinds that share a name '
        '(function / constant, / enumeration, / external entity, / class; enumeration / external entity; constant / '
        'external entity) with a caller that uses both - ordinary cases, no signature of their own; instance operations and derived attributes use the NAME self (any letter case) in '
        'relate / unrelate / delete; every case repeats one or two invocations after a change of the population made '
        'from Python; every 4th case interprets ANOTHER model (same loader, same process) in the middle of its invocations; '
        'every 10th case invokes a function that fails half way between the others and repeats them after it; every 50th '
        'case (i % 50 == 37) names a constant / enumeration like a function in another letter case (must work); '
        'parameters whose names differ in letter case only; parameters named like the interpreter\'s own arguments (label, '
        'action, domain, inst, metaclass, kwargs ...); every 2nd case adds callables of different kinds / external '
        'entities / classes that share ONE name and have different bodies (function, EE1::, EE2::, A::, B::), invoked in '
        'shuffled order, each twice, and from one OAL caller; every other case adds a callable with a NON-VOID return type '
        'whose executed path has no value return (falls off / bare return / no return statement), invoked with both '
        'parameter values: it has to deliver nothing (None); every 5th case adds a derived attribute whose body FAILS while '
        'its instance is unrelated (division by the number of related instances / attribute of an empty handle): read in '
        'the failing population (outcome not compared, the reference is not asked), repaired from Python (relate), read '
        'again (= a fresh evaluation), broken, read, repaired, read; every 5th case writes to a derived attribute (from Python '
        'and in the body of another callable) and reads it again from Python, in an expression and in a where clause: '
        'it stays derived; string constants contain apostrophes (single, doubled, leading, trailing, only apostrophes); '
        'names that coincide across name spaces: in 40 % of the models with an enumeration some constants are called like '
        'enumerators and some enumerators like a constant / an enumeration / a class / the external entity / a function / a '
        'parameter / an attribute / a local variable (the bodies read both as the statement generator places them); every 5th '
        'case (i % 5 == 2) adds an enumeration of such enumerators (and the constants of those names, integer / string / '
        'boolean) read as E::name in one or two callables of different kinds - in an expression, a where clause, a loop '
        'condition, an if condition - next to the bare constants, the parameter, the local and the function of those names, '
        'in a derived attribute and from Python; in 30 % of the cases the key letters of the external entities are names '
        'that mean something to Python / the implementation\'s modules (time, sys, os, str, __name__ ..) or other spellings of '
        'the built-in entities (Log, tim ..); every 5th case (i % 5 == 0) adds an instance-based and a class-based operation '
        'named like ATTRIBUTES of their class, invoked as self.n(..) from an operation and a derived attribute, through selected '
        '/ loop handles, in a where clause, a loop condition, as a statement and in the transform form, next to reads of the '
        'attribute, before and after the attribute is written; from Python through the class with the instance as the receiver')
EXHAUSTIVE = {'quick': False, 'thorough': False}
ASSUMPTIONS = ['bodies are type-correct, terminating and error-free under the reference semantics (decided by Spec)',
               'callables do not delete instances; callables used in where clauses and derived attributes do not change the population',
               'one simple association B many - A one in the generated models (reflexive / association-class navigation is covered by C04); reals are not generated',
               'enumerator and constant names are not Python keywords; constants are canonical numerals / true|false / plain strings']
TRUSTED_EXTRA = ['the reference semantics gets every body as the generator built it; the tree bridgepoint.oal.parse produces for the rendered text is compared with it on every case',
                 'the population is created through Domain.new after mk_component with an IntegerGenerator installed as domain.id_generator']
CHUNK = 300
CASE_TIMEOUT_S = 20
BUDGET_S = {'quick': 200, 'thorough': 2400}
SEARCH_S = {'quick': 60, 'thorough': 300}
FUEL = 300

SCHEMA = {
    'classes': {'A': [('ID', 'unique_id', False), ('n', 'integer', False), ('s', 'string', False), ('b', 'boolean', False)],
                'B': [('ID', 'unique_id', False), ('A_ID', 'unique_id', True), ('n', 'integer', False), ('s', 'string', False)]},
    'order': ['A', 'B'],
    # R1: B (many, conditional) ---- A (one, conditional), formalised by B.A_ID -> A.ID.  Bodies navigate it; links are
    # made and broken by the harness between invocations (`assoc` False: no relate statements inside the bodies)
    'edges': [('A', 'B', 'R1', '', True), ('B', 'A', 'R1', '', False)], 'assoc': False,
    'rels': [('R1', 'B', 'A')],
}
ASSOC = ('R1', 'B', 'A_ID', 'A', 'ID')
ENUMERATORS = ['red', 'green', 'blue', 'cyan', 'black']
PY_NAMES = ['label', 'action', 'domain', 'inst', 'metaclass', 'metamodel', 'm', 'args', 'kwargs', 'name', 'node', 'instance',
            'attribute_name', 'w', 'root', 'value', 'fn', 'key']
_CTX = None
_xtuml = None
_ooaofooa = None
_oal = None
_LOADER = None
_LOADER_N0 = 0


def setup(ctx):
    global _CTX, _xtuml, _ooaofooa, _oal, _LOADER, _LOADER_N0
    import xtuml
    from bridgepoint import ooaofooa, oal, interpret
    _CTX, _xtuml, _ooaofooa, _oal = ctx, xtuml, ooaofooa, oal
    P4._xtuml = xtuml
    P4._oal = oal
    _LOADER = ooaofooa.Loader(load_globals=True)
    _LOADER_N0 = len(_LOADER.statements)
    install_call_counter(interpret)


_CALLS = None


def install_call_counter(interpret):
    """observation only: how many walkers (= invocations) a case creates, and how deep they nest"""
    if getattr(interpret.ActionWalker, '_pyxverif_counted', False):
        return
    orig = interpret.ActionWalker.accept_BodyNode

    def accept_BodyNode(self, node):
        c = _CALLS
        if c is None:
            return orig(self, node)
        c['n'] += 1
        c['depth'] += 1
        c['max'] = max(c['max'], c['depth'])
        c['kinds'][type(self).__name__] = c['kinds'].get(type(self).__name__, 0) + 1
        try:
            return orig(self, node)
        finally:
            c['depth'] -= 1

    interpret.ActionWalker.accept_BodyNode = accept_BodyNode
    interpret.ActionWalker._pyxverif_counted = True


# ----------------------------------------------------------------------------------------------- model generation

def _sig(kind, name, ns, params, ret, pure):
    return {'kind': kind, 'name': name, 'ns': ns, 'params': params, 'ret': ret, 'pure': pure}


COST_LIMIT = 120


def _calls_in(e):
    """callee names in an expression; an attribute read counts as the derived attribute of that name (if any)"""
    if isinstance(e, list) and e:
        if e[0] in ('callf', 'calln', 'callo'):
            yield e[1] if e[0] == 'callf' else e[2]
        elif e[0] == 'attr' and isinstance(e[2], str):
            yield e[2]
        for x in e[1:]:
            if isinstance(x, list):
                yield from _calls_in(x)


def body_cost(stmts, cost_of, mult=1):
    """an upper estimate of the number of walkers one run of the body creates"""
    total = 0
    for st in stmts:
        k = st[0]
        if k == 'if':
            total += mult * sum(cost_of(n) for n in _calls_in(st[1]))
            total += body_cost(st[2], cost_of, mult)
            for c, b in st[3]:
                total += mult * sum(cost_of(n) for n in _calls_in(c)) + body_cost(b, cost_of, mult)
            if st[4] is not None:
                total += body_cost(st[4], cost_of, mult)
        elif k == 'while':
            bound = 4
            c = st[1]
            if c[0] == 'bin' and c[1] == 'and':
                c = c[2]
            if c[0] == 'bin' and c[1] == '<' and c[3][0] == 'int':
                bound = c[3][1]
            total += mult * (bound + 1) * sum(cost_of(n) for n in _calls_in(st[1]))
            total += body_cost(st[2], cost_of, mult * bound)
        elif k == 'foreach':
            total += body_cost(st[3], cost_of, mult * 4)
        elif k in ('select_from', 'select_rel'):
            total += mult * 4 * sum(cost_of(n) for n in _calls_in(st[-1]))
        else:
            total += mult * sum(cost_of(n) for x in st[1:] if isinstance(x, list) for n in _calls_in(x))
    return total


TWIN_POOL = ['A', 'B', 'EE1', 'R1', 'fn1', 'fn2', 'x', 'y', 't', 'cnt', 'n', 's', 'ID', 'v1', 'k', 'K1', 'K2']


def twin_names(rng, enums, consts):
    """'two of a kind' across name spaces.  An enumerator is a name INSIDE its enumeration: `E::name` is the position of
    `name` in E whatever else the model or the body knows under that name.  In 40 % of the models that have an enumeration
    some constants are called like enumerators (of any enumeration) and some enumerators like something else: a constant,
    an enumeration (their own, another one), a class, the external entity, the association, a function, a parameter, an
    attribute, a local variable.  Nothing else changes: the bare name stays the constant / the variable, `::name()` the
    function, the Python-side tuple of the enumeration has the modeled fields."""
    r = rng
    if not enums or r.random() >= 0.4:
        return enums, consts
    enums = [(en, list(names)) for en, names in enums]
    consts = list(consts)
    taken = set(n for n, _, _ in consts)
    for k, (cn, ty, text) in enumerate(consts):
        if r.random() < 0.6:
            nm = r.choice(r.choice(enums)[1])
            if nm not in taken:
                taken.add(nm)
                consts[k] = (nm, ty, text)
    pool = TWIN_POOL + [en for en, _ in enums]
    for en, names in enums:
        for k in range(len(names)):
            if r.random() < 0.25:
                nm = r.choice(pool)
                if nm not in names:
                    names[k] = nm
    return enums, consts


EE_KEY_LETTERS = ['time', 'sys', 'datetime', 'os', 'logging', 'xtuml', 'interpret', 'ooaofooa', 'functools', 'collections', 'uuid',
                  'math', 're', 'log', 'Log', 'tim', 'Tim', 'Arch', 'nvs', 'Persist', 'str', 'int', 'object', 'print', 'one', 'many',
                  'partial', 'logger', '__name__', '__doc__', '__file__', '__builtins__', 'Ee1', 'ee']


def ee_key_letters(rng):
    """the key letters of the model's external entities are the MODEL's names: in 30 % of the cases they are not EE1 / EE2
    but names that mean something else to Python or to the implementation's modules (standard modules, built-ins, module
    attributes, helpers the implementation imports) or other spellings of the five built-in entities LOG / ARCH / TIM /
    NVS / PERSIST (only exactly those five are realised in Python; `Log`, `tim` .. are modelled entities like any other):
    their bridges run their modelled bodies"""
    r = rng
    if r.random() >= 0.3:
        return 'EE1', 'EE2'
    a, b = r.sample(EE_KEY_LETTERS, 2)
    return a, (b if r.random() < 0.5 else 'EE2')


def gen_model(rng, max_levels, body_stmts, ee='EE1'):
    """-> (spec for gen_bp_model, list of callable descriptions with their bodies, enums, consts)"""
    r = rng
    enums = []
    for k in range(r.choice([0, 1, 1, 2])):
        names = list(ENUMERATORS)
        r.shuffle(names)
        enums.append(('E%d' % (k + 1), names[:r.randint(2, 5)]))
    consts = []
    for k in range(r.choice([0, 1, 2, 3])):
        ty = r.choice(['integer', 'integer', 'string', 'boolean'])
        if ty == 'integer':
            text = r.choice(['0', '7', '42', '-3', '100'])
        elif ty == 'string':
            text = r.choice(['abc', '', 'x y', "it's", "it''s", "''", "'", "'lead", "trail'", "R1.''owns''", "''''"])
        else:
            text = r.choice(['true', 'false', 'TRUE', 'False'])
        consts.append(('K%d' % (k + 1), ty, text))
    if hasattr(r, 'fork'):
        # a stream of its own: the models keep their shape, only names coincide
        enums, consts = twin_names(r.fork('twin-names'), enums, consts)
    gen_consts = [(n, t) for n, t, _ in consts]
    callables = []         # dicts: sig + 'body' (tree) + 'text' + 'level'
    derived = []           # (cls, attr, ty) in definition order
    levels = r.randint(1, max_levels)
    counter = [0]

    def new_name(stem):
        counter[0] += 1
        return '%s%d' % (stem, counter[0])

    def make_body(sig, calls, rec, self_cls, pure, attr=None, chain=None, nav=False):
        g = G.ProgGen(r.fork('body', sig['name']) if hasattr(r, 'fork') else r, max_stmts=r.randint(2, body_stmts),
                      max_depth=r.choice([1, 1, 2]), params=sig['params'], calls=calls, self_cls=self_cls,
                      derived=[d for d in derived if attr is None or d[1] != attr],
                      allow_delete=False, allow_mutation=not pure, enums=enums, consts=gen_consts, schema=SCHEMA,
                      ret_ty=sig['ret'], rec_call=rec, derived_attr=attr, create_in_loops=False,
                      max_call_sites=r.choice([1, 2, 2, 3]), derived_chain=chain, derived_nav=nav)
        prog = G.keyword_calls(g.gen_program(), r.fork('kw', sig['name']) if hasattr(r, 'fork') else r, lambda ns: ns == ee or ns.startswith('EE'))
        return prog, G.render(prog, g.uppercase)

    costs = {}

    def cost_of(name):
        return costs.get(name, 0)

    for level in range(levels):
        lower = list(callables)
        n_here = r.choice([1, 1, 2])
        new = []
        mutual = n_here == 2 and level > 0 and r.random() < 0.35
        for j in range(n_here):
            kind = r.choice(['function', 'function', 'bridge', 'classop', 'instop', 'instop', 'derived'])
            if mutual:
                kind = r.choice(['function', 'bridge', 'classop'])
            pure = r.random() < 0.4 or kind == 'derived'
            ret = r.choice(['integer', 'integer', 'integer', 'string', 'boolean', None])
            if kind == 'derived':
                ret = r.choice(['integer', 'integer', 'string', 'boolean'])
            if pure and ret is None:
                ret = 'integer'
            params = []
            if kind != 'derived':
                for pn in ('x', 'y', 't'):
                    if r.random() < 0.45:
                        params.append((pn, {'x': 'integer', 'y': r.choice(['integer', 'string']), 't': 'boolean'}[pn]))
            if params and r.random() < 0.15:
                # two parameters whose names differ in letter case only are two parameters
                pn, pt = r.choice(params)
                params.append((pn.upper(), r.choice(['integer', pt])))
            if kind != 'derived' and r.random() < 0.3:
                # a parameter named like an argument / local of the interpreter's own functions: parameters are the
                # MODEL's names, whatever the implementation calls its own
                pn = r.choice(PY_NAMES)
                if pn not in [n for n, _ in params]:
                    params.append((pn, r.choice(['integer', 'integer', 'string', 'boolean'])))
            recursive = kind != 'derived' and (mutual or r.random() < 0.25)
            if recursive:
                params.append(('cnt', 'integer'))
            if kind != 'derived' and consts and r.random() < 0.2:
                # a parameter named like a constant: the bare name still denotes the constant, `param.<name>` the argument
                cn, ct, _ = r.choice(consts)
                params.append((cn, ct))
            cls = r.choice(['A', 'B'])
            if kind == 'function':
                sig = _sig('function', new_name('fn'), None, params, ret, pure)
            elif kind == 'bridge':
                sig = _sig('bridge', new_name('br'), ee, params, ret, pure)
            elif kind == 'classop':
                sig = _sig('classop', new_name('cop'), cls, params, ret, pure)
            elif kind == 'instop':
                sig = _sig('instop', new_name('iop'), cls, params, ret, pure)
            else:
                sig = _sig('derived', new_name('dv'), cls, [], ret, True)
            sig['recursive'] = recursive
            sig['level'] = level
            new.append(sig)
        helpers = []
        for j, sig in enumerate(new):
            avail = [c for c in lower if c['kind'] != 'derived' and (c['pure'] or not sig['pure'])]
            r.shuffle(avail)
            avail = avail[:3]
            rec = None
            if sig.get('recursive'):
                if mutual:
                    rec = new[1 - j]
                else:
                    rec = sig
                if not (rec['pure'] or not sig['pure']):
                    rec = sig
            self_cls = sig['ns'] if sig['kind'] in ('instop', 'derived') else None
            # derived attributes are read wherever an attribute is read: count them as cheap callees
            chain = None
            if sig['kind'] == 'derived' and sig['ret'] == 'integer' and r.random() < 0.6:
                # the derivation follows a chain of instances and reads the same attribute there
                helper = None
                if r.random() < 0.5:
                    helper = 'get_' + sig['name']
                chain = (sig['name'], helper)
                sig['chain'] = True
            if sig['kind'] == 'derived' and r.random() < 0.6:
                sig['nav'] = True       # the derivation reads the related instance(s)
            if sig['kind'] == 'derived':
                body, text = make_body(sig, avail, None, self_cls, True, attr=sig['name'], chain=chain, nav=sig.get('nav', False))
            else:
                body, text = make_body(sig, avail, rec, self_cls, sig['pure'])
            cost = 1 + body_cost(body, cost_of)
            if chain is not None:
                cost *= 5
                if chain[1] is not None:
                    hb = [['return', ['attr', ['self'], sig['name']]]]
                    hsig = _sig('instop', chain[1], sig['ns'], [], 'integer', True)
                    hsig.update(recursive=False, level=level, body=hb, text=G.render(hb), cost=cost)
                    helpers.append(hsig)
            if sig.get('recursive'):
                cost *= 4
            if cost > COST_LIMIT:
                # too many nested invocations: the same callable without calls
                sig['recursive'] = False
                sig['params'] = [p for p in sig['params']]
                if sig['kind'] == 'derived':
                    body, text = make_body(sig, [], None, self_cls, True, attr=sig['name'], chain=chain, nav=sig.get('nav', False))
                else:
                    body, text = make_body(sig, [], None, self_cls, sig['pure'])
                cost = (1 + body_cost(body, cost_of)) * (5 if chain is not None else 1)
            sig['cost'] = cost
            sig['body'] = body
            sig['text'] = text
        for sig in new:
            costs[sig['name']] = sig['cost']
        if mutual:
            # each of the two runs the other up to cnt times
            both = sum(sig['cost'] for sig in new)
            for sig in new:
                costs[sig['name']] = both
        for sig in new + helpers:
            callables.append(sig)
            costs[sig['name']] = sig['cost']
            if sig['kind'] == 'derived':
                derived.append((sig['ns'], sig['name'], sig['ret']))
    return callables, enums, consts


def bp_spec(callables, enums, consts):
    classes = []
    for cls in SCHEMA['order']:
        attrs = [(a, 'ref' if ref else t) for a, t, ref in SCHEMA['classes'][cls]]
        der = [(c['name'], c['ret'], c['text']) for c in callables if c['kind'] == 'derived' and c['ns'] == cls]
        ops = [(c['name'], c['kind'] == 'instop', c['ret'], [(n, t) for n, t in c['params']], c['text'])
               for c in callables if c['kind'] in ('classop', 'instop') and c['ns'] == cls]
        classes.append({'name': cls, 'attrs': attrs, 'derived': der, 'ops': ops})
    functions = [(c['name'], c['ret'], [(n, t) for n, t in c['params']], c['text']) for c in callables if c['kind'] == 'function']
    bridges = [(c['name'], c['ret'], [(n, t) for n, t in c['params']], c['text']) for c in callables if c['kind'] == 'bridge']
    ees = []
    for c in callables:
        if c['kind'] == 'bridge':
            row = (c['name'], c['ret'], [(n, t) for n, t in c['params']], c['text'])
            for kl, rows in ees:
                if kl == c['ns']:
                    rows.append(row)
                    break
            else:
                ees.append((c['ns'], [row]))
    return {'classes': classes, 'functions': functions, 'ees': ees, 'enums': enums, 'consts': consts,
            'assocs': [(1, 'B', 'A_ID', True, True, 'A', 'ID', False, True)]}


def gen_population(rng):
    pop = {'inst': {}, 'links': []}
    for cls in SCHEMA['order']:
        rows = []
        count = rng.choice([0, 1, 2, 2, 3, 4])
        chain = rng.random() < 0.5
        for i in range(count):
            row = {}
            for a, t, ref in SCHEMA['classes'][cls]:
                if a == 'ID' or ref:
                    continue
                if t == 'integer':
                    row[a] = rng.choice([0, 1, 2, 3, 5, -1, -4, 9])
                    if chain:
                        row[a] = (count - 1 - i) if rng.random() < 0.5 else i      # n = 0, 1, 2, …: a chain of instances
                elif t == 'string':
                    row[a] = rng.choice(G.STRINGS)
                else:
                    row[a] = rng.random() < 0.5
            rows.append(row)
        pop['inst'][cls] = rows
    # initial links across R1 (each B has at most one A), made with xtuml.relate in this order
    na = len(pop['inst']['A'])
    for bi in range(len(pop['inst']['B'])):
        if na and rng.random() < 0.5:
            pop['links'].append([bi, rng.randrange(na)])
    return pop


def gen_entries(rng, callables, enums, consts, pop):
    r = rng
    entries = []
    tops = [c for c in callables]
    for _ in range(r.randint(3, 7)):
        k = r.random()
        if k < 0.08 and enums:
            en, names = r.choice(enums)
            entries.append(['enum', en, r.choice(names)])
            continue
        if k < 0.14 and consts:
            entries.append(['const', r.choice(consts)[0]])
            continue
        # prefer the upper levels: they reach the whole graph
        c = r.choice(tops[-3:]) if r.random() < 0.6 else r.choice(tops)
        kw = {}
        for n, t in c['params']:
            if n == 'cnt':
                kw[n] = r.choice([0, 1, 2, 3])
            elif t == 'integer':
                kw[n] = r.choice([0, 1, 2, -3, 6])
            elif t == 'string':
                kw[n] = r.choice(G.STRINGS)
            else:
                kw[n] = r.random() < 0.5
        if c['kind'] == 'function':
            entries.append(['fn', c['name'], kw])
        elif c['kind'] == 'bridge':
            entries.append(['brg', c['ns'], c['name'], kw])
        elif c['kind'] == 'classop':
            entries.append(['cop', c['ns'], c['name'], kw])
        else:
            n = len(pop['inst'][c['ns']])
            if n == 0:
                continue
            idx = r.randrange(n)
            if c['kind'] == 'instop':
                entries.append(['iop', c['ns'], idx, c['name'], kw])
            else:
                entries.append(['dattr', c['ns'], idx, c['name']])
    # derived attributes: read, change the instance from Python, read again - the second read must see the change
    for c in callables:
        if c['kind'] == 'derived' and pop['inst'][c['ns']] and r.random() < 0.8:
            idx = r.randrange(len(pop['inst'][c['ns']]))
            entries.append(['dattr', c['ns'], idx, c['name']])
            entries.append(['set', c['ns'], idx, 'n', r.choice([11, -6, 4, 25])])
            if r.random() < 0.5:
                entries.append(['set', c['ns'], idx, 's', r.choice(['q', 'zz', ''])])
            entries.append(['dattr', c['ns'], idx, c['name']])
    # derived attributes that navigate: read, then change the LINK STORE or the partner's attribute, read again
    link = {bi: ai for bi, ai in pop.get('links', [])}
    na, nb = len(pop['inst']['A']), len(pop['inst']['B'])
    for c in callables:
        if c['kind'] != 'derived' or not c.get('nav') or not pop['inst'][c['ns']] or not (na and nb):
            continue
        for _ in range(r.randint(1, 3)):
            idx = r.randrange(len(pop['inst'][c['ns']]))
            entries.append(['dattr', c['ns'], idx, c['name']])
            k = r.random()
            # the B instance whose link / partner we touch: the receiver itself (class B) or one of its partners (class A)
            if c['ns'] == 'B':
                bi = idx
            else:
                mine = [b for b, a in link.items() if a == idx]
                bi = r.choice(mine) if mine and r.random() < 0.6 else r.randrange(nb)
            if k < 0.4:
                if bi in link:
                    entries.append(['unrelate', 'B', bi, 'A', link.pop(bi)])
                else:
                    ai = idx if c['ns'] == 'A' and r.random() < 0.7 else r.randrange(na)
                    entries.append(['relate', 'B', bi, 'A', ai])
                    link[bi] = ai
            elif k < 0.6 and bi in link:
                old = link.pop(bi)
                entries.append(['unrelate', 'A', old, 'B', bi])
                ai = r.randrange(na)
                entries.append(['relate', 'A', ai, 'B', bi])
                link[bi] = ai
            else:
                # assignment to the partner (or to whoever): the next read must see it
                if c['ns'] == 'B' and bi in link:
                    entries.append(['set', 'A', link[bi], 'n', r.choice([13, -8, 40])])
                else:
                    entries.append(['set', 'B', bi, 'n', r.choice([13, -8, 40])])
            entries.append(['dattr', c['ns'], idx, c['name']])
    # any callable: invoke, change the population from Python, invoke again with the same arguments - the second
    # invocation selects / navigates / reads in the CHANGED population (nothing may be remembered from the first)
    callers = [c for c in callables if c['kind'] in ('function', 'bridge', 'classop', 'instop')
               and (c['kind'] != 'instop' or pop['inst'][c['ns']])]
    r.shuffle(callers)
    for c in callers[:r.choice([1, 2, 2])]:
        kw = {}
        for n, t in c['params']:
            kw[n] = (r.choice([0, 1, 2]) if n == 'cnt' else r.choice([0, 1, 2, -3, 6]) if t == 'integer'
                     else r.choice(G.STRINGS) if t == 'string' else r.random() < 0.5)
        if c['kind'] == 'function':
            call = ['fn', c['name'], kw]
        elif c['kind'] == 'bridge':
            call = ['brg', c['ns'], c['name'], kw]
        elif c['kind'] == 'classop':
            call = ['cop', c['ns'], c['name'], kw]
        else:
            call = ['iop', c['ns'], r.randrange(len(pop['inst'][c['ns']])), c['name'], kw]
        entries.append(call)
        for _ in range(r.randint(1, 2)):
            k = r.random()
            if k < 0.5 or not (na and nb):
                cls = r.choice([x for x in ('A', 'B') if pop['inst'][x]] or ['A'])
                if not pop['inst'][cls]:
                    continue
                entries.append(['set', cls, r.randrange(len(pop['inst'][cls])), r.choice(['n', 'n', 's']), None])
                entries[-1][4] = r.choice([17, -9, 33, 2]) if entries[-1][3] == 'n' else r.choice(['k', 'ab', ''])
            else:
                bi = r.randrange(nb)
                if bi in link:
                    entries.append(['unrelate', 'B', bi, 'A', link.pop(bi)])
                else:
                    ai = r.randrange(na)
                    entries.append(['relate', 'B', bi, 'A', ai])
                    link[bi] = ai
        entries.append(list(call))
    return entries


BOOM_TAILS = [('zq9 = 1 / 0;', 'division by zero'), ('zq9 = nosuchvar9;', 'unknown symbol'),
              ('zq9 = qa9.nosuchattr;', 'unknown attribute'),
              ('select any qe9 from instances of A where (selected.n == 987654); zq9 = qe9.n;', 'attribute read through an empty handle')]


def add_boom(rng, callables, entries):
    """the family 'a body that fails half way': a function that creates an instance, writes to it, selects - and then
    fails (no effect of its own) - invoked between the other invocations on the same domain.  The reference runs the
    function WITHOUT the failing statement; the outcome of the failing invocation itself is not compared, everything
    after it is (the instance it created is there, later invocations see a fresh scope)."""
    r = rng
    cls = r.choice(['A', 'B'])
    pre = [['create', 'qa9', cls], ['setattr', ['var', 'qa9'], 'n', ['int', r.choice([71, 72, 73])]],
           ['select_from', 'many', 'qs9', cls, None], ['assign', 'x', ['un', 'cardinality', ['var', 'qs9']]]]
    fail, what = r.choice(BOOM_TAILS)
    if 'qe9' in fail:
        fail = fail.replace('of A', 'of ' + cls)
    ret = [['return', ['var', 'x']]]
    sig = _sig('function', 'boom', None, [], 'integer', False)
    sig.update(recursive=False, level=0, body=pre + ret, cost=1,
               ref_text=G.render(pre + ret), text=G.render(pre) + fail + '\n' + G.render(ret), fails=what)
    callables.append(sig)
    out = []
    k = r.randrange(len(entries) + 1) if entries else 0
    head, rest = entries[:k], entries[k:]
    out = head + [['fn', 'boom', {}, 'fails']]
    # what was asked before the failure is asked again after it
    again = [list(e) for e in head if e[0] in ('fn', 'brg', 'cop', 'iop', 'iopc', 'dattr')][-2:]
    out += again + rest
    if r.random() < 0.5:
        out += [['fn', 'boom', {}, 'fails']] + [list(e) for e in again[:1]]
    return out


def add_builtin_ees(rng, callables, entries):
    """external entities with the key letters LOG / NVS / PERSIST: mk_component binds them to the built-in implementations
    of bridgepoint/external_entities.py instead of interpreting their modelled bodies.  The modelled bodies used here say what
    the built-ins do as far as a caller can tell (LOG bridges deliver nothing, NVS / PERSIST bridges deliver 0; no effect
    on the population), so the reference semantics applies; the text LOG writes is captured and has to mention the message."""
    r = rng
    lvl = max([x['level'] for x in callables] or [0])

    def mk(ns, name, params, ret, body):
        h = _sig('bridge', name, ns, params, ret, True)
        h.update(recursive=False, level=lvl, body=body, text=G.render(body), cost=1, builtin=True)
        callables.append(h)
    for name, ty in (('LogInfo', 'string'), ('LogFailure', 'string'), ('LogSuccess', 'string'), ('LogInteger', 'integer')):
        mk('LOG', name, [('message', ty)], None, [['return', None]])
    mk('NVS', 'version', [('first', 'integer'), ('second', 'integer')], 'integer', [['return', ['int', 0]]])
    mk('NVS', 'checksum', [('first', 'integer'), ('second', 'integer')], 'integer', [['return', ['int', 0]]])
    mk('NVS', 'format', [], 'integer', [['return', ['int', 0]]])
    mk('PERSIST', 'commit', [], 'integer', [['return', ['int', 0]]])
    mk('PERSIST', 'restore', [], 'integer', [['return', ['int', 0]]])
    word = r.choice(['m1', 'hello', 'x y'])
    num = r.choice([5, 17, 0])
    body = [['call', ['calln', 'LOG', 'LogInfo', [['message', ['str', word]]]]],
            ['kwcall', 'bridge', ['call', ['calln', 'LOG', 'LogInteger', [['message', ['int', num]]]]]],
            ['assign', 'v1', ['calln', 'NVS', 'version', [['second', ['int', 2]], ['first', ['int', 1]]]]],
            ['kwcall', 'bridge', ['assign', 'v2', ['calln', 'PERSIST', 'commit', []]]],
            ['call', ['calln', 'LOG', r.choice(['LogSuccess', 'LogFailure']), [['message', ['str', word + '!']]]]],
            ['return', ['bin', '+', ['bin', '+', ['var', 'v1'], ['var', 'v2']], ['int', 7]]]]
    caller = _sig('function', 'logcall', None, [], 'integer', True)
    caller.update(recursive=False, level=lvl + 1, body=body, text=G.render(body), cost=5, logs=[word, '%d' % num, word + '!'])
    callables.append(caller)
    extra = [['fn', 'logcall', {}], ['brg', 'LOG', 'LogInfo', {'message': 'py ' + word}],
             ['brg', 'NVS', 'checksum', {'first': 3, 'second': 4}], ['brg', 'PERSIST', 'restore', {}]]
    k = r.randrange(len(entries) + 1)
    return entries[:k] + extra + entries[k:]


def add_samename(rng, callables, entries, pop, ee1='EE1', ee2='EE2'):
    """callables of DIFFERENT kinds / external entities / classes that share ONE name and have different bodies, all
    invoked on one component in varying order, each more than once, and from one OAL caller: every one of them has to
    run its own body (nothing may be remembered under the bare name)"""
    r = rng
    nm = r.choice(['read', 'get', 'calc', 'Read'])
    vals = r.sample([1, 2, 3, 4, 5, 6, 7, 8, 9], 5)
    lvl = max([x['level'] for x in callables] or [0])

    def mk(kind, ns, v, ret='integer'):
        body = [['assign', 'k', ['int', v]], ['return', ['bin', '+', ['var', 'k'], ['int', 0]]]]
        h = _sig(kind, nm, ns, [], ret, True)
        h.update(recursive=False, level=lvl, body=body, text=G.render(body), cost=1)
        callables.append(h)
        return h
    mk('function', None, vals[0])
    mk('bridge', ee1, vals[1])
    mk('bridge', ee2, vals[2])
    mk('classop', 'A', vals[3])
    second = r.choice(['classop', 'instop']) if pop['inst']['B'] else 'classop'
    mk(second, 'B', vals[4])
    calls = [['fn', nm, {}], ['brg', ee1, nm, {}], ['brg', ee2, nm, {}], ['cop', 'A', nm, {}],
             (['cop', 'B', nm, {}] if second == 'classop' else ['iop', 'B', r.randrange(len(pop['inst']['B'])), nm, {}])]
    body = [['return', ['bin', '+', ['bin', '+', ['bin', '*', ['callf', nm, []], ['int', 1000]],
                                     ['bin', '*', ['calln', ee2, nm, []], ['int', 100]]],
                        ['bin', '+', ['bin', '*', ['calln', 'A', nm, []], ['int', 10]], ['calln', ee1, nm, []]]]]]
    caller = _sig('function', 'samecall', None, [], 'integer', True)
    caller.update(recursive=False, level=lvl + 1, body=body, text=G.render(body), cost=5)
    callables.append(caller)
    order = [list(c) for c in calls] + [list(c) for c in calls] + [['fn', 'samecall', {}]]
    r.shuffle(order)
    k = r.randrange(len(entries) + 1)
    return entries[:k] + order[:6] + entries[k:] + order[6:]


def add_novalue(rng, callables, entries, pop, ee='EE1'):
    """a callable with a NON-VOID return type whose executed path has no value return (falls off the end, or a bare
    `return;`): it delivers nothing (None when invoked from Python) - not the default of the declared type"""
    r = rng
    kind = r.choice(['function', 'bridge', 'classop', 'instop'])
    if kind == 'instop' and not pop['inst']['A']:
        kind = 'function'
    ret = r.choice(['integer', 'integer', 'string', 'boolean'])
    lit = {'integer': ['int', r.choice([0, 5, -2])], 'string': ['str', r.choice(['', 'ab'])], 'boolean': ['bool', r.random() < 0.5]}[ret]
    shape = r.choice(['falls-off', 'bare-return', 'no-return'])
    body = [['assign', 'k', ['int', 3]]]
    if shape != 'no-return':
        body.append(['if', ['param', 't'], [['return', lit]], [], None])
    if shape == 'bare-return':
        body.append(['return', None])
    lvl = max([x['level'] for x in callables] or [0])
    h = _sig(kind, 'nv', {'function': None, 'bridge': ee, 'classop': 'A', 'instop': 'A'}[kind], [('t', 'boolean')], ret, True)
    h.update(recursive=False, level=lvl, body=body, text=G.render(body), cost=1, novalue=shape)
    callables.append(h)

    def call(t):
        if kind == 'function':
            return ['fn', 'nv', {'t': t}]
        if kind == 'bridge':
            return ['brg', ee, 'nv', {'t': t}]
        if kind == 'classop':
            return ['cop', 'A', 'nv', {'t': t}]
        return ['iop', 'A', r.randrange(len(pop['inst']['A'])), 'nv', {'t': t}]
    k = r.randrange(len(entries) + 1)
    return entries[:k] + [call(False), call(True), call(False)] + entries[k:]


def add_enum_twins(rng, callables, enums, consts, entries, pop, ee='EE1'):
    """an enumeration whose enumerators are called like OTHER things of the same model - constants (integer, string,
    boolean; in the one constant specification the generated models have), the enumeration itself, a class, a function, the
    external entity, a parameter / a local variable of the reading body, an attribute - next to plain ones; every enumerator
    is read as `E::name` in callables of several kinds (expression, where clause, loop condition, if condition, derived
    attribute) that ALSO read the bare constants, the parameter, the local and call the function: an enumerator is its
    position in the modeled order, a constant its modeled value, each in its own name space"""
    r = rng
    en = r.choice(['TW', 'Tw', 'Mode'])
    lvl = max([x['level'] for x in callables] or [0])
    have = set(n for n, _, _ in consts)
    new_consts = []
    for k in range(r.randint(1, 3)):
        ty = r.choice(['integer', 'integer', 'string', 'boolean'])
        text = (r.choice(['0', '7', '42', '-3', '100', '1', '2']) if ty == 'integer'
                else r.choice(['abc', '', 'x y']) if ty == 'string' else r.choice(['true', 'false']))
        nm = r.choice(['MAX', 'DEFAULT', 'tk%d' % k, 'Off', 'LIMIT', 'n%d' % k])
        if nm not in have and nm not in [c[0] for c in new_consts]:
            new_consts.append((nm, ty, text))
    fname = 'twf'
    # (enumerator names with a leading underscore are outside the generated domain, like Python keywords)
    others = [en, r.choice(['A', 'B']), fname, ee if not ee.startswith('_') else 'EE1', 'x', 'k', 'n', 'R1']
    r.shuffle(others)
    plain = ['first', 'last', 'mid']
    r.shuffle(plain)
    names = [c[0] for c in new_consts] + others[:r.randint(0, 3)] + plain[:r.randint(0, 2)]
    for p in plain:
        if len(names) < 2 and p not in names:
            names.append(p)
    r.shuffle(names)
    consts.extend(new_consts)
    enums.append((en, names))
    fb = [['return', ['int', 90]]]
    f = _sig('function', fname, None, [], 'integer', True)
    f.update(recursive=False, level=lvl, body=fb, text=G.render(fb), cost=1)
    callables.append(f)

    def E(nm):
        return ['enum', en, nm]

    def fold(acc, e):
        return ['assign', acc, ['bin', '+', ['bin', '*', ['var', acc], ['int', 11]], e]]

    def reader(kind, name):
        cls = r.choice(['A', 'B'])
        body = [['assign', 'k', ['int', 40]], ['assign', 'acc', ['param', 'x']]]
        order = list(names)
        r.shuffle(order)
        for nm in order:
            body.append(fold('acc', E(nm)))
        for cn, ty, _ in new_consts:
            if ty == 'integer':
                body.append(fold('acc', ['var', cn]))
            elif ty == 'boolean':
                body.append(['if', ['var', cn], [fold('acc', ['int', 5])], [], None])
            else:
                body.append(['if', ['bin', '==', ['var', cn], ['str', 'abc']], [fold('acc', ['int', 6])], [], None])
        body.append(fold('acc', ['bin', '+', ['var', 'k'], ['callf', fname, []]]))
        nw, nl, nc = r.choice(names), r.choice(names), r.choice(names)
        body += [['select_from', 'many', 'qs', cls, ['bin', r.choice(['>=', '<', '==', '!=']), ['attr', ['selected'], 'n'], E(nw)]],
                 fold('acc', ['un', 'cardinality', ['var', 'qs']]),
                 ['assign', 'i', ['int', 0]],
                 ['while', ['bin', '<', ['var', 'i'], E(nl)], [['assign', 'i', ['bin', '+', ['var', 'i'], ['int', 1]]]]],
                 fold('acc', ['var', 'i']),
                 ['if', ['bin', '==', E(nc), ['int', names.index(nc)]], [fold('acc', ['int', 1])], [], [fold('acc', ['int', 2])]],
                 ['return', ['var', 'acc']]]
        ns = {'function': None, 'bridge': ee, 'classop': cls, 'instop': cls}[kind]
        h = _sig(kind, name, ns, [('x', 'integer')], 'integer', True)
        h.update(recursive=False, level=lvl + 1, body=body, text=G.render(body), cost=3, enum_twins=True)
        callables.append(h)
        kw = {'x': r.choice([0, 1, 3])}
        if kind == 'function':
            return ['fn', name, kw]
        if kind == 'bridge':
            return ['brg', ee, name, kw]
        if kind == 'classop':
            return ['cop', cls, name, kw]
        return ['iop', cls, r.randrange(len(pop['inst'][cls])), name, kw]

    kinds = ['function', 'bridge', 'classop']
    if pop['inst']['A'] and pop['inst']['B']:
        kinds.append('instop')
    r.shuffle(kinds)
    block = [reader(k, 'twread%d' % j) for j, k in enumerate(kinds[:r.choice([1, 2])])]
    dcls = r.choice([c for c in ('A', 'B') if pop['inst'][c]] or [None])
    if dcls is not None:
        # a derived attribute: the attribute value compared with / added to enumerators
        a, b = r.choice(names), r.choice(names)
        db = [['setattr', ['self'], 'dtw', ['bin', '+', ['bin', '*', E(a), ['int', 10]], E(b)]]]
        d = _sig('derived', 'dtw', dcls, [], 'integer', True)
        d.update(recursive=False, level=lvl, body=db, text=G.render(db), cost=1, nav=False)
        callables.append(d)
        block.append(['dattr', dcls, r.randrange(len(pop['inst'][dcls])), 'dtw'])
    block.append(['enum', en, r.choice(names)])
    for cn, _, _ in new_consts[:2]:
        block.append(['const', cn])
    r.shuffle(block)
    k = r.randrange(len(entries) + 1)
    return entries[:k] + block + entries[k:]


def add_attr_twin_ops(rng, callables, entries, pop):
    """operations named like ATTRIBUTES of their class (`h.n` is the attribute, `h.n(..)` the operation: OAL tells them apart
    by syntax): an instance-based operation called like an attribute, a class-based one called like another attribute, both
    reading the attributes of those names; invoked as `self.n(..)` from another operation and from a derived attribute,
    through a selected handle, a loop variable, in a where clause and a loop condition, as a statement - next to reads of
    the attribute; from Python the instance-based one is invoked through the class with the instance as the receiver
    (`Class.n(inst, x=..)`: on the instance Python's one name space has the attribute value under that name)"""
    r = rng
    cls = r.choice([c for c in ('A', 'B') if pop['inst'][c]] or [None])
    if cls is None:
        return entries
    lvl = max([x['level'] for x in callables] or [0])
    attrs = [(a, t) for a, t, ref in SCHEMA['classes'][cls] if not ref and t in ('integer', 'string', 'boolean')]
    r.shuffle(attrs)
    (ia, it), (ca, ct) = attrs[0], attrs[1]

    def test(h, a, t):
        e = ['attr', h, a]
        return e if t == 'boolean' else ['bin', '==', e, ['str', r.choice(G.STRINGS)]] if t == 'string' else ['bin', '>', e, ['int', 1]]
    mul = r.choice([2, 3, 5])
    ib = [['if', test(['self'], ia, it), [['return', ['bin', '+', ['param', 'x'], ['int', r.choice([50, 60])]]]], [], None],
          ['return', ['bin', '+', ['bin', '*', ['attr', ['self'], 'n'], ['int', mul]], ['param', 'x']]]]
    h = _sig('instop', ia, cls, [('x', 'integer')], 'integer', True)
    h.update(recursive=False, level=lvl, body=ib, text=G.render(ib), cost=1, attr_twin=True)
    callables.append(h)
    cb = [['select_from', 'many', 'qs', cls, None], ['return', ['bin', '+', ['un', 'cardinality', ['var', 'qs']], ['int', r.choice([7, 8])]]]]
    h = _sig('classop', ca, cls, [], 'integer', True)
    h.update(recursive=False, level=lvl, body=cb, text=G.render(cb), cost=1)
    callables.append(h)

    def op(hd, x):
        return ['callo', hd, ia, [['x', ['int', x]]]]
    vb = [['return', ['bin', '+', ['bin', '*', op(['self'], 1), ['int', 2]], ['calln', cls, ca, []]]]]
    v = _sig('instop', 'viaself', cls, [], 'integer', True)
    v.update(recursive=False, level=lvl + 1, body=vb, text=G.render(vb), cost=3)
    callables.append(v)
    db = [['setattr', ['self'], 'dop', ['bin', '+', op(['self'], 2), ['attr', ['self'], 'n']]]]
    d = _sig('derived', 'dop', cls, [], 'integer', True)
    d.update(recursive=False, level=lvl + 1, body=db, text=G.render(db), cost=2, nav=False)
    callables.append(d)
    fold = lambda e: ['assign', 'acc', ['bin', '+', ['bin', '*', ['var', 'acc'], ['int', 7]], e]]
    fb = [['select_from', 'many', 'qs', cls, ['bin', r.choice(['>=', '<', '!=']), ['callo', ['selected'], ia, [['x', ['int', 0]]]], ['int', r.choice([0, 3, 50])]]],
          ['assign', 'acc', ['un', 'cardinality', ['var', 'qs']]],
          ['select_from', 'many', 'qa', cls, None],
          ['foreach', 'q', 'qa', [fold(['bin', '+', op(['var', 'q'], 1), ['attr', ['var', 'q'], 'n']]),
                                  ['if', test(['var', 'q'], ia, it), [fold(['int', 1])], [], None]]],
          ['select_from', 'any', 'q1', cls, None],
          ['assign', 'i', ['int', 0]],
          ['while', ['bin', 'and', ['bin', '<', ['var', 'i'], op(['var', 'q1'], 0)], ['bin', '<', ['var', 'i'], ['int', 2]]],
           [['assign', 'i', ['bin', '+', ['var', 'i'], ['int', 1]]]]],
          ['call', op(['var', 'q1'], 4)],
          ['kwcall', 'transform', ['assign', 'w', op(['var', 'q1'], 5)]],
          fold(['bin', '+', ['var', 'i'], ['var', 'w']]),
          ['return', ['var', 'acc']]]
    f = _sig('function', 'optwins', None, [], 'integer', True)
    f.update(recursive=False, level=lvl + 2, body=fb, text=G.render(fb), cost=20)
    callables.append(f)
    n = len(pop['inst'][cls])
    block = [['fn', 'optwins', {}], ['iop', cls, r.randrange(n), 'viaself', {}], ['dattr', cls, r.randrange(n), 'dop'],
             ['iopc', cls, r.randrange(n), ia, {'x': r.choice([0, 2])}], ['cop', cls, ca, {}]]
    r.shuffle(block)
    # .. and again after the attribute of that name was written from Python
    idx = r.randrange(n)
    block += [['set', cls, idx, 'n', r.choice([0, 2, 12])], ['iopc', cls, idx, ia, {'x': 1}], ['dattr', cls, idx, 'dop'], ['fn', 'optwins', {}]]
    k = r.randrange(len(entries) + 1)
    return entries[:k] + block + entries[k:]


def _skipped_by_spec(e):
    """a derived-attribute read made in a population in which its body FAILS, or a WRITE from Python to a derived attribute
    (no stored value exists: the write has no effect, whether it is refused or ignored): the reference semantics is not
    asked at all; the outcome is not compared, what follows it is"""
    return e[0] in ('dattr', 'set') and e[-1] == 'fails'


def expand_spec(case, canon):
    """the reference's value list has no entry for the reads it was not asked: insert the placeholder"""
    if canon and canon[0] == 'ok':
        vals = list(canon[1])
        out = []
        for e in case['entries']:
            out.append(['ignored'] if _skipped_by_spec(e) else (vals.pop(0) if vals else ['missing']))
        canon[1] = out
    return canon


def blank_failed(case, canon):
    """the value of an invocation that fails half way is not part of the comparison"""
    if canon and canon[0] == 'ok':
        for k, e in enumerate(case['entries']):
            if ((e[0] == 'fn' and len(e) > 3 and e[3] == 'fails') or _skipped_by_spec(e)) and k < len(canon[1]):
                canon[1][k] = ['ignored']
    return canon


def add_derived_write(rng, callables, entries, pop):
    """a derived attribute is DERIVED on every read, also after somebody tried to store a value under its name: a write from
    Python (`inst.dw = 5`), a write in the body of another callable (`q.dw = 0;` - the reference runs that body without
    the statement), then reads from Python, inside an expression and inside a where clause of another body"""
    r = rng
    cls = r.choice([c for c in ('A', 'B') if pop['inst'][c]] or ['A'])
    if not pop['inst'][cls]:
        return entries
    lvl = max([x['level'] for x in callables] or [0])
    body = [['setattr', ['self'], 'dw', ['bin', '+', ['bin', '*', ['attr', ['self'], 'n'], ['int', 2]], ['int', 1]]]]
    h = _sig('derived', 'dw', cls, [], 'integer', True)
    h.update(recursive=False, level=lvl, body=body, text=G.render(body), cost=1, nav=False)
    callables.append(h)
    sel = [['select_from', 'many', 'qs', cls, None]]
    wr_ref = sel + [['assign', 'k', ['int', 0]], ['foreach', 'q', 'qs', [['assign', 'k', ['bin', '+', ['var', 'k'], ['int', 1]]]]],
                    ['return', ['var', 'k']]]
    wr_py = sel + [['assign', 'k', ['int', 0]],
                   ['foreach', 'q', 'qs', [['setattr', ['var', 'q'], 'dw', ['int', r.choice([0, 1000, -7])]],
                                           ['assign', 'k', ['bin', '+', ['var', 'k'], ['int', 1]]]]],
                   ['return', ['var', 'k']]]
    w = _sig('function', 'wrdw', None, [], 'integer', False)
    w.update(recursive=False, level=lvl + 1, body=wr_ref, ref_text=G.render(wr_ref), text=G.render(wr_py), cost=2, writes_derived=True)
    callables.append(w)
    rd = [['select_from', 'many', 'qs', cls, ['bin', '==', ['bin', '%', ['bin', '*', ['attr', ['selected'], 'dw'], ['attr', ['selected'], 'dw']], ['int', 2]], ['int', 1]]],
          ['assign', 'k', ['un', 'cardinality', ['var', 'qs']]],
          ['foreach', 'q', 'qs', [['assign', 'k', ['bin', '+', ['bin', '*', ['var', 'k'], ['int', 3]], ['attr', ['var', 'q'], 'dw']]]]],
          ['return', ['var', 'k']]]
    rf = _sig('function', 'rddw', None, [], 'integer', True)
    rf.update(recursive=False, level=lvl + 1, body=rd, text=G.render(rd), cost=6)
    callables.append(rf)
    idx = r.randrange(len(pop['inst'][cls]))
    read = ['dattr', cls, idx, 'dw']
    block = [list(read), ['fn', 'rddw', {}], ['set', cls, idx, 'dw', r.choice([5, 0, -1]), 'fails'], list(read), ['fn', 'rddw', {}],
             ['fn', 'wrdw', {}], list(read), ['fn', 'rddw', {}], ['set', cls, idx, 'n', r.choice([4, 9])], list(read), ['fn', 'rddw', {}]]
    k = r.randrange(len(entries) + 1)
    return entries[:k] + block + entries[k:]


def add_failing_derived(rng, callables, entries, pop):
    """a derived attribute whose body FAILS in some populations (division by the number of related instances; an
    attribute read through the empty result of a `select one`): read in the failing population (the exception is the
    harness's to handle), the population is repaired from Python (relate), read again - the read has to be a fresh
    evaluation -, broken again (unrelate), read (fails), repaired, read.  Nothing may be remembered from a failed read."""
    r = rng
    link = {bi: ai for bi, ai in pop.get('links', [])}
    na, nb = len(pop['inst']['A']), len(pop['inst']['B'])
    free_b = [b for b in range(nb) if b not in link]
    if not (na and free_b):
        return entries
    lvl = max([x['level'] for x in callables] or [0])
    if r.random() < 0.5:
        # class A: 100 / (number of related B): fails (division by zero) while no B is related
        lonely = [a for a in range(na) if a not in link.values()]
        if not lonely:
            return entries
        ai, bi = r.choice(lonely), r.choice(free_b)
        cls, idx = 'A', ai
        body = [['select_rel', 'many', 'qbs', ['self'], [['B', 'R1', '']], None],
                ['setattr', ['self'], 'dq', ['bin', '/', ['int', 100], ['un', 'cardinality', ['var', 'qbs']]]]]
    else:
        # class B: the related A's attribute: fails (attribute of an empty handle) while no A is related
        bi, ai = r.choice(free_b), r.randrange(na)
        cls, idx = 'B', bi
        body = [['select_rel', 'one', 'qa', ['self'], [['A', 'R1', '']], None],
                ['setattr', ['self'], 'dq', ['bin', '+', ['attr', ['var', 'qa'], 'n'], ['int', 1]]]]
    h = _sig('derived', 'dq', cls, [], 'integer', True)
    h.update(recursive=False, level=lvl, body=body, text=G.render(body), cost=1, nav=False, fails_when_unrelated=True)
    callables.append(h)
    bad, good = ['dattr', cls, idx, 'dq', 'fails'], ['dattr', cls, idx, 'dq']
    block = [list(bad), ['relate', 'B', bi, 'A', ai], list(good), list(good), ['unrelate', 'B', bi, 'A', ai], list(bad),
             ['relate', 'A', ai, 'B', bi], list(good), ['unrelate', 'A', ai, 'B', bi]]
    return block + entries


# ----------------------------------------------------------------------------------------------- wire

def _kw_sexp(kw):
    return [[n, (Sym('T') if v is True else Sym('F') if v is False else v)] for n, v in sorted(kw.items())]


def _entry_sexp(e):
    k = e[0]
    if k == 'fn':
        return [Sym('fn'), e[1], _kw_sexp(e[2])]
    if k == 'brg':
        return [Sym('brg'), e[1], e[2], _kw_sexp(e[3])]
    if k == 'cop':
        return [Sym('cop'), e[1], e[2], _kw_sexp(e[3])]
    if k in ('iop', 'iopc'):
        return [Sym('iop'), [Sym('i'), e[1], e[2]], e[3], _kw_sexp(e[4])]
    if k == 'dattr':
        return [Sym('dattr'), [Sym('i'), e[1], e[2]], e[3]]
    if k == 'enum':
        return [Sym('enum'), e[1], e[2]]
    if k == 'set':
        v = e[4]
        return [Sym('set'), [Sym('i'), e[1], e[2]], e[3], (Sym('T') if v is True else Sym('F') if v is False else v)]
    if k in ('relate', 'unrelate'):
        return [Sym(k), [Sym('i'), e[1], e[2]], [Sym('i'), e[3], e[4]], 'R1', '']
    return [Sym('const'), e[1]]


def _ctx_sexp(callables, diffs=None):
    classes = [[Sym('cls'), name] + [[a, Sym(t), Sym('T') if ref else Sym('F')] for a, t, ref in SCHEMA['classes'][name]]
               for name in SCHEMA['order']]
    cs = []
    tag = {'function': 'function', 'bridge': 'bridge', 'classop': 'classop', 'instop': 'instop', 'derived': 'derived'}
    for c in callables:
        # the body as the reference semantics gets it: built from the GENERATOR's tree, not from a parse of its text; the
        # parser's tree of the rendered text is compared with it (cross-check, reported as a D failure of the case)
        tree = G.tree_sexp(c['body'])
        theirs = oal_sexp.encode(_oal.parse(c.get('ref_text', c['text'])))
        if not G.same_tree(tree, theirs) and diffs is not None:
            diffs.append('%s %s: program tree %s / parsed tree %s' % (c['kind'], c['name'], dumps(tree)[:300], dumps(theirs)[:300]))
        if c['kind'] == 'function':
            cs.append([Sym('function'), c['name'], tree])
        else:
            cs.append([Sym(tag[c['kind']]), c['ns'], c['name'], tree])
    assocs = [[Sym('assoc'), 'R1', 'B', 'A', '', '', Sym('T'), Sym('F'), ['A_ID'], ['ID']]]
    return [Sym('ctx'), [Sym('classes')] + classes, [Sym('assocs')] + assocs, [Sym('callables')] + cs]


def _state_sexp(pop):
    popsec = [Sym('pop')]
    next_id = 1
    for cls in SCHEMA['order']:
        rows = pop['inst'][cls]
        insts = []
        for i, row in enumerate(rows):
            vals = []
            for a, t, ref in SCHEMA['classes'][cls]:
                if ref:
                    continue
                if a == 'ID':
                    vals.append(next_id)
                    next_id += 1
                else:
                    v = row[a]
                    vals.append(Sym('T') if v is True else Sym('F') if v is False else v)
            insts.append([i] + vals)
        popsec.append([cls, len(rows)] + insts)
    links = [[0] + [['B', bi, 'A', ai] for bi, ai in pop.get('links', [])]]
    return [Sym('state'), [Sym('nextId'), next_id], popsec, [Sym('links')] + links]


def _rows_in_text_order(sql, enums, consts):
    """enumerator rows and constant rows in the order they stand in the (permuted) model text"""
    import re
    enum_rows = {}
    dt_name = {}
    for m in re.finditer(r'INSERT INTO S_DT VALUES \("([0-9a-f-]+)", "[0-9a-f-]+", \'([^\']*)\'', sql):
        dt_name[m.group(1)] = m.group(2)
    for m in re.finditer(r'INSERT INTO S_ENUM VALUES \("([0-9a-f-]+)", \'([^\']*)\', \'\', "([0-9a-f-]+)", "([0-9a-f-]+)"\);', sql):
        eid, name, dt, prev = m.groups()
        enum_rows.setdefault(dt, []).append([int(eid.replace('-', ''), 16), name, int(prev.replace('-', ''), 16)])
    esec = [Sym('enums')]
    for dt, rows in enum_rows.items():
        esec.append([dt_name[dt]] + rows)
    csec = [Sym('consts')]
    ty_of = {n: t for n, t, _ in consts}
    text_of = {n: x for n, _, x in consts}
    for m in re.finditer(r"INSERT INTO CNST_SYC VALUES \(\"[0-9a-f-]+\", '([^']*)'", sql):
        n = m.group(1)
        csec.append([n, ty_of[n], text_of[n]])
    return esec, csec


def make_case(ident, callables, enums, consts, pop, entries, shuffle_seed):
    import random
    sql = B.model_sql(bp_spec(callables, enums, consts), random.Random(shuffle_seed))
    esec, csec = _rows_in_text_order(sql, enums, consts)
    diffs = []
    line = dumps([Sym('calls'), FUEL, _ctx_sexp(callables, diffs), esec, csec, _state_sexp(pop)] + [_entry_sexp(e) for e in entries if not _skipped_by_spec(e)])
    slim = [{k: v for k, v in c.items() if k != 'body'} for c in callables]
    return {'id': ident, 'callables': slim, 'bodies': [c['body'] for c in callables], 'enums': enums, 'consts': consts,
            'pop': pop, 'entries': entries, 'shuffle': shuffle_seed, 'sql': sql, 'line': line, 'expect': None,
            'parse_differs': diffs[0] if diffs else None}


def canon_spec(ans):
    if not isinstance(ans, list) or not ans or ans[0] != 'ok':
        return ['not-ok', P4.G_to_plain(ans)]
    vals, state = ans[1], ans[2]
    secs = {str(s[0]): s[1:] for s in state[1:]}
    rank = {}
    for entry in secs['pop']:
        for r, row in enumerate(entry[2:]):
            rank[(entry[0], row[0])] = r
    pop = [[entry[0], [[P4._spec_val(v, rank) for v in row[1:]] for row in entry[2:]]] for entry in secs['pop']]
    live = {entry[0]: [row[0] for row in entry[2:]] for entry in secs['pop']}
    links = []
    for entry in secs['links']:
        pairs = entry[1:]
        sc, tc = ASSOC[1], ASSOC[3]
        links.append([entry[0],
                      [[rank.get((p[2], p[3]), 'dead') for p in pairs if p[0] == sc and p[1] == i] for i in live[sc]],
                      [[rank.get((p[0], p[1]), 'dead') for p in pairs if p[2] == tc and p[3] == i] for i in live[tc]]])
    return ['ok', [P4._spec_val(v, rank) for v in vals], secs['nextId'][0], pop, links]


def attach_expectations(ctx, cases):
    if ctx.lean is None or ctx.lean.driver is None:
        raise RuntimeError('C15 needs the Lean driver: the reference semantics decides the domain and supplies the expected '
                           'outcome of every case; without it nothing would be checked')
    answers = ctx.lean.run_driver([c['line'] for c in cases])
    for c, a in zip(cases, answers):
        ans = loads(a)
        if isinstance(ans, list) and ans and ans[0] == 'ok':
            c['expect'] = blank_failed(c, expand_spec(c, canon_spec(ans)))
            yield c
        elif isinstance(ans, list) and ans and ans[0] == 'error':
            ctx.count('dropped_outside_domain')
            ctx.count('dropped: ' + str(ans[1])[:50])
        elif isinstance(ans, list) and ans and ans[0] == 'timeout':
            ctx.count('dropped_out_of_fuel')
        else:
            raise RuntimeError('driver could not decode the case: %s' % a[:300])


def add_shadow(rng, callables):
    """the name-clash family: a caller whose LOCAL variable is called like the function / external entity it invokes.
    Functions, external entities and classes live in their own namespaces in OAL (`::f()`, `EE::b()` are unambiguous)."""
    r = rng
    targets = [c for c in callables if c['kind'] in ('function', 'bridge') and c['ret'] == 'integer' and not c.get('recursive')]
    if not targets:
        return None
    c = r.choice(targets)
    args = []
    for n, t in c['params']:
        lit = {'integer': ['int', r.choice([0, 1, 2])], 'string': ['str', r.choice(G.STRINGS)], 'boolean': ['bool', r.random() < 0.5]}[t]
        args.append([n, lit])
    if c['kind'] == 'function':
        var = c['name']
        call = ['callf', c['name'], args]
    else:
        var = c['ns']
        call = ['calln', c['ns'], c['name'], args]
    body = [['assign', var, ['int', 7]], ['assign', 'v1', call], ['return', ['bin', '+', ['var', 'v1'], ['var', var]]]]
    sig = _sig('function', 'shadow', None, [], 'integer', c['pure'])
    sig.update(recursive=False, level=1 + max(x['level'] for x in callables), body=body, text=G.render(body))
    return sig


def add_clash(rng, callables, enums, consts, same=True):
    """the cross-kind family: a CONSTANT (or an ENUMERATION) named like a function.  Functions (`::f()`), constants (`f`)
    and enumerations (`f::x`) are told apart by the syntax of the reference; the caller uses both.
    same=False: the two names differ in LETTER CASE only (function `fn3`, constant `FN3` / `Fn3`): different names, no
    clash at all - an ordinary case with the ordinary signatures."""
    r = rng
    targets = [c for c in callables if c['kind'] == 'function' and c['ret'] == 'integer' and not c.get('recursive')]
    if not targets:
        # no integer function in this model: a small one of its own
        hb = [['return', ['int', r.choice([1, 2, 5])]]]
        h = _sig('function', 'fnz', None, [], 'integer', True)
        h.update(recursive=False, level=0, body=hb, text=G.render(hb), cost=1)
        callables.append(h)
        targets = [h]
    c = r.choice(targets)
    args = []
    for n, t in c['params']:
        lit = {'integer': ['int', r.choice([0, 1, 2])], 'string': ['str', r.choice(G.STRINGS)], 'boolean': ['bool', r.random() < 0.5]}[t]
        args.append([n, lit])
    call = ['callf', c['name'], args]
    twin = c['name'] if same else r.choice([c['name'].upper(), c['name'].capitalize()])
    lvl = max(x['level'] for x in callables)

    def small(kind, name, ns, value):
        hb = [['return', ['int', value]]]
        h = _sig(kind, name, ns, [], 'integer', True)
        h.update(recursive=False, level=lvl, body=hb, text=G.render(hb), cost=1)
        callables.append(h)
        return h
    what = r.choice(['constant', 'enumeration', 'external entity', 'enumeration/external entity',
                     'constant/external entity', 'class/function'])
    if what == 'enumeration' and not enums:
        what = 'constant'
    pre = [['assign', 'v1', call]]
    if what == 'constant':
        consts.append((twin, 'integer', '7'))
        other = ['var', twin]
    elif what == 'enumeration':
        names = list(enums[0][1])
        enums.append((twin, names))
        other = ['enum', twin, names[-1]]
    elif what == 'external entity':
        # an external entity whose key letters are the function's name: `::f()` and `f::bq()`
        small('bridge', 'bq', twin, 4)
        other = ['calln', twin, 'bq', []]
    elif what == 'enumeration/external entity':
        # an enumeration and an external entity of one name: `E::red` and `E::bq()`
        en = twin + 'E'
        names = list(ENUMERATORS[:3])
        enums.append((en, names))
        small('bridge', 'bq', en if same else r.choice([en.upper(), en.capitalize()]), 4)
        pre.append(['assign', 'v2', ['calln', callables[-1]['ns'], 'bq', []]])
        other = ['bin', '+', ['var', 'v2'], ['enum', en, names[-1]]]
    elif what == 'constant/external entity':
        kn = twin + 'K'
        consts.append((kn, 'integer', '7'))
        small('bridge', 'bq', kn if same else r.choice([kn.upper(), kn.capitalize()]), 4)
        pre.append(['assign', 'v2', ['calln', callables[-1]['ns'], 'bq', []]])
        other = ['bin', '+', ['var', 'v2'], ['var', kn]]
    else:
        # a function named like a class: `::A()`, `A::cq()` (class-based operation), `select .. from instances of A`
        cls = r.choice(['A', 'B'])
        fname = cls if same else cls.lower()
        small('function', fname, None, 3)
        small('classop', 'cq', cls, 6)
        pre += [['assign', 'v2', ['callf', fname, []]], ['assign', 'v3', ['calln', cls, 'cq', []]],
                ['select_from', 'many', 'qs9', cls, None]]
        other = ['bin', '+', ['bin', '+', ['var', 'v2'], ['var', 'v3']], ['un', 'cardinality', ['var', 'qs9']]]
    body = pre + [['return', ['bin', '+', ['var', 'v1'], other]]]
    sig = _sig('function', 'clash' if same else 'casepair', None, [], 'integer', c['pure'])
    sig.update(recursive=False, level=1 + lvl, body=body, text=G.render(body), clash=what)
    return sig


def generate(ctx):
    n = ctx.pick(600, 15000)
    max_levels = ctx.pick(4, 5)
    body_stmts = ctx.pick(7, 12)
    batch = []
    prev = None
    for i in range(n):
        if ctx.out_of_time():
            break
        r = ctx.rng.fork('case', i)
        ee1, ee2 = ee_key_letters(r.fork('ee-key-letters'))
        callables, enums, consts = gen_model(r.fork('model'), max_levels, body_stmts, ee=ee1)
        pop = gen_population(r.fork('pop'))
        entries = gen_entries(r.fork('entries'), callables, enums, consts, pop)
        family = 'graph'
        if i % 50 == 7:
            sh = add_shadow(r.fork('shadow'), callables)
            if sh is not None:
                callables.append(sh)
                entries = [['fn', 'shadow', {}]]
                family = 'shadow'
        if i % 50 == 23:
            cl = add_clash(r.fork('clash'), callables, enums, consts)
            if cl is not None:
                callables.append(cl)
                entries = [['fn', 'clash', {}]]
                family = 'clash'
        if i % 2 == 0:
            entries = add_samename(r.fork('samename'), callables, entries, pop, ee1, ee2)
        else:
            entries = add_novalue(r.fork('novalue'), callables, entries, pop, ee1)
        if i % 10 == 9:
            entries = add_builtin_ees(r.fork('builtin'), callables, entries)
        if i % 5 == 1:
            entries = add_derived_write(r.fork('dwrite'), callables, entries, pop)
        if i % 5 == 3:
            entries = add_failing_derived(r.fork('faild'), callables, entries, pop)
        if i % 5 == 0:
            entries = add_attr_twin_ops(r.fork('attrtwins'), callables, entries, pop)
        if i % 5 == 2:
            entries = add_enum_twins(r.fork('enumtwins'), callables, enums, consts, entries, pop, ee1)
        if i % 10 == 4 and entries:
            entries = add_boom(r.fork('boom'), callables, entries)
            family = 'boom'
        if i % 50 == 37:
            cp = add_clash(r.fork('casepair'), callables, enums, consts, same=False)
            if cp is not None:
                callables.append(cp)
                entries = [['fn', 'casepair', {}]] + entries[:2]
                family = 'casepair'
        if not entries:
            continue
        ctx.count('generated')
        case = make_case(i, callables, enums, consts, pop, entries, r.fork('shuffle').randint(0, 10 ** 9))
        case['family'] = family
        if i % 4 == 1 and prev is not None:
            case['decoy'] = prev
        prev = {'sql': case['sql'], 'entries': [(e[:3] if e[0] == 'fn' else list(e)) for e in entries if e[0] in ('fn', 'brg', 'cop')][:3]}
        batch.append(case)
        if len(batch) >= 100:
            yield from attach_expectations(ctx, batch)
            batch = []
    if batch:
        yield from attach_expectations(ctx, batch)
    flag_out_of_fuel(ctx)


def flag_out_of_fuel(ctx):
    """generated cases terminate by construction: one that exhausts the fuel of the reference semantics was NOT checked, and
    says that FUEL (or the generator's growth control) needs attention; the run is flagged, visibly"""
    n = ctx.stats.get('dropped_out_of_fuel', 0)
    if n:
        ctx.stats['FLAG_unchecked_out_of_fuel (FUEL=%d too small or a generated case does not terminate)' % FUEL] = n
        import sys
        sys.stderr.write('%s: FLAG: %d generated cases exhausted FUEL=%d under the reference semantics and were not checked\n'
                         % (PROP, n, FUEL))


def case_from_json(c):
    return c


# ----------------------------------------------------------------------------------------------- implementation side

def canon_impl(domain, values):
    names = {}
    pop = []
    for cls in SCHEMA['order']:
        mc = domain.find_metaclass(cls)
        rows = []
        for rank, inst in enumerate(mc.storage):
            names[id(inst)] = ['i', cls, rank]
            rows.append([P4.cval(inst.__dict__.get(a), lambda x: ['i?']) for a, t, ref in SCHEMA['classes'][cls] if not ref])
        pop.append([cls, rows])

    def name_of(inst):
        return names.get(id(inst)) or ['i', type(inst).__name__, 'dead']
    links = []
    for k, ass in enumerate(domain.associations):
        sc = ass.target_link.from_metaclass
        tc = ass.source_link.from_metaclass
        links.append([k, [[name_of(t)[2] for t in ass.target_link.get(x, [])] for x in sc.storage],
                      [[name_of(x)[2] for x in ass.source_link.get(t, [])] for t in tc.storage]])
    return ['ok', [P4.cval(v, name_of) for v in values], domain.id_generator.peek(), pop, links]


def run_impl(case):
    global _CALLS
    loader = _LOADER
    del loader.statements[_LOADER_N0:]
    loader.input(case['sql'], 'case%s' % case.get('id'))
    try:
        domain = loader.build_component()
    finally:
        del loader.statements[_LOADER_N0:]
    domain.id_generator = _xtuml.IntegerGenerator()
    insts = {}
    for cls in SCHEMA['order']:
        insts[cls] = [domain.new(cls, **row) for row in case['pop']['inst'][cls]]
    for bi, ai in case['pop'].get('links', []):
        _xtuml.relate(insts['B'][bi], insts['A'][ai], 1)
    calls = {'n': 0, 'depth': 0, 'max': 0, 'kinds': {}}
    _CALLS = calls
    values = []
    raised = None
    decoy = case.get('decoy')
    half = len(case['entries']) // 2
    logs = [w for c in case['callables'] for w in c.get('logs', [])]
    captured = io.StringIO()
    real_stdout = sys.stdout
    if logs:
        sys.stdout = captured
    try:
        for pos, e in enumerate(case['entries']):
            k = e[0]
            if decoy is not None and pos == half:
                _run_decoy(decoy)
            try:
                values.append(_invoke(domain, insts, e))
            except Exception as ex:
                if (k == 'fn' and len(e) > 3 and e[3] == 'fails') or _skipped_by_spec(e):
                    values.append(None)      # the invocation that fails half way: its outcome is not compared
                    continue
                # an in-domain invocation must not raise: a finding, with the program
                raised = (len(values), '%s: %s' % (type(ex).__name__, str(ex)[:200]))
                values.append(_Raised(type(ex).__name__))
                break
    finally:
        _CALLS = None
        sys.stdout = real_stdout
    obs = blank_failed(case, canon_impl(domain, values))
    res = _judge(case, obs, calls, raised)
    if logs:
        res['stats']['builtin_external_entities'] = 1
        missing = [w for w in logs if w not in captured.getvalue()]
        if missing and raised is None:
            res['d_fail'].append({'sig': 'builtin-log-output', 'what': 'the built-in LOG bridges were given %r; the text they wrote '
                                  'does not mention %r: %r' % (logs, missing, captured.getvalue()[:300])})
    return res


def _run_decoy(decoy):
    """ANOTHER model is built and interpreted in the middle of this case (same process, same loader, same modules):
    nothing of it may reach the domain under test.  Its results are of no interest."""
    global _CALLS
    keep = _CALLS
    _CALLS = None
    try:
        _LOADER.input(decoy['sql'], 'decoy')
        try:
            other = _LOADER.build_component()
        finally:
            del _LOADER.statements[_LOADER_N0:]
        other.id_generator = _xtuml.IntegerGenerator()
        for cls in SCHEMA['order']:
            for _ in range(2):
                other.new(cls)
        for e in decoy['entries']:
            try:
                _invoke(other, {}, e)
            except Exception:
                pass
    except Exception:
        pass
    finally:
        _CALLS = keep


class _Raised(object):
    def __init__(self, name):
        self.name = name


def _find(domain, name, kind):
    """`Domain.find_symbol(name)` without a kind delivers the symbol registered LAST under that name (whatever it is);
    the harness asks for the kind it means (a repository without the kind argument is asked the old way)"""
    try:
        return domain.find_symbol(name, kind)
    except TypeError:
        return domain.find_symbol(name)


def _invoke(domain, insts, e):
    k = e[0]
    if k == 'fn':
        return _find(domain, e[1], 'function')(**e[2])
    if k == 'brg':
        return getattr(_find(domain, e[1], 'external entity'), e[2])(**e[3])
    if k == 'cop':
        return getattr(domain.find_class(e[1]), e[2])(**e[3])
    if k == 'iop':
        return getattr(insts[e[1]][e[2]], e[3])(**e[4])
    if k == 'iopc':
        # the same invocation through the class, the instance as the receiver
        return getattr(domain.find_class(e[1]), e[3])(insts[e[1]][e[2]], **e[4])
    if k == 'dattr':
        return getattr(insts[e[1]][e[2]], e[3])
    if k == 'set':
        setattr(insts[e[1]][e[2]], e[3], e[4])
        return None
    if k == 'relate':
        _xtuml.relate(insts[e[1]][e[2]], insts[e[3]][e[4]], 1)
        return None
    if k == 'unrelate':
        _xtuml.unrelate(insts[e[1]][e[2]], insts[e[3]][e[4]], 1)
        return None
    if k == 'enum':
        return getattr(_find(domain, e[1], 'enumeration'), e[2])
    return _find(domain, e[1], 'constant')


def _judge(case, obs, calls, raised):
    fails = []
    exp = case.get('expect')
    if exp is None:
        raise RuntimeError('case %r carries no expectation of the reference semantics' % (case.get('id'),))
    if case.get('parse_differs'):
        fails.append({'sig': 'parsed-tree-differs-from-program',
                      'what': 'bridgepoint.oal.parse reads a body differently from the program it was rendered from: %s' % case['parse_differs']})
    if obs != exp:
        comp, what = 'shape', ''
        if raised is not None:
            k, msg = raised
            e = case['entries'][k]
            comp = 'exception:' + msg.split(':')[0]
            what = 'invocation #%d %r raised %s; the bodies specify the value %r' % (k, e, msg, exp[1][k] if k < len(exp[1]) else None)
        elif obs[1] != exp[1]:
            for k, (a, b) in enumerate(zip(obs[1], exp[1])):
                if a != b:
                    e = case['entries'][k]
                    comp = 'value:' + {'fn': 'function', 'brg': 'bridge', 'cop': 'class-operation', 'iop': 'instance-operation', 'iopc': 'instance-operation',
                                       'dattr': 'derived-attribute', 'enum': 'enumerator', 'const': 'constant', 'set': 'attribute-write',
                                       'relate': 'relate', 'unrelate': 'unrelate'}[e[0]]
                    what = 'invocation #%d %r delivered %r, the bodies specify %r' % (k, e, a, b)
                    break
        elif obs[3] != exp[3]:
            comp, what = 'population', 'final population %r, the bodies specify %r' % (obs[3], exp[3])
        elif len(obs) > 4 and len(exp) > 4 and obs[4] != exp[4]:
            comp, what = 'links', 'final links %r, expected %r' % (obs[4], exp[4])
        elif obs[2] != exp[2]:
            comp, what = 'id-generator', 'next id %r, expected %r' % (obs[2], exp[2])
        text = '\n'.join('--- %s %s%s(%s) -> %s%s\n%s' % (c['kind'], (c['ns'] + '::') if c['ns'] else '', c['name'],
                                                        ', '.join('%s: %s' % p for p in c['params']), c['ret'],
                                                        ' [pure]' if c['pure'] else '', c['text'])
                         for c in case['callables'])
        sig = 'differs-from-spec:' + comp
        fails.append({'sig': sig,
                      'what': '%s\nentries: %r\npopulation: %r\nenums (modeled order): %r consts: %r\n%s' % (
                          what, case['entries'], case['pop'], case['enums'], case['consts'], text)})
    stats = {'invocations_from_python': len(case['entries']), 'walkers': calls['n'],
             'call_depth_%d' % min(calls['max'], 8): 1, 'callables': len(case['callables']),
             'levels_%d' % (1 + max(c['level'] for c in case['callables'])): 1}
    stats['family_' + case.get('family', 'graph')] = 1
    if any(c['name'] == 'samecall' for c in case['callables']):
        stats['same_named_callables_of_different_kinds'] = 1
    if any(c.get('writes_derived') for c in case['callables']):
        stats['derived_attribute_read_after_a_write_to_its_name'] = 1
    if any(c.get('fails_when_unrelated') for c in case['callables']):
        stats['derived_attribute_read_after_a_failed_read'] = 1
    for c in case['callables']:
        if c.get('novalue'):
            stats['non_void_callable_without_value_return_' + c['novalue']] = 1
    if any(c.get('attr_twin') for c in case['callables']):
        stats['operations_named_like_attributes_of_their_class'] = 1
    if any(c['kind'] == 'bridge' and c['ns'] in EE_KEY_LETTERS for c in case['callables']):
        stats['external_entity_key_letters_that_are_python_names'] = 1
    if any(c.get('enum_twins') for c in case['callables']):
        stats['enumerators_named_like_other_elements_read_in_every_position'] = 1
    cnames = set(n for n, _, _ in case['consts'])
    if any(nm in cnames for _, names in case['enums'] for nm in names):
        stats['models_with_an_enumerator_named_like_a_constant'] = 1
    if any(nm in TWIN_POOL or nm == en for en, names in case['enums'] for nm in names):
        stats['models_with_an_enumerator_named_like_another_element'] = 1
    if case.get('decoy') is not None:
        stats['another_model_interpreted_in_between'] = 1
    stats['invocations_repeated_after_a_change'] = sum(1 for k, e in enumerate(case['entries']) if e[0] in ('fn', 'brg', 'cop', 'iop', 'iopc') and any(x == e for x in case['entries'][:k]))
    for c in case['callables']:
        stats['callable_' + c['kind']] = stats.get('callable_' + c['kind'], 0) + 1
        if c.get('recursive'):
            stats['callable_recursive'] = stats.get('callable_recursive', 0) + 1
        if c['ret'] is None:
            stats['callable_without_result'] = stats.get('callable_without_result', 0) + 1
    for body in case.get('bodies', []):
        for k, v in G.count_kinds(body).items():
            if k.startswith('stmt_'):
                stats[k] = stats.get(k, 0) + v
        stats['call_sites_in_conditions'] = stats.get('call_sites_in_conditions', 0) + sum(
            1 for kind, e in G.conditions(body) if _has_call(e))
        stats['call_sites_in_where'] = stats.get('call_sites_in_where', 0) + sum(
            1 for kind, e in G.conditions(body) if kind == 'where' and _has_call(e))
    for k, v in calls['kinds'].items():
        stats['exec_' + k] = v
    for e in case['entries']:
        stats['entry_' + e[0]] = stats.get('entry_' + e[0], 0) + 1
    nontrivial = calls['max'] >= 2 and any(v != ['none'] for v in obs[1])
    return {'obs': obs, 'd_fail': fails, 'nontrivial': bool(nontrivial),
            'key': '%s|%r' % (case['sql'], case['entries']), 'stats': stats}


def _has_call(e):
    if not isinstance(e, list) or not e:
        return False
    if e[0] in ('callf', 'calln', 'callo'):
        return True
    return any(_has_call(x) for x in e[1:] if isinstance(x, list))


def model_line(case):
    return case['line']


def model_obs(case, ans):
    return blank_failed(case, expand_spec(case, canon_spec(ans)))


def shrink_candidates(case):
    """fewer invocations; (the call graph itself is kept: every callable may be needed by another)"""
    ctx = _CTX
    if ctx is None or ctx.lean is None or ctx.lean.driver is None:
        return
    entries = case['entries']
    cands = []
    for i in range(len(entries)):
        if len(entries) > 1:
            cands.append(entries[:i] + entries[i + 1:])
    cases = []
    callables = [dict(c, body=b) for c, b in zip(case['callables'], case['bodies'])]
    for es in cands:
        cases.append(make_case(case.get('id'), callables, case['enums'], case['consts'], case['pop'], es, case['shuffle']))
    # smaller populations
    for cls in SCHEMA['order']:
        rows = case['pop']['inst'][cls]
        if rows and not any(e[0] in ('iop', 'iopc', 'dattr', 'set') and e[1] == cls and e[2] == len(rows) - 1 for e in entries) \
                and not case['pop'].get('links') and not any(e[0] in ('relate', 'unrelate') for e in entries):
            pop = {'inst': dict(case['pop']['inst']), 'links': []}
            pop['inst'][cls] = rows[:-1]
            cases.append(make_case(case.get('id'), callables, case['enums'], case['consts'], pop, entries, case['shuffle']))

    class _Quiet(object):
        lean = ctx.lean

        def count(self, *a, **k):
            pass
    for c in attach_expectations(_Quiet(), cases):
        yield c


def search(ctx, broken):
    yield from generate(ctx)
