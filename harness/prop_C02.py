"""C02 — Links stay symmetric, bounded and atomic through any operation history.

Histories of new / relate / unrelate / delete (both argument orders, with and without phrase, valid
and invalid) over seven association shapes, run on a real xtuml.MetaModel.

  D  after every step, on the implementation's own state: navigation symmetric in both directions of
     every association; only live instances reachable; single-valued ends hold at most one partner;
     every referential attribute reads as the identifying attribute of a linked instance (unset when
     unlinked); the outcome is the documented one (independent relational oracle: a set of pairs per
     association); a rejected call leaves the deep dump (pools, link dicts incl. empty entries, every
     instance __dict__) exactly as it was; relating a related pair is a no-op; relate followed by
     unrelate of the same pair restores the deep dump.
  K  outcome, pools, both link directions (ordered partner lists) and referential reads after every
     step equal lean/PyxModel/Meta.lean run by the driver.
Construction routes: the API (define_class / define_association / formalize / new / relate) and, in the family
`loaded`, xtuml.ModelLoader: the population after a history prefix is written as SQL text (meta_common.Model.from_sql);
D is checked on the loaded state and after every later op, K compares the loaded state with the model's state after
the prefix and then step by step.
Family `late` (construction ORDER): the API route with Association.formalize() called when instances EXIST already.  `how` =
`api`: every association is defined up front, association i is formalised just before op number formal[i] of the history
(0 = before any instance, prefix = after the whole prefix; the prefix holds arbitrary ops: creations, accepted and rejected
relate / unrelate, deletes - none of them needs a formalised association); `batch-all` / `batch-each`: the instances of a
canonical prefix are created WITH their key values (new(kind, Id=…, B_Id=…) on unformalised classes), the links are made by
Association.batch_relate() and the associations are formalised afterwards (all batch_relate calls first, or association by
association).  From the last prefix op on the full D is checked after every op (a referential attribute reads the
identifying value of the linked instance, unset when unlinked - whatever the instance stored under that name before the
attribute became referential), K compares with the model run on the same ops (formalisation is not a state component of the
model: links, pools and reads do not depend on when an association was formalised).  Identifier VALUES differ between the
routes (a not-yet-referential unique_id attribute draws a value from the generator), so for K the values read are named by
the creation index of the instance that owns them (`_id_names`); D compares raw values.
Domain of the THEOREMS: EVERY history (the former guard "relate is applied to live instances" is gone): relate itself
rejects an instance that is not in its pool.  Histories that hand a DELETED instance to relate / unrelate
(use-after-delete) are the family `uad`: the statement requires RelateException for such a relate (UnknownLink-
Exception first when no association matches; an unrelate is UnrelateException since the delete removed every
pair), nothing may change, and no deleted instance may ever be reachable.  (Formerly the open finding
`use-after-delete`: relate() accepted the deleted instance; repaired in /repo by the `deleted` set of MetaClass.)
Family `relspell` (the SPELLING of the association identifier): an association is named by the identifier it was defined
under ('R<n>') or by the integer n; every other value names no association of the model - near-miss spellings of a defined
identifier (sign, blanks, leading zeros, underscores between digits, non-ASCII decimal digits, lower case, the bare number
as text, doubled / missing prefix, float / hex / suffix forms, neighbouring numbers, negative / scaled integers) are UNKNOWN
associations: relate / unrelate with them have to be rejected with UnknownLinkException and change nothing, whatever is or
is not linked across the association they resemble; the integer n has to behave exactly like 'R<n>'.  Histories whose
identifiers are all text also run on the model (K); histories with integer identifiers are D-only.
"""
import itertools

import meta_common as mc
from sexp import Sym

PROP = 'C02'
RULE = ('per association shape (1:1, 1:M, M:1 unconditional, reflexive with phrases, association class with two '
        'formalisations, subtype/supertype sharing an identifier, two associations sharing a referential attribute): '
        'a prelude creating 2 instances per class, then exhaustive op sequences (quick: length 2, thorough: length 3) '
        'over the full alphabet of relate/unrelate on every ordered instance pair with every phrase spelling incl. '
        'unknown rel ids/phrases, delete of every instance and new; plus random histories (length 30-200 quick, up to '
        '1500 thorough) with pools growing to 3-6 per class; family `loaded`: random histories whose first k ops (the creations '
        'and the links that hold after them) are written as SQL text and built by xtuml.ModelLoader, the rest runs on the '
        'loader-built model; family `late`: the same histories on a model whose associations are formalised AFTER instances exist '
        '(each association at its own point of a history prefix run through the API, or instances created with key values, '
        'batch_relate(), then formalize()), exhaustively for every single op and sampled op pairs after a prelude created '
        'before formalize(), and randomly; family `relspell`: the association identifier of a relate / unrelate is spelt in '
        'every way near a defined one (per defined R<n>: sign, blanks / tab / newline around or inside, leading zeros, '
        'underscores, 5 non-ASCII decimal digit scripts, lower case, bare number as text, doubled / missing prefix, float / '
        'hex / binary / suffix forms, neighbouring and truncated numbers; integers n, -n, 10n, n+1000, 0): over every shape '
        '(and one with R1 and R10 between the same two classes) each spelling in relate and unrelate, both argument orders, '
        'on an unlinked and on a linked pair (quick: 3 of these 8 per spelling, thorough: all), plus random histories '
        'in which 20% of the identifiers are such spellings and (in every second history) 15% the integer form. '
        'Non-trivial: at least one accepted and one rejected '
        'relate or unrelate, or a delete of a linked instance; distinct = distinct (shape, history)')
EXHAUSTIVE = {'quick': True, 'thorough': True}
ASSUMPTIONS = ['none on the histories: relate / unrelate / delete are applied to live AND to deleted instances (family uad: a '
               'relate with a deleted argument has to be rejected with RelateException)',
               'ids come from xtuml.IntegerGenerator; each class has at most one own unique_id attribute',
               'an association is KNOWN under the identifier it was defined with (text, compared exactly) and under the integer n '
               "for 'R<n>'; any other text or integer names no association (family relspell); identifiers of other types "
               '(bool, float, None) are not generated']
CHUNK = 3000
CASE_TIMEOUT_S = 20
BUDGET_S = {"quick": 240, "thorough": 1800}


def setup(ctx):
    import xtuml
    mc.bind(xtuml)


# shapes only this property uses (mc.SHAPES is shared with C09 / C11 / C16): two associations between the SAME two classes
# whose numbers differ by a trailing zero (R1 / R10), so that a lenient reading of a misspelt identifier lands on the other
LOCAL_SHAPES = {
    'digit_rels': {'classes': [mc.C('A', 'Id', [('B_Id', 'unique_id'), ('Other_B_Id', 'unique_id')]), mc.C('B', 'Id')],
                   'assocs': [mc.A('R1', 0, ['B_Id'], True, True, '', 1, ['Id'], False, True, ''),
                              mc.A('R10', 0, ['Other_B_Id'], False, True, '', 1, ['Id'], False, True, '')]},
}


def shape_of(name):
    return LOCAL_SHAPES[name] if name in LOCAL_SHAPES else mc.SHAPES[name]


def all_shapes():
    return sorted(list(mc.SHAPES.items()) + list(LOCAL_SHAPES.items()))


_DIGIT_SCRIPTS = (0xFF10, 0x0660, 0x06F0, 0x0966, 0x1D7CE)     # fullwidth, Arabic-Indic, extended Arabic-Indic, Devanagari, maths bold


def rel_spellings(rels):
    """near-miss spellings of the defined association identifiers `rels` ('R<n>'): texts and integers of which none is
    meant to name an association (the oracle decides: a spelling that happens to EQUAL a defined identifier, e.g. the
    truncation 'R1' of 'R12' where R1 exists, is simply a valid one)"""
    out = []
    for rel in rels:
        d = rel[1:]
        if rel[:1] != 'R' or not d.isdigit():
            continue
        n = int(d)
        out += ['R+' + d, 'R-' + d, 'R ' + d, 'R' + d + ' ', ' R' + d, 'R' + d + '\n', 'R\t' + d, '\tR' + d, 'R0' + d, 'R00' + d,
                'R' + d + '_', 'R_' + d, 'R__' + d, 'r' + d, d, '+' + d, ' ' + d, '0' + d, 'RR' + d, 'R' + d + '.0', 'R' + d + '.',
                'R' + d + 'e0', 'R0x' + d, 'R0b' + d, 'R0o' + d, 'R' + d + 'L', 'R' + d + 'l', 'R' + d + '0', 'R' + d[:-1], 'R', '',
                'X' + d, 'R' + d + 'R', 'R(' + d + ')', "R'" + d + "'", 'R%d' % (n + 1), 'R%d' % (n + 1000), 'R' + d + d,
                u'R\u2212' + d, u'R' + d + u'\u00a0', u'R\u3000' + d]
        for i in range(1, len(d)):
            out += ['R' + d[:i] + '_' + d[i:], 'R' + d[:i] + ' ' + d[i:], 'R' + d[:i] + '.' + d[i:]]
        out += ['R' + d[0] + '_0', 'R' + d + '_0', 'R' + d + '_' + d]
        for base in _DIGIT_SCRIPTS:
            t = u''.join(chr(base + int(c)) for c in d)
            out += [u'R' + t, t, u'R' + t + u'0', u'R0' + t]
        out += [-n, 10 * n, n + 1000, n + 1, 0]
    seen, res = set(), []
    for v in out:
        key = (type(v).__name__, v)
        if key not in seen and v not in rels:
            seen.add(key)
            res.append(v)
    return res


def rel_number(rel):
    """the integer that names the association defined as 'R<n>' (None when the identifier has no such form)"""
    return int(rel[1:]) if rel[:1] == 'R' and rel[1:].isdigit() and str(int(rel[1:])) == rel[1:] else None


def _generate_relspell(ctx):
    """family `relspell`, see the module text"""
    per = ctx.pick(3, 8)
    for name, schema in all_shapes():
        rels = sorted(set(a['rel'] for a in schema['assocs']))
        spell = rel_spellings(rels) + [n for n in map(rel_number, rels) if n is not None]
        pre = prelude(schema, 2)
        rng = ctx.rng.fork('relspell-exh', name)
        for ai, a in enumerate(schema['assocs']):
            x, y = 2 * a['src'], 2 * a['tgt'] + (1 if a['src'] == a['tgt'] else 0)      # the first instance of each class
            combos = [(linked, nm, order) for linked in (False, True) for nm in ('relate', 'unrelate') for order in (0, 1)]
            for sp in spell:
                for linked, nm, order in (combos if per >= len(combos) else rng.sample(combos, per)):
                    ops = list(pre)
                    if linked:
                        ops.append(['relate', x, y, a['rel'], a['sphrase']])
                    ops.append([nm, x, y, sp, a['sphrase']] if order == 0 else [nm, y, x, sp, a['tphrase']])
                    # ... and the pair is still (un)linked under the proper identifier afterwards
                    ops.append(['unrelate' if linked else 'relate', x, y, a['rel'], a['sphrase']])
                    yield {'shape': name, 'ops': ops, 'fam': 'relspell'}
    rr = ctx.rng.fork('relspell')
    shapes = dict(all_shapes())
    for i in range(ctx.pick(300, 5000)):
        r = rr.fork(i)
        name = r.choice(sorted(shapes))
        schema = shapes[name]
        rels = sorted(set(a['rel'] for a in schema['assocs']))
        ops = _random_history(r, schema, ctx.pick(80, 400))
        spell = rel_spellings(rels)
        texts = [v for v in spell if not isinstance(v, int)]
        with_int = i % 2 == 1
        for o in ops:
            if o[0] not in ('relate', 'unrelate') or o[3] not in rels:
                continue
            w = r.random()
            if w < 0.2:
                o[3] = r.choice(spell if with_int else texts)
            elif w < 0.35 and with_int and rel_number(o[3]) is not None:
                o[3] = rel_number(o[3])
        yield {'shape': name, 'ops': ops, 'fam': 'relspell'}


def search(ctx, broken):
    """targeted generator for a broken tie: the small families that vary ONE input dimension first (identifier spellings),
    then everything `generate` has, at the thorough sizes"""
    for c in _generate_relspell(ctx):
        if in_domain(c['ops']):
            yield c
    for c in generate(ctx):
        if c.get('fam') != 'relspell':
            yield c


def alphabet(schema, n_inst_per_class):
    """ops over the prelude's instances: instance index = class_index * n + j (prelude creates class by class)"""
    ncls = len(schema['classes'])
    insts = list(range(ncls * n_inst_per_class))
    rels = sorted(set(a['rel'] for a in schema['assocs']))
    phrases = sorted(set([''] + [a['sphrase'] for a in schema['assocs']] + [a['tphrase'] for a in schema['assocs']]))
    ops = []
    for x, y in itertools.product(insts, insts):
        for r in rels:
            for p in phrases:
                ops.append(['relate', x, y, r, p])
                ops.append(['unrelate', x, y, r, p])
    ops.append(['relate', 0, insts[-1], 'R99', ''])
    ops.append(['unrelate', 0, insts[-1], rels[0], 'nope'])
    for x in insts:
        ops.append(['delete', x])
    ops.append(['new', 0])
    return ops


def prelude(schema, n):
    return [['new', k] for k in range(len(schema['classes'])) for _ in range(n)]


def in_domain(ops):
    """no relate/unrelate on an instance deleted earlier in the history (use-after-delete)"""
    dead = set()
    for o in ops:
        if o[0] == 'delete':
            dead.add(o[1])
        elif o[0] in ('relate', 'unrelate') and (o[1] in dead or o[2] in dead):
            return False
    return True


def _random_history(r, schema, maxlen):
    """prelude + a random history of new / delete / relate / unrelate (valid and invalid) over the schema"""
    ncls = len(schema['classes'])
    rels = sorted(set(a['rel'] for a in schema['assocs']))
    phrases = sorted(set([''] + [a['sphrase'] for a in schema['assocs']] + [a['tphrase'] for a in schema['assocs']]))
    ops = prelude(schema, r.randint(1, 3))
    kinds = [k for k in range(ncls) for _ in range(len(ops) // ncls)]
    dead = set()
    length = r.randint(30, maxlen)
    for _ in range(length):
        c = r.random()
        livei = [j for j in range(len(kinds)) if j not in dead]
        if c < 0.08 or len(livei) < 2:
            if len(kinds) < 6 * ncls:
                k = r.randrange(ncls)
                ops.append(['new', k])
                kinds.append(k)
            continue
        if c < 0.16:
            x = r.randrange(len(kinds))          # live or already deleted (repeated delete)
            ops.append(['delete', x])
            dead.add(x)
            continue
        x, y = r.choice(livei), r.choice(livei)
        # bias towards well-typed pairs
        if r.random() < 0.7:
            a = r.choice(schema['assocs'])
            xs = [j for j in livei if kinds[j] == a['src']]
            ys = [j for j in livei if kinds[j] == a['tgt']]
            if xs and ys:
                x, y = r.choice(xs), r.choice(ys)
                if r.random() < 0.5:
                    x, y = y, x
        rel = r.choice(rels) if r.random() < 0.95 else 'R77'
        ph = r.choice(phrases) if r.random() < 0.95 else 'bogus'
        ops.append([r.choice(['relate', 'relate', 'unrelate']), x, y, rel, ph])
        if r.random() < 0.25 and ops[-1][0] == 'relate':
            ops.append(['unrelate', x, y, rel, ph])
    return ops


def generate(ctx):
    """all histories; the ones that use an instance after its deletion form the family `uad` (a bounded sample of
    them): the relate has to be rejected (RelateException), the deleted instance must not become reachable again"""
    uad, cap = 0, ctx.pick(3000, 60000)
    for c in _generate(ctx):
        if in_domain(c['ops']):
            yield c
        elif uad < cap:
            uad += 1
            c['fam'] = 'uad'
            yield c


def _generate(ctx):
    # the (small) family `late` first: the exhaustive product below may use up the whole time budget of a tier on a busy machine
    for c in _generate_relspell(ctx):
        yield c
    for c in _generate_late(ctx):
        yield c
    depth = ctx.pick(2, 3)
    for name, schema in mc.SHAPES.items():
        pre = prelude(schema, 2)
        alpha = alphabet(schema, 2)
        if len(alpha) ** depth > ctx.pick(12000, 800000):
            # too wide for the full product: full product of the shorter depth, sampled extension
            rng = ctx.rng.fork('exh', name)
            for seq in itertools.product(alpha, repeat=depth - 1):
                for last in rng.sample(alpha, min(len(alpha), ctx.pick(6, 40))):
                    yield {'shape': name, 'ops': pre + [list(o) for o in seq] + [list(last)], 'fam': 'exh'}
        else:
            for seq in itertools.product(alpha, repeat=depth):
                yield {'shape': name, 'ops': pre + [list(o) for o in seq], 'fam': 'exh'}
    rng = ctx.rng.fork('random')
    n = ctx.pick(350, 6000)
    for i in range(n):
        r = rng.fork(i)
        name = r.choice(sorted(mc.SHAPES))
        yield {'shape': name, 'ops': _random_history(r, mc.SHAPES[name], ctx.pick(200, 1500)), 'fam': 'random'}
    # family `loaded` (construction route): the state after a prefix of the history is built by xtuml.ModelLoader from SQL
    # text (CREATE TABLE / CREATE ROP / INSERT with explicit ids and referential values) instead of through the API; the
    # rest of the history runs on that loader-built model under the same D and K
    lr = ctx.rng.fork('loaded')
    for i in range(ctx.pick(400, 6000)):
        r = lr.fork(i)
        name = r.choice(sorted(mc.SHAPES))
        schema = mc.SHAPES[name]
        ops = _random_history(r, schema, ctx.pick(60, 300))
        k = r.randint(len(schema['classes']), max(len(schema['classes']), min(len(ops), 80)))
        pre = mc.canonical_prefix(schema, ops[:k])
        rest, dead = [], set()
        for o in ops[k:]:
            if o[0] == 'delete':
                dead.add(o[1])
            elif o[0] in ('relate', 'unrelate') and (o[1] in dead or o[2] in dead):
                continue                 # use-after-delete has its own family
            rest.append(o)
        yield {'shape': name, 'ops': pre + rest, 'fam': 'loaded', 'route': 'sql', 'prefix': len(pre)}
    # D-only family `newref`: instances created WITH referential values (MetaClass.new relates them one association after
    # the other); when a later one is refused the instance and the links made so far remain — and must remain LIVE
    rr = ctx.rng.fork('newref')
    for i in range(ctx.pick(400, 6000)):
        r = rr.fork(i)
        ops = []
        np_, nq = r.randint(1, 3), r.randint(1, 3)
        for _ in range(r.randint(2, 10)):
            w = r.random()
            if w < 0.6:
                ops.append(['newc', r.choice([None] + list(range(1, np_ + 1))), r.choice([None] + list(range(1, nq + 1)))])
            elif w < 0.8:
                ops.append(['delc', r.randint(0, 6)])
            else:
                ops.append(['unrel', r.randint(0, 6), r.choice(['R11', 'R12'])])
        yield {'shape': 'newref', 'np': np_, 'nq': nq, 'ops': ops, 'fam': 'newref'}
    for nk in (2, 3):
        for seed in range(ctx.pick(40, 400)):
            yield {'shape': 'compound', 'nk': nk, 'seed': seed, 'len': 12, 'ops': [], 'fam': 'compound'}
    for rounds in (2, 5):
        for batch in (1, 3, 20):
            for which in (0, 1, 2):
                yield {'shape': 'churn', 'rounds': rounds, 'batch': batch, 'which': which, 'ops': [], 'fam': 'churn'}


def _no_use_after_delete(ops):
    """the history without the relate / unrelate ops that name an instance deleted earlier (they have their own family)"""
    out, dead = [], set()
    for o in ops:
        if o[0] == 'delete':
            dead.add(o[1])
        elif o[0] in ('relate', 'unrelate') and (o[1] in dead or o[2] in dead):
            continue
        out.append(o)
    return out


def _generate_late(ctx):
    """family `late` (construction order, docs/robustness-patterns.md no. 4): Association.formalize() is called when
    instances exist already.  Exhaustive part: the prelude (2 instances per class) is created on the unformalised schema,
    every association is formalised, then every single op of the alphabet and sampled op pairs.  Random part: each
    association is formalised at its own point of a random prefix (how = api), or the instances of a canonical prefix are
    created with their key values, linked by batch_relate() and formalised afterwards (how = batch-all / batch-each)."""
    for name, schema in mc.SHAPES.items():
        pre = prelude(schema, 2)
        alpha = alphabet(schema, 2)
        late = [len(pre)] * len(schema['assocs'])
        rng = ctx.rng.fork('late-exh', name)
        for first in alpha:
            yield {'shape': name, 'ops': pre + [list(first)], 'fam': 'late', 'route': 'late', 'how': 'api',
                   'prefix': len(pre), 'formal': late}
            for last in rng.sample(alpha, min(len(alpha), ctx.pick(3, 30))):
                ops = pre + [list(first), list(last)]
                if in_domain(ops):
                    yield {'shape': name, 'ops': ops, 'fam': 'late', 'route': 'late', 'how': 'api',
                           'prefix': len(pre), 'formal': late}
    lt = ctx.rng.fork('late')
    for i in range(ctx.pick(320, 6000)):
        r = lt.fork(i)
        name = r.choice(sorted(mc.SHAPES))
        schema = mc.SHAPES[name]
        ops = _no_use_after_delete(_random_history(r, schema, ctx.pick(60, 300)))
        how = r.choice(['api', 'api', 'batch-all', 'batch-each'])
        if how == 'api':
            k = r.randint(1, min(len(ops), 40))
            # each association at its own point: before any instance, after the whole prefix, or somewhere in between
            formal = [r.choice([0, k, k, r.randint(0, k), r.randint(0, k)]) for _ in schema['assocs']]
            if not any(formal):
                formal[r.randrange(len(formal))] = k
            refkeys = [(a['src'], n) for a in schema['assocs'] for n in a['skeys']]
            if len(set(refkeys)) < len(refkeys):
                # an attribute formalised by TWO associations reads across the one formalised LAST first when both are
                # linked (the statement does not say which; D accepts either): the model takes them in definition
                # order, so for K they are formalised in that order
                formal.sort()
            yield {'shape': name, 'ops': ops, 'fam': 'late', 'route': 'late', 'how': how, 'prefix': k, 'formal': formal}
        else:
            k = r.randint(len(schema['classes']), max(len(schema['classes']), min(len(ops), 80)))
            pre = mc.canonical_prefix(schema, ops[:k])
            yield {'shape': name, 'ops': pre + _no_use_after_delete(ops[k:]), 'fam': 'late', 'route': 'late', 'how': how,
                   'prefix': len(pre)}


class _LateModel(mc.Model):
    """the same real MetaModel as mc.Model, but an association is formalised only when told to: classes and associations
    are defined up front, `formal[i]` is the op number before which association i is formalised"""

    def __init__(self, schema, formal):
        x = mc._xtuml
        self.schema = schema
        self.m = x.MetaModel(x.IntegerGenerator())
        self.metaclasses = [self.m.define_class(c['name'], list(c['attrs'])) for c in schema['classes']]
        self.assocs = [self.m.define_association(a['rel'], schema['classes'][a['src']]['name'], list(a['skeys']), a['smany'],
                                                 a['scond'], a['sphrase'], schema['classes'][a['tgt']]['name'],
                                                 list(a['tkeys']), a['tmany'], a['tcond'], a['tphrase'])
                       for a in schema['assocs']]
        self.formal = list(formal)
        self.formalised = [False] * len(self.assocs)
        self.preexisting = 0          # instances of the referring class that existed when an association was formalised
        self.insts = []
        self.index = {}
        self.how = 'Association.formalize() of association i called before op number %s' % (list(formal),)

    def formalize(self, ai):
        if not self.formalised[ai]:
            self.preexisting += len(self.metaclasses[self.schema['assocs'][ai]['src']].storage)
            self.assocs[ai].formalize()
            self.formalised[ai] = True

    def formalize_due(self, step):
        for ai, f in enumerate(self.formal):
            if f <= step:
                self.formalize(ai)

    @classmethod
    def batch(cls, schema, prefix_ops, each):
        """the state after a canonical prefix (new + accepted relate ops, see mc.canonical_prefix) built the way a client
        populates a model by hand: every instance is created WITH its attribute values (own identifier, key values of the
        instances it refers to, None where it refers to nothing) on the unformalised classes, Association.batch_relate()
        makes the links from the key values, Association.formalize() comes last (`each`: association by association - only
        where no batch_relate then reads an attribute an earlier formalize() has made referential)."""
        for o in prefix_ops:
            if o[0] not in ('new', 'relate'):
                raise ValueError('a batch prefix consists of new and relate ops: %r' % (o,))
        kinds, pairs = mc._prefix_pairs(schema, prefix_ops)
        if mc._expressible_pairs(schema, kinds, pairs) != pairs:
            raise ValueError('the prefix holds links that key values cannot express (use canonical_prefix)')
        own, drawn, val = mc._row_values(schema, kinds, pairs)
        self = cls(schema, [len(prefix_ops)] * len(schema['assocs']))
        for i, k in enumerate(kinds):
            self.new(k, **dict((n, val(i, n)) for n, t in schema['classes'][k]['attrs']))
        made, ok_each = set(), True
        for a in schema['assocs']:
            if made & (set((a['src'], n) for n in a['skeys']) | set((a['tgt'], n) for n in a['tkeys'])):
                ok_each = False
            made |= set((a['src'], n) for n in a['skeys'])
        if each and ok_each:
            for ai, ass in enumerate(self.assocs):
                ass.batch_relate()
                self.formalize(ai)
            self.how = 'instances created with their key values, then per association batch_relate() and formalize()'
        else:
            for ass in self.assocs:
                ass.batch_relate()
            for ai in range(len(self.assocs)):
                self.formalize(ai)
            self.how = 'instances created with their key values, then batch_relate() of every association, then formalize()'
        return self


def _id_names(model, schema, kinds):
    """{identifier value on the implementation: the value the same identifier has on the plain route}: the n-th instance
    created in a class with an own identifier holds the n-th generator value there; on the late routes the generator is
    also drawn from by unique_id attributes that are not referential YET (or the values are given), so the values read
    are named by their owner before they are compared with the model (K only; D compares raw values)"""
    table, n = {}, 0
    for i, k in enumerate(kinds):
        idn = schema['classes'][k]['id']
        if idn:
            n += 1
            v = model.insts[i].__dict__.get(idn)
            try:
                table.setdefault(v, n)
            except TypeError:
                pass
    return table


# ------------------------------------------------------------------ independent relational oracle

class Oracle(object):
    """the statement's reading: per association a list of (target-side, source-side) pairs"""

    def __init__(self, schema):
        self.schema = schema
        self.kinds = []
        self.live = []
        self.pairs = [[] for _ in schema['assocs']]

    def resolve(self, k1, k2, rel, phrase):
        """(association index, x(target side), y(source side)) candidates; the statement's notion of a known link"""
        out = []
        if isinstance(rel, int) and not isinstance(rel, bool):
            rel = 'R%d' % rel            # the integer n names the association R<n>
        for i, a in enumerate(self.schema['assocs']):
            if not isinstance(rel, str) or a['rel'] != rel:
                continue
            if a['tgt'] == k1 and a['src'] == k2 and a['tphrase'] == phrase:
                out.append((i, 'fwd'))
            if a['src'] == k1 and a['tgt'] == k2 and a['sphrase'] == phrase:
                out.append((i, 'rev'))
        return out

    def resolve_rel(self, rel):
        """does the identifier name an association of the schema at all (any kinds, any phrase)"""
        if isinstance(rel, int) and not isinstance(rel, bool):
            rel = 'R%d' % rel
        return isinstance(rel, str) and any(a['rel'] == rel for a in self.schema['assocs'])

    def expected(self, op):
        """set of acceptable outcomes and the state update to apply for each (None = ambiguous: accept impl)"""
        nm = op[0]
        if nm == 'new':
            self.kinds.append(op[1])
            self.live.append(True)
            return 'ok'
        if nm == 'delete':
            x = op[1]
            if not self.live[x]:
                return 'DeleteException'
            self.live[x] = False
            self.pairs = [[p for p in ps if x not in p] for ps in self.pairs]
            return 'ok'
        x0, y0, rel, ph = op[1], op[2], op[3], op[4]
        cands = self.resolve(self.kinds[x0], self.kinds[y0], rel, ph)
        if not cands:
            return 'UnknownLinkException'
        i, d = cands[0]
        if len(cands) > 1 and not (self.kinds[x0] == self.kinds[y0] and x0 == y0):
            # same kinds and equal phrases in both directions: direction is the first matching one (fwd)
            pass
        x, y = (x0, y0) if d == 'fwd' else (y0, x0)
        a = self.schema['assocs'][i]
        ps = self.pairs[i]
        if nm == 'relate':
            if not (self.live[x0] and self.live[y0]):
                return 'RelateException'          # a deleted instance must not become reachable again
            if (x, y) in ps:
                return 'ok'
            if (not a['smany'] and any(p[0] == x for p in ps)) or (not a['tmany'] and any(p[1] == y for p in ps)):
                return 'RelateException'
            ps.append((x, y))
            return 'ok'
        if (x, y) not in ps:
            return 'UnrelateException'
        ps.remove((x, y))
        return 'ok'


def _run_newref(case):
    """classes P(Id), Q(Id), C(Id, P_Id, Q_Id); R11: C (1C, P_Id) -> P (1C, Id); R12: C (1C, Q_Id) -> Q (1C, Id).
    `newc p q` = new('C', P_Id=p, Q_Id=q): the instance is related across R11 and then across R12; a refusal of the
    second leaves instance and first link behind.  Whatever happened, after every op: navigation is symmetric, single-valued
    ends hold at most one partner, and every instance a link mentions is in its class's pool."""
    import xtuml as x
    m = x.MetaModel(x.IntegerGenerator())
    m.define_class('P', [('Id', 'integer')])
    m.define_class('Q', [('Id', 'integer')])
    m.define_class('C', [('Id', 'unique_id'), ('P_Id', 'integer'), ('Q_Id', 'integer')])
    a1 = m.define_association('R11', 'C', ['P_Id'], False, True, '', 'P', ['Id'], False, True, '')
    a2 = m.define_association('R12', 'C', ['Q_Id'], False, True, '', 'Q', ['Id'], False, True, '')
    a1.formalize()
    a2.formalize()
    for i in range(case['np']):
        m.new('P', Id=i + 1)
    for i in range(case['nq']):
        m.new('Q', Id=i + 1)
    fails, stats = [], {'fam_newref': 1}
    made = []          # every C instance new() ever appended or returned
    refused = 0
    for step, op in enumerate(case['ops']):
        mcC = m.find_metaclass('C')
        before = len(mcC.storage)
        if op[0] == 'newc':
            kw = {}
            if op[1] is not None:
                kw['P_Id'] = op[1]
            if op[2] is not None:
                kw['Q_Id'] = op[2]
            try:
                made.append(m.new('C', **kw))
            except x.RelateException:
                refused += 1
                if len(mcC.storage) > before:
                    made.append(mcC.storage[-1])
        elif op[0] == 'delc':
            live = list(mcC.storage)
            if live:
                x.delete(live[op[1] % len(live)])
        else:
            live = list(mcC.storage)
            if live:
                c = live[op[1] % len(live)]
                other = x.navigate_one(c).P[11]() if op[2] == 'R11' else x.navigate_one(c).Q[12]()
                if other is not None:
                    x.unrelate(c, other, 11 if op[2] == 'R11' else 12)
        pools = dict((k, list(m.find_metaclass(k).storage)) for k in ('P', 'Q', 'C'))
        for ass, (sk, tk) in ((a1, ('C', 'P')), (a2, ('C', 'Q'))):
            for link, (fk, tk2) in ((ass.source_link, (tk, sk)), (ass.target_link, (sk, tk))):
                for inst, partners in link.items():
                    if not len(partners):
                        continue          # an entry without partners links nothing (not observable)
                    if not any(inst is p for p in pools[fk]):
                        fails.append({'sig': 'dead-reachable', 'what': 'after %s the links of %s mention an instance of %s that is not in '
                                      'its pool (created by a refused new()? %s)' % (case['ops'][:step + 1], ass.rel_id, fk,
                                                                                     any(inst is c for c in made))})
                    for p in partners:
                        if not any(p is q for q in pools[tk2]):
                            fails.append({'sig': 'dead-reachable', 'what': 'after %s navigating %s reaches an instance of %s that is not '
                                          'in its pool (created by a refused new()? %s)' % (case['ops'][:step + 1], ass.rel_id, tk2,
                                                                                           any(p is c for c in made))})
                    if len(partners) > 1:
                        fails.append({'sig': 'unbounded', 'what': 'after %s a single-valued end of %s holds %d partners'
                                      % (case['ops'][:step + 1], ass.rel_id, len(partners))})
            s_pairs = set((id(k), id(p)) for k, ps in ass.source_link.items() for p in ps)
            t_pairs = set((id(p), id(k)) for k, ps in ass.target_link.items() for p in ps)
            if s_pairs != t_pairs:
                fails.append({'sig': 'asymmetric', 'what': 'after %s association %s navigates asymmetrically' % (case['ops'][:step + 1], ass.rel_id)})
        if fails:
            break
    stats['refused_new'] = refused
    return {'obs': [], 'd_fail': fails[:3], 'nontrivial': refused > 0, 'key': 'newref/%r' % (case['ops'],), 'stats': stats,
            'model_line': None}


def _run_churn(case):
    """D-only: instances are created, related, deleted and FORGOTTEN (the harness keeps no reference, the garbage collector
    runs), then fresh instances of the same classes are created and related: a fresh instance is a live instance — whatever
    the library remembers about deleted ones must not be confused with it (e.g. by address)."""
    import gc
    import xtuml as x
    m = x.MetaModel(x.IntegerGenerator())
    m.define_class('A', [('Id', 'unique_id'), ('B_Id', 'unique_id')])
    m.define_class('B', [('Id', 'unique_id')])
    m.define_class('N', [('Id', 'unique_id'), ('Next_Id', 'unique_id')])
    m.define_association('R1', 'A', ['B_Id'], True, True, '', 'B', ['Id'], False, True, '').formalize()
    m.define_association('R2', 'N', ['Next_Id'], False, True, 'precedes', 'N', ['Id'], False, True, 'succeeds').formalize()
    fails = []
    for rnd in range(case['rounds']):
        for _ in range(case['batch']):
            a, b = m.new('A'), m.new('B')
            x.relate(a, b, 1)
            n1, n2 = m.new('N'), m.new('N')
            x.relate(n1, n2, 2, 'precedes')
            for inst in ((a, n1) if case['which'] == 0 else (a, b, n1, n2) if case['which'] == 1 else (b, n2)):
                x.delete(inst)
            del a, b, n1, n2
        gc.collect()
        fresh = []
        for _ in range(case['batch']):
            a, b, n1, n2 = m.new('A'), m.new('B'), m.new('N'), m.new('N')
            fresh.append((a, b, n1, n2))
        for (a, b, n1, n2) in fresh:
            for what, f in (('relate(a, b, R1)', lambda: x.relate(a, b, 1)), ("relate(n1, n2, R2, 'precedes')", lambda: x.relate(n1, n2, 2, 'precedes'))):
                try:
                    f()
                except x.RelateException:
                    fails.append({'sig': 'outcome', 'what': 'round %d: %s of two FRESH unlinked instances was rejected with RelateException '
                                  'after earlier instances of the class had been deleted and forgotten' % (rnd, what)})
            if x.navigate_one(a).B[1]() is not b or x.navigate_one(n2).N[2, 'precedes']() is not n1 and x.navigate_one(n1).N[2, 'precedes']() is not n2:
                if not fails:
                    fails.append({'sig': 'links-differ', 'what': 'round %d: fresh instances are not linked as related' % rnd})
        if case['which'] == 2:
            for (a, b, n1, n2) in fresh:
                x.delete(a)
                x.delete(n1)
        del fresh
        if fails:
            break
    return {'obs': [], 'd_fail': fails[:3], 'nontrivial': True, 'key': 'churn/%r' % (sorted(case.items()),), 'stats': {'fam_churn': 1},
            'model_line': None}


def _run_compound(case):
    """D-only: an association formalised over a COMPOUND key (two or three key pairs, identifying values all different):
    every referential attribute of a related instance reads ITS OWN identifying attribute of the partner, unset when
    unrelated; navigation is symmetric.  (The Lean model gives a class one own id, so this shape has no K leg.)"""
    import random as _random
    import xtuml as x
    r = _random.Random(case['seed'])
    nk = case['nk']
    keys = ['K%d' % i for i in range(nk)]
    refs = ['S_%s' % k for k in keys]
    m = x.MetaModel(x.IntegerGenerator())
    m.define_class('S', [(k, 'integer') for k in keys])
    m.define_class('B', [('Id', 'unique_id')] + [(rk, 'integer') for rk in refs])
    m.define_association('R1', 'B', refs, True, True, '', 'S', keys, False, True, '').formalize()
    shelves = [m.new('S', **dict((k, 100 * (i + 1) + 10 * j + r.randint(0, 9)) for j, k in enumerate(keys))) for i in range(3)]
    books = [m.new('B') for _ in range(4)]
    link = {}
    fails = []

    def check(step):
        for bi, b in enumerate(books):
            s = link.get(bi)
            for rk, k in zip(refs, keys):
                want = getattr(shelves[s], k) if s is not None else None
                got = getattr(b, rk)
                if got != want:
                    fails.append({'sig': 'referential-read', 'what': 'compound key %s: after %s book %d (%s) reads %s = %r, the identifying '
                                  'attribute %s of its shelf is %r' % (list(zip(refs, keys)), step, bi,
                                                                       'on shelf %d' % s if s is not None else 'unrelated', rk, got, k, want)})
            nav = x.navigate_one(b).S[1]()
            if (nav is not None) != (s is not None) or (s is not None and nav is not shelves[s]):
                fails.append({'sig': 'links-differ', 'what': 'compound key: after %s book %d navigates to %r' % (step, bi, nav)})
        for si, s in enumerate(shelves):
            back = sorted(books.index(b) for b in x.navigate_many(s).B[1]())
            if back != sorted(bi for bi, sj in link.items() if sj == si):
                fails.append({'sig': 'asymmetric', 'what': 'compound key: after %s shelf %d navigates to books %s' % (step, si, back)})
    steps = []
    for _ in range(case['len']):
        bi, si = r.randrange(len(books)), r.randrange(len(shelves))
        if link.get(bi) is None:
            x.relate(books[bi], shelves[si], 1)
            link[bi] = si
            steps.append(('relate', bi, si))
        else:
            x.unrelate(books[bi], shelves[link[bi]], 1)
            steps.append(('unrelate', bi, link[bi]))
            link[bi] = None
        check(steps)
        if fails:
            break
    return {'obs': [], 'd_fail': fails[:3], 'nontrivial': True, 'key': 'compound/%r' % (sorted(case.items()),), 'stats': {'fam_compound': 1},
            'model_line': None}


def _navigate_check(model, schema, orc, fail, step):
    cname = lambda k: schema['classes'][k]['name']
    keys = {}
    for a in schema['assocs']:
        for key in ((a['tgt'], a['src'], a['rel'], a['tphrase']), (a['src'], a['tgt'], a['rel'], a['sphrase'])):
            keys[key] = keys.get(key, 0) + 1

    def nav(x, k2, rel, ph):
        res = list(mc._xtuml.navigate_many(model.insts[x]).nav(cname(k2), rel, ph)())
        out = []
        for r in res:
            try:
                out.append(model.idx(r))
            except Exception:
                out.append('not-an-instance:%r' % (r,))
        return out
    live = [i for i in range(len(orc.kinds)) if orc.live[i]]
    for ai, a in enumerate(schema['assocs']):
        for (frm, to, ph, pick) in ((a['tgt'], a['src'], a['tphrase'], lambda x: [y for (xx, y) in orc.pairs[ai] if xx == x]),
                                    (a['src'], a['tgt'], a['sphrase'], lambda y: [x for (x, yy) in orc.pairs[ai] if yy == y])):
            if keys[(frm, to, a['rel'], ph)] != 1:
                continue            # two associations under one (kinds, number, phrase) key: which one answers is not stated
            for x in live:
                if orc.kinds[x] != frm:
                    continue
                try:
                    got = nav(x, to, a['rel'], ph)
                except Exception as e:
                    fail('navigate-raises', 'navigate_many(%d).%s[%s.%r] raised %s: %s' % (x, cname(to), a['rel'], ph, type(e).__name__, e), step)
                    return
                wantp = pick(x)
                if sorted(map(str, got)) != sorted(map(str, wantp)) or any(not isinstance(g, int) or not orc.live[g] for g in got):
                    fail('navigate-differs', 'navigate_many(%d).%s[%s.%r] reaches %r, the relational reading gives %r'
                         % (x, cname(to), a['rel'], ph, got, sorted(wantp)), step)
                    return
    # across an association class in ONE step: a1, a2 formalised in the same link class under one number
    for i1, a1 in enumerate(schema['assocs']):
        for i2, a2 in enumerate(schema['assocs']):
            if i1 == i2 or a1['rel'] != a2['rel'] or a1['src'] != a2['src'] or a1['tgt'] == a2['tgt'] or a1['src'] in (a1['tgt'], a2['tgt']):
                continue
            if a1['tphrase'] != a2['tphrase'] or (a1['tgt'], a2['tgt'], a1['rel'], a1['tphrase']) in keys:
                continue
            for x in live:
                if orc.kinds[x] != a1['tgt']:
                    continue
                wantp = []
                for (xx, l) in orc.pairs[i1]:
                    if xx == x:
                        wantp += [y for (y, ll) in orc.pairs[i2] if ll == l and y not in wantp]
                try:
                    got = nav(x, a2['tgt'], a1['rel'], a1['tphrase'])
                except Exception as e:
                    fail('navigate-raises', 'navigate_many(%d).%s[%s] across the association class raised %s: %s'
                         % (x, cname(a2['tgt']), a1['rel'], type(e).__name__, e), step)
                    return
                if sorted(map(str, got)) != sorted(map(str, wantp)) or any(not isinstance(g, int) or not orc.live[g] for g in got):
                    fail('navigate-differs', 'navigate_many(%d).%s[%s] across the association class reaches %r, the relational '
                         'reading gives %r' % (x, cname(a2['tgt']), a1['rel'], got, sorted(wantp)), step)
                    return


def run_impl(case):
    if case.get('fam') == 'compound':
        return _run_compound(case)
    if case.get('fam') == 'newref':
        return _run_newref(case)
    if case.get('fam') == 'churn':
        return _run_churn(case)
    schema = shape_of(case['shape'])
    route = case.get('route')
    k0 = case['prefix'] if route in ('sql', 'late') else 0
    late_api = route == 'late' and case['how'] == 'api'       # the prefix runs through the API, formalize() in between
    if route == 'sql':
        model = mc.Model.from_sql(schema, case['ops'][:k0])
    elif late_api:
        model = _LateModel(schema, case['formal'])
    elif route == 'late':
        model = _LateModel.batch(schema, case['ops'][:k0], case['how'] == 'batch-each')
    else:
        model = mc.Model(schema)
    orc = Oracle(schema)
    obs = []
    fails = []
    accepted = rejected = 0
    deleted_linked = False
    revived = set()          # deleted instances that an ACCEPTED relate was given as argument afterwards (use-after-delete)
    prev_dump = None
    pending_undo = None      # (dump before a successful relate of a new pair, op)
    stats = {'fam_' + case['fam']: 1}

    def fail(sig, what, step):
        if len(fails) < 3:
            fails.append({'sig': sig, 'what': '%s (shape %s, after %d ops: %s)%s' % (
                what, case['shape'], step + 1, case['ops'][:step + 1][-6:],
                '; the first %d ops were LOADED FROM TEXT: %s' % (k0, ' '.join(model.sql.split('\n'))) if route == 'sql' else
                '; LATE FORMALISATION, prefix of %d ops: %s' % (k0, model.how) if route == 'late' else '')})

    if k0 and not late_api:
        # the loader-built state must be the state the prefix reaches through the API: the oracle replays the prefix, the
        # state predicates below are checked on the loaded state before the first op, and the state is the model's
        # observation after the last prefix op (K)
        for op in case['ops'][:k0]:
            if orc.expected(op) != 'ok':
                raise ValueError('prefix op %r is not an accepted one' % (op,))
    for step, op in enumerate(case['ops']):
        if late_api and step < k0:
            # the prefix of the late route: associations are formalised when their point is reached; relate / unrelate /
            # delete / new answer as the statement says whether or not an association is formalised; the state
            # predicates are checked from the end of the prefix on, when every association is formalised
            model.formalize_due(step)
            want = orc.expected(op)
            got = model.apply(op)
            if str(got) != want:
                fail('outcome', '%s gave %s, the statement requires %s' % (op, got, want), step)
            if step < k0 - 1:
                continue
            model.formalize_due(k0)
        elif step < k0 - 1:
            continue
        elif step == k0 - 1:
            got, want = Sym('ok'), 'ok'          # the loader-built state, observed where the API route is after the prefix
            stats['loaded_links'] = sum(len(ps) for ps in orc.pairs)
        else:
            before = model.deep_dump()
            if op[0] == 'delete' and orc.live[op[1]]:
                deleted_linked |= any(op[1] in p for ps in orc.pairs for p in ps)
            related_before = None
            if op[0] == 'relate':
                cands = orc.resolve(orc.kinds[op[1]], orc.kinds[op[2]], op[3], op[4])
                if cands:
                    i, d = cands[0]
                    pr = (op[1], op[2]) if d == 'fwd' else (op[2], op[1])
                    related_before = pr in orc.pairs[i]
            want = orc.expected(op)
            got = model.apply(op)
            after = model.deep_dump()
            stats['op_' + op[0]] = stats.get('op_' + op[0], 0) + 1
            if op[0] in ('relate', 'unrelate'):
                if not isinstance(op[3], str):
                    kind = 'rel_id_integer_known' if orc.resolve_rel(op[3]) else 'rel_id_integer_unknown'
                else:
                    kind = 'rel_id_text_known' if orc.resolve_rel(op[3]) else 'rel_id_text_unknown'
                stats[kind] = stats.get(kind, 0) + 1
            stats['out_' + str(got)] = stats.get('out_' + str(got), 0) + 1
            if str(got) != want:
                fail('outcome', '%s gave %s, the statement requires %s' % (op, got, want), step)
            if op[0] == 'relate' and str(got) == 'ok':
                revived.update(i for i in (op[1], op[2]) if not orc.live[i])
            if str(got) != 'ok':
                rejected += 1
                if after != before:
                    fail('rejected-not-atomic', 'rejected %s (%s) changed the model' % (op, got), step)
            elif op[0] in ('relate', 'unrelate'):
                accepted += 1
            if op[0] == 'relate' and str(got) == 'ok' and related_before and after != before:
                fail('relate-not-idempotent', 'relating an already related pair %s changed the model' % (op,), step)
            # undo: successful relate of a new pair immediately followed by the matching successful unrelate
            if pending_undo is not None and op[0] == 'unrelate' and str(got) == 'ok' and op[1:] == pending_undo[1][1:]:
                if after != pending_undo[0]:
                    fail('unrelate-does-not-undo', 'relate then unrelate of %s did not restore the model' % (op[1:],), step)
            pending_undo = (before, op) if (op[0] == 'relate' and str(got) == 'ok' and related_before is False) else None
        # state predicates on the implementation's own links
        links = model.links()
        pools = model.pools()
        live = set(i for p in pools for i in p)
        # the pools by the statement: the live instances of each class (from the history, not from the implementation),
        # also as MetaModel.select_many answers them
        want_pools = [[i for i in range(len(orc.kinds)) if orc.kinds[i] == k and orc.live[i]] for k in range(len(schema['classes']))]
        # (the ORDER of a pool is C09's subject, not this property's: compared as sets, each live instance once)
        if str(got) == want and [sorted(p) for p in pools] != want_pools:
            fail('pool-differs', 'the instance pools are %r, the live instances are %r' % (pools, want_pools), step)
        if step == len(case['ops']) - 1 or op[0] == 'delete':
            sel = [sorted(model.idx(i) for i in model.m.select_many(c['name'])) for c in schema['classes']]
            if sel != [sorted(p) for p in pools]:
                fail('pool-differs', 'select_many gives %r, the pools hold %r' % (sel, pools), step)
        for ai, (src, tgt) in enumerate(links):
            a = schema['assocs'][ai]
            s_pairs = set((e[0], p) for e in src for p in e[1:])
            t_pairs = set((p, e[0]) for e in tgt for p in e[1:])
            if s_pairs != t_pairs:
                fail('asymmetric', 'association %d navigates asymmetrically: source_link %s target_link %s' % (ai, src, tgt), step)
            for e in src + tgt:
                if len(e) < 2:
                    # not observable at the property's observation points (navigation, referential reads, selections,
                    # exceptions): counted, not demanded (docs/false-alarm-test-1.md, rewrite C02d)
                    stats['empty_link_entries'] = stats.get('empty_link_entries', 0) + 1
                if len(set(e[1:])) != len(e[1:]):
                    fail('duplicate-partner', 'association %d lists a partner twice %s' % (ai, e), step)
                for i in (e if len(e) >= 2 else ()):      # an entry without partners links nothing
                    if i not in live:
                        if i in revived:
                            fail('use-after-delete', 'relate() accepted the deleted instance %d as argument; association %d '
                                 'reaches it again: %s' % (i, ai, e), step)
                        else:
                            fail('dead-reachable', 'association %d reaches deleted instance %d: %s' % (ai, i, e), step)
            if not a['smany'] and any(len(e) > 2 for e in src):
                fail('unbounded', 'single-valued source end of association %d holds several partners %s' % (ai, src), step)
            if not a['tmany'] and any(len(e) > 2 for e in tgt):
                fail('unbounded', 'single-valued target end of association %d holds several partners %s' % (ai, tgt), step)
            if s_pairs != set(orc.pairs[ai]) and str(got) == want:
                fail('links-differ', 'association %d holds %s, the relational reading gives %s' % (
                    ai, sorted(s_pairs), sorted(orc.pairs[ai])), step)
        # the property's observation point: xtuml.navigate_many from both ends of every association (and across an
        # association class in one step) reaches exactly the partners of the relational reading, all of them live instances;
        # done at the end of a history and after every fourth operation (as sets: order is C09's subject)
        if str(got) == want and (step == len(case['ops']) - 1 or step % 4 == 3):
            _navigate_check(model, schema, orc, fail, step)
        # no instance keeps a value of its own under a referential attribute (it would be read under other spellings of
        # the name and by where_eq, beside the linked identifying value)
        # (on the late route an instance created before formalize() keeps what it stored then: the statement speaks of
        # what the attribute READS, checked below)
        for (i, key, v) in (model.ref_copies() if route != 'late' else ()):
            fail('referential-copy-in-dict', 'instance %d keeps %r = %r in its own dictionary although the attribute '
                 'is referential' % (i, key, v), step)
        # referential reads
        refs = model.refs()
        for (k, attr), vals in zip(mc.refattrs_of(schema), refs):
            for inst_i, v in zip(pools[k], vals):
                cands = set()
                for ai, a in enumerate(schema['assocs']):
                    if a['src'] != k:
                        continue
                    for rk, pk in zip(a['skeys'], a['tkeys']):
                        if rk != attr:
                            continue
                        partners = [e[1:] for e in links[ai][1] if e[0] == inst_i]
                        if partners and partners[0]:
                            other = model.insts[partners[0][0]]
                            pv = getattr(other, pk)     # may itself be referential and unset (a chain of keys)
                            cands.add(pv if pv is not None else Sym('none'))
                if not cands:
                    if not (v == Sym('none')):
                        fail('referential-read', '%s.%s of unlinked instance %d reads %r, not unset' % (
                            schema['classes'][k]['name'], attr, inst_i, v), step)
                elif v not in cands:
                    fail('referential-read', '%s.%s of instance %d reads %r, linked identifying values are %s' % (
                        schema['classes'][k]['name'], attr, inst_i, v, sorted(map(repr, cands))), step)
        if route == 'late':
            names = _id_names(model, schema, orc.kinds)
            refs = [[v if isinstance(v, Sym) else names.get(v, ['not-an-own-identifier', v]) for v in vals] for vals in refs]
        obs.append([got, pools, links, refs])
    nontrivial = (accepted > 0 and rejected > 0) or deleted_linked
    if route == 'late':
        stats['late_' + case['how']] = 1
        stats['late_preexisting_instances'] = model.preexisting
        nontrivial = nontrivial and model.preexisting > 0
        return {'obs': obs, 'd_fail': fails, 'nontrivial': nontrivial,
                'key': '%s/late/%s/%s/%s/%s' % (case['shape'], case['how'], k0, case.get('formal'), case['ops']), 'stats': stats}
    return {'obs': obs, 'd_fail': fails, 'nontrivial': nontrivial,
            'key': '%s/%s' % (case['shape'], case['ops']), 'stats': stats}


def model_line(case):
    if case.get('fam') in ('newref', 'churn', 'compound'):
        return None              # D-only families
    if any(o[0] in ('relate', 'unrelate') and not isinstance(o[3], str) for o in case['ops']):
        return None              # an integer as association identifier: the model's identifiers are texts (D only)
    return mc.meta_line(shape_of(case['shape']), case['ops'])


def model_obs(case, ans):
    if case.get('route') in ('sql', 'late'):
        return ans[case['prefix'] - 1:]      # the loaded / late-formalised state is the model's state after the last prefix op
    return ans


def shrink_candidates(case):
    ops = case['ops']
    if case.get('route') == 'late':
        # ops of the prefix as well (the formalisation points move with it)
        for i in range(case['prefix'] - 1, -1, -1):
            if ops[i][0] == 'new' or case['prefix'] < 2:
                continue
            c = dict(case)
            c['ops'] = ops[:i] + ops[i + 1:]
            c['prefix'] = case['prefix'] - 1
            if 'formal' in case:
                c['formal'] = [f - 1 if f > i else f for f in case['formal']]
            yield c
    for i in range(len(ops) - 1, case.get('prefix', 0) - 1, -1):
        if ops[i][0] == 'new':
            continue          # instance numbering depends on the creation ops
        c = dict(case)
        c['ops'] = ops[:i] + ops[i + 1:]
        yield c
