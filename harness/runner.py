"""Entry point behind ./check:  runner.py <Cxx> [--tier quick|thorough] [--replay FILE]

Verdict logic (DESIGN.md 2.3), identical for all properties:
  exit 0  every Lean obligation checks, correspondence (K) holds on every case, the property
          predicate (D) holds on every case (known open findings are printed, not counted)
  exit 1  + `VIOLATION property=<id> replay=<path>`: D failed on a concrete input (replay holds it), or an
          obligation / the correspondence is broken and the enlarged search found no failing input
          (line ends with `no-failing-input-found`, replay names what no longer checks)
  exit 2  the machinery itself failed (crash, timeout); never a verdict
"""
import argparse
import importlib
import json
import multiprocessing
import os
import signal
import sys
import time
import traceback
from pathlib import Path

HERE = Path(__file__).resolve().parent
sys.path.insert(0, str(HERE))

import common  # noqa: E402
import sexp    # noqa: E402
from common import HarnessError, VERIF  # noqa: E402


class Ctx(object):
    def __init__(self, prop, tier, seed):
        self.prop = prop
        self.tier = tier
        self.seed = seed
        self.rng = common.Prng(seed).fork(prop)
        self.ws = None
        self.lean = None
        self.deadline = None
        self.search = False
        self.stats = {}

    def quick(self):
        return self.tier == 'quick'

    def pick(self, quick, thorough):
        """size parameter by tier (search mode uses the thorough size)"""
        return thorough if (self.tier == 'thorough' or self.search) else quick

    def count(self, key, n=1):
        self.stats[key] = self.stats.get(key, 0) + n

    def out_of_time(self):
        return self.deadline is not None and time.time() > self.deadline


_MOD = None
_REPO_COPY = None
MAX_FAILS = 12


class CaseTimeout(BaseException):
    pass


def _alarm(signum, frame):
    raise CaseTimeout()


def _worker(case):
    """run the implementation on one case under a watchdog: a case that does not finish within
    CASE_TIMEOUT_S is a *finding* (non-termination / super-linear time), not a harness crash"""
    limit = getattr(_MOD, 'CASE_TIMEOUT_S', 20)
    # the limit is CPU time of this worker (a loaded machine must not turn a 7 s case into "no termination":
    # docs/false-alarm-test-3.md, case 3); a wall-clock backstop of ten times the limit catches waiting (sleep, dead lock,
    # a child process that hangs)
    signal.signal(signal.SIGALRM, _alarm)
    signal.signal(signal.SIGPROF, _alarm)
    signal.setitimer(signal.ITIMER_PROF, limit)
    signal.setitimer(signal.ITIMER_REAL, 10 * limit)
    try:
        try:
            r = _MOD.run_impl(case)
            return ('ok', r)
        except CaseTimeout:
            # non-termination and super-linear time are deterministic; a stalled machine is not (false alarm met in round 10:
            # a 43-operation history of C02, milliseconds of work, ran into the backstop inside a memory-capped background
            # run at load 40).  The case is run ONCE more under the same limits; only a second timeout is a finding.
            signal.setitimer(signal.ITIMER_PROF, limit)
            signal.setitimer(signal.ITIMER_REAL, 10 * limit)
            r = _MOD.run_impl(case)
            if isinstance(r, dict):
                r.setdefault('stats', {})
                r['stats']['case_timed_out_once_and_finished_on_retry'] = r['stats'].get('case_timed_out_once_and_finished_on_retry', 0) + 1
            return ('ok', r)
    except CaseTimeout:
        return ('ok', {'obs': 'timeout', 'nontrivial': False,
                       'd_fail': [{'sig': 'no-termination', 'what': 'the implementation did not finish this case within %ss of CPU '
                                   'time (or %ss of wall-clock time)' % (limit, 10 * limit)}]})
    except Exception as e:
        # an exception escaping from the implementation's own code on an input of the property's domain is
        # a finding; an exception raised by harness code is a harness crash (exit 2)
        tb = traceback.extract_tb(sys.exc_info()[2])
        inner = tb[-1].filename if tb else ''
        if _REPO_COPY and os.path.realpath(inner).startswith(_REPO_COPY):
            return ('ok', {'obs': 'exception', 'nontrivial': False,
                           'd_fail': [{'sig': 'unexpected-exception:%s' % type(e).__name__,
                                       'what': 'the implementation raised %s: %s (at %s:%s)' % (
                                           type(e).__name__, str(e)[:200], os.path.basename(inner), tb[-1].lineno)}]})
        return ('crash', traceback.format_exc())
    finally:
        signal.setitimer(signal.ITIMER_PROF, 0)
        signal.setitimer(signal.ITIMER_REAL, 0)


def _model_line_of(mod, case, r):
    """the driver command of a case after run_impl answered r (None = no model counterpart); never raises for a case on
    which the implementation raised or timed out (see Run.process)"""
    if 'model_line' in r:
        return r['model_line']
    if not hasattr(mod, 'model_line'):
        return None
    if r.get('obs') in ('exception', 'timeout'):
        try:
            return mod.model_line(case)
        except Exception:
            return None
    return mod.model_line(case)


def _chunks(it, n):
    buf = []
    for x in it:
        buf.append(x)
        if len(buf) >= n:
            yield buf
            buf = []
    if buf:
        yield buf


class Run(object):
    def __init__(self, ctx, mod):
        self.ctx = ctx
        self.mod = mod
        self.d_fail = []        # (case, impl result)
        self.known = {}         # sig -> (what, count)
        self.k_fail = []        # (case, impl obs, model obs)
        self.crashes = []       # cases the harness could not evaluate while a tie was broken
        self.evaluations = 0
        self.validated = 0
        self.distinct = set()
        self.samples = []
        self.pool = None
        self.stopped_early = False
        self.jobs = 1
        self.step = 8
        self.findings = None

    def open_pool(self):
        jobs = int(os.environ.get('VERIF_JOBS', '0')) or min(multiprocessing.cpu_count(),
                                                              16 if self.ctx.tier == 'thorough' else 8)
        if getattr(self.mod, 'SERIAL', False) or jobs <= 1:
            return
        self.jobs = jobs
        self.step = 8 * jobs
        self.pool = multiprocessing.get_context('fork').Pool(jobs)

    def close_pool(self):
        if self.pool is not None:
            self.pool.close()          # no task is in flight here (see impl_batch)
            self.pool.join()
            self.pool = None

    def impl_batch(self, cases):
        """results for a prefix of `cases`; stops early once enough failures are in hand (a broken
        implementation may make every remaining case slow).  Work is handed to the pool in small slices
        and the early stop happens BETWEEN slices, so the pool is never torn down with tasks in flight
        (terminate()/join() with a busy task feeder can dead-lock in CPython)."""
        def unlisted(r):
            # failures that are not open known findings (those are printed, never a reason to stop early)
            fs = r[1].get('d_fail') or [] if r[0] == 'ok' else []
            f = self.findings
            return any(not (f and f.match(self.ctx.prop, df['sig'])) for df in fs)
        if self.pool is None:
            it = map(_worker, cases)
            out, bad = [], 0
            for r in it:
                out.append(r)
                if (r[0] == 'crash' and not self.ctx.lean.broken) or (unlisted(r) and bad + 1 >= MAX_FAILS):
                    break
                bad += 1 if unlisted(r) else 0
        else:
            out, bad = [], 0
            i, step = 0, self.step
            while i < len(cases):
                part = self.pool.map(_worker, cases[i:i + step], chunksize=max(1, step // (8 * self.jobs)))
                i += step
                out.extend(part)
                nbad = sum(1 for r in part if unlisted(r))
                bad += nbad
                if bad >= MAX_FAILS or (any(r[0] == 'crash' for r in part) and not self.ctx.lean.broken):
                    break
                # slices grow while everything is fine (less synchronisation), shrink on the first failure
                step = 8 * self.jobs if nbad else min(step * 2, 128 * self.jobs)
            self.step = step
        if len(out) < len(cases):
            self.close_pool()
            self.stopped_early = True
        return out

    def process(self, cases, use_model=True, findings=None):
        self.findings = findings
        ctx, mod = self.ctx, self.mod
        results = self.impl_batch(cases)
        cases = cases[:len(results)]
        lines, idx = [], []
        for i, (case, (st, r)) in enumerate(zip(cases, results)):
            if st == 'crash':
                # a crash of harness code while a tie to the source is broken (or raised by a guard as BrokenTie) is put down
                # to the changed implementation: recorded as a broken obligation, the case is skipped, the search goes on.
                # With every tie intact it is a defect of the machinery: exit 2.  (docs/audit-round4.md, finding 2)
                if ctx.lean.broken or 'BrokenTie' in r.splitlines()[-1]:
                    note = 'harness could not evaluate a case: %s' % r.strip().splitlines()[-1][:300]
                    if note not in ctx.lean.broken:
                        ctx.lean.broken.append(note)
                    self.crashes.append({'case': common.jsonable(case), 'traceback': r[-3000:]})
                    continue
                raise HarnessError('run_impl crashed on case %s:\n%s' % (json.dumps(common.jsonable(case))[:600], r))
            self.evaluations += 1
            for k, v in (r.get('stats') or {}).items():
                ctx.count(k, v)
            if r.get('nontrivial'):
                self.distinct.add(r.get('key') or json.dumps(common.jsonable(case), sort_keys=True))
            if len(self.samples) < 3 and r.get('nontrivial'):
                self.samples.append({'case': common.jsonable(case), 'observed': common.jsonable(r.get('obs'))})
            for df in (r.get('d_fail') or []):
                what = findings.match(ctx.prop, df['sig']) if findings else None
                if what is not None:
                    w, c = self.known.get(df['sig'], (what, 0))
                    self.known[df['sig']] = (w, c + 1)
                else:
                    self.d_fail.append((case, df, r))
            if use_model and ctx.lean.driver is not None and (hasattr(mod, 'model_line') or 'model_line' in r):
                # a harness may return the driver command from run_impl (when it is only known after the run)
                # never a harness crash for a case on which the implementation raised / timed out (already a D failure)
                ln = _model_line_of(mod, case, r)
                if ln is not None:
                    lines.append(ln)
                    idx.append(i)
        if lines:
            answers = ctx.lean.run_driver(lines)
            for i, ans in zip(idx, answers):
                case, (st, r) = cases[i], results[i]
                try:
                    mobs = mod.model_obs(case, sexp.loads(ans))
                except Exception as e:
                    mobs = ('undecodable', ans[:300], str(e))
                iobs = r.get('obs')
                self.validated += 1
                if mobs != iobs:
                    # A disagreement on a case that also shows an open known finding is counted like any other: the models
                    # reproduce the known defects, so a disagreement there is a regression stacked on the defect.  Only a
                    # property module that declares K_EXEMPT_SIGS (signatures for which its model deliberately does NOT
                    # reproduce the defect) gets the exemption, and the exempted cases are counted.
                    exempt = getattr(mod, 'K_EXEMPT_SIGS', ())
                    if any(df['sig'] in exempt and findings and findings.match(ctx.prop, df['sig'])
                           for df in (r.get('d_fail') or [])):
                        ctx.count('k_exempt_known_finding')
                        continue
                    self.k_fail.append((case, iobs, mobs))


def write_replay(ctx, name, payload):
    d = VERIF / 'replays' / ctx.prop
    d.mkdir(parents=True, exist_ok=True)
    p = d / name
    p.write_text(json.dumps(common.jsonable(payload), indent=1, sort_keys=True))
    return p


def shrink(mod, case, pred):
    """delta-minimise with the property's own `shrink_candidates(case)` if it has one"""
    if not hasattr(mod, 'shrink_candidates'):
        return case
    cur = case
    improved = True
    budget = 400
    t_end = time.time() + 90          # a failing case may be slow (time-outs): bound the minimisation
    while improved and budget > 0 and time.time() < t_end:
        improved = False
        for cand in mod.shrink_candidates(cur):
            budget -= 1
            if budget <= 0 or time.time() > t_end:
                break
            try:
                if pred(cand):
                    cur = cand
                    improved = True
                    break
            except Exception:
                continue
    return cur


def write_evidence(ctx, run, t0, violations, extra_assumptions=()):
    lean = ctx.lean
    obligations = len(lean.obligations)
    discharged = sum(1 for o in lean.obligations if o['ok'])
    samples = run.samples or [{'note': 'no case marked non-trivial on this run'}]
    cov = {
        'obligations': obligations,
        'discharged': discharged,
        'checker_cmd': 'cd lean && lake build Props.%s && lake env lean <Audit: #print axioms for every theorem of Props/%s.lean>'
                       % (ctx.prop, ctx.prop) + (' && lake env leanchecker <%d modules: Props.%s and every project module it imports>'
                                                  % (len(lean.leanchecker_modules), ctx.prop) if lean.leanchecker_modules else ''),
        'ties_broken': list(lean.broken),
        'trusted_base': common.TRUSTED_BASE + list(getattr(run.mod, 'TRUSTED_EXTRA', [])),
        'theorems': [{'name': o['name'], 'axioms': o['axioms'], 'ok': o['ok']} for o in lean.obligations],
        'generated_tables_changed': lean.gen_changed,
        'broken_obligations': lean.broken,
        'evaluations': run.evaluations,
        'distinct_nontrivial': len(run.distinct),
        'rule': getattr(run.mod, 'RULE', ''),
        'samples': samples,
        'traces_validated_against_impl': run.validated,
        'correspondence_disagreements': len(run.k_fail),
        'distribution': dict(sorted(ctx.stats.items())),
        'timing': lean.timing,
        'exhaustive': bool(getattr(run.mod, 'EXHAUSTIVE', {}).get(ctx.tier, False)),
        'known_findings_hit': {k: v[1] for k, v in run.known.items()},
        'tree': _tree_identity(),
    }
    ev = {
        'property_id': ctx.prop,
        'tier': ctx.tier,
        'seed': ctx.seed,
        'level': 'proof',
        'coverage': cov,
        'assumptions': list(getattr(run.mod, 'ASSUMPTIONS', [])) + list(extra_assumptions),
        'wall_s': round(time.time() - t0, 2),
        'violations': violations,
    }
    if os.path.realpath(str(common.REPO)) == os.path.realpath('/repo') and not os.environ.get('PYXVERIF_LEAN_DIR'):
        d = VERIF / 'evidence'
    else:
        # a run against another tree ($PYXTUML_REPO: seeded regressions, scratch mutants) must not overwrite the
        # evidence of the repository itself
        d = VERIF / 'replays' / ctx.prop
    d.mkdir(parents=True, exist_ok=True)
    (d / ('%s.json' % ctx.prop)).write_text(json.dumps(common.jsonable(ev), indent=1))
    return ev


def _tree_identity():
    """which trees this run looked at (docs/audit-round4.md, finding 8): head commit and dirtiness of the repository under test
    and of the verification directory, a digest of the environment snapshot, the Lean directory used"""
    import hashlib
    import subprocess

    def git(d, *a):
        try:
            return subprocess.run(['git', '-C', str(d)] + list(a), stdout=subprocess.PIPE, stderr=subprocess.DEVNULL,
                                  timeout=20).stdout.decode().strip()
        except Exception:
            return ''
    out = {'repo_path': str(common.REPO), 'repo_head': git(common.REPO, 'rev-parse', 'HEAD'),
           'repo_dirty': bool(git(common.REPO, 'status', '--porcelain', '--untracked-files=no')),
           'verif_head': git(VERIF, 'rev-parse', 'HEAD'),
           'verif_dirty_outside_evidence': bool([l for l in git(VERIF, 'status', '--porcelain', '--untracked-files=no').splitlines()
                                                 if 'evidence/' not in l and 'seeded/' not in l]),
           'lean_dir': os.environ.get('PYXVERIF_LEAN_DIR', str(VERIF / 'lean'))}
    try:
        out['env_snapshot_sha'] = hashlib.sha256((VERIF / 'translator' / 'env_snapshot.json').read_bytes()).hexdigest()[:16]
    except Exception:
        out['env_snapshot_sha'] = ''
    return out


def do_replay(ctx, mod, path):
    payload = json.loads(Path(path).read_text())
    case = payload.get('case')
    if case is None:
        print('replay file names a broken obligation / correspondence, not a failing input:')
        print(json.dumps(payload, indent=1)[:6000])
        # still a violation iff an obligation still does not check or a stored disagreement still shows
        bad = bool(ctx.lean.broken)
        for b in ctx.lean.broken:
            print('STILL BROKEN: %s' % b)
        for ent in payload.get('correspondence_disagreements') or []:
            c = ent.get('case')
            if c is None:
                continue
            if hasattr(mod, 'case_from_json'):
                c = mod.case_from_json(c)
            st, r = _worker(c)
            if st != 'ok':
                print('run_impl failed on a stored disagreement case: %s' % (str(r)[:300],))
                bad = True
                continue
            for df in (r.get('d_fail') or []):
                print('PROPERTY PREDICATE FAILS: [%s] %s' % (df['sig'], df['what']))
                bad = True
            ln = _model_line_of(mod, c, r)
            if ctx.lean.driver is not None and ln is not None:
                ans = ctx.lean.run_driver([ln])[0]
                try:
                    mobs = mod.model_obs(c, sexp.loads(ans))
                except Exception as e:
                    mobs = ('undecodable', ans[:300], str(e))
                if mobs != r.get('obs'):
                    print('CORRESPONDENCE STILL DIFFERS on the stored case %s' % json.dumps(common.jsonable(c))[:400])
                    bad = True
        return 1 if bad else 0
    if hasattr(mod, 'case_from_json'):
        case = mod.case_from_json(case)
    st, r = _worker(case)
    if st != 'ok':
        raise HarnessError('run_impl crashed on the replayed case:\n%s' % r)
    print('case     :', json.dumps(common.jsonable(case))[:2000])
    print('impl obs :', json.dumps(common.jsonable(r.get('obs')))[:2000])
    bad = False
    for df in (r.get('d_fail') or []):
        print('PROPERTY PREDICATE FAILS: [%s] %s' % (df['sig'], df['what']))
        bad = True
    ln = _model_line_of(mod, case, r)
    if ctx.lean.driver is not None and ln is not None:
        ans = ctx.lean.run_driver([ln])[0]
        mobs = mod.model_obs(case, sexp.loads(ans))
        print('model obs:', json.dumps(common.jsonable(mobs))[:2000])
        if mobs != r.get('obs'):
            print('CORRESPONDENCE DIFFERS')
            bad = True
    return 1 if bad else 0


def _terminate(signum, frame):
    raise SystemExit(2)            # runs the `finally` clauses: pool shut down, scratch workspace removed


def main(argv=None):
    signal.signal(signal.SIGTERM, _terminate)
    ap = argparse.ArgumentParser()
    ap.add_argument('prop')
    ap.add_argument('--tier', default=os.environ.get('VERIF_TIER', 'quick'), choices=['quick', 'thorough'])
    ap.add_argument('--replay')
    args = ap.parse_args(argv)
    seed = int(os.environ.get('VERIF_SEED', '0') or 0)
    t0 = time.time()
    ctx = Ctx(args.prop, args.tier, seed)
    global _MOD
    ws = None
    run = None
    try:
        mod = importlib.import_module('prop_%s' % args.prop)
        _MOD = mod
        ws = common.Workspace()
        ctx.ws = ws
        log = lambda *a: print('[%s]' % args.prop, *a, flush=True)
        ctx.lean = common.LeanSide(ws, args.prop, log).prepare(thorough=(args.tier == 'thorough' and not args.replay))
        ws.activate()
        global _REPO_COPY
        _REPO_COPY = os.path.realpath(str(ws.repo))
        if hasattr(mod, 'setup'):
            mod.setup(ctx)
        if args.replay:
            rc = do_replay(ctx, mod, args.replay)
            return rc
        findings = common.Findings()
        run = Run(ctx, mod)
        budget = getattr(mod, 'BUDGET_S', {'quick': 240, 'thorough': 2400})[args.tier]
        ctx.deadline = time.time() + budget
        run.open_pool()
        corpus_dir = VERIF / 'corpus' / args.prop
        corpus = []
        if corpus_dir.exists():
            for f in sorted(corpus_dir.glob('*.json')):
                c = json.loads(f.read_text())
                corpus.append(mod.case_from_json(c) if hasattr(mod, 'case_from_json') else c)
        if corpus:
            run.process(corpus, findings=findings)
            ctx.count('corpus_cases', len(corpus))
        for chunk in _chunks(mod.generate(ctx), getattr(mod, 'CHUNK', 2000)):
            run.process(chunk, findings=findings)
            if run.stopped_early:
                break
            if ctx.out_of_time():
                ctx.count('stopped_by_time_budget')
                break
        broken = list(ctx.lean.broken)
        if run.k_fail:
            broken.append('correspondence: model and implementation differ on %d case(s)' % len(run.k_fail))
        # enlarged search when something is broken but no failing input is known yet
        if broken and not run.d_fail:
            log('broken: %s' % '; '.join(broken)[:800])
            log('searching for a concrete failing input (D only, enlarged budget)')
            ctx.search = True
            ctx.rng = common.Prng(seed).fork(args.prop, 'search')
            ctx.deadline = time.time() + getattr(mod, 'SEARCH_S', {'quick': 150, 'thorough': 900})[args.tier]
            gen = mod.search(ctx, broken) if hasattr(mod, 'search') else mod.generate(ctx)
            for chunk in _chunks(gen, getattr(mod, 'CHUNK', 2000)):
                run.process(chunk, use_model=False, findings=findings)
                if run.d_fail or ctx.out_of_time():
                    break
        run.close_pool()
        for sig, (what, c) in sorted(run.known.items()):
            print('KNOWN-FINDING: property=%s %s [sig=%s, hit %d times on this run]' % (args.prop, what, sig, c))
        rc = 0
        violations = 0
        if run.d_fail:
            case, df, r = run.d_fail[0]

            def guarded(c):
                st, r = _worker(c)       # same watchdog / exception policy as in the pool
                return r if st == 'ok' else {'obs': 'harness-crash', 'd_fail': []}

            def still(c):
                rr = guarded(c)
                return any(x['sig'] == df['sig'] for x in (rr.get('d_fail') or []))
            small = shrink(mod, case, still)
            rr = guarded(small)
            dfs = [x for x in (rr.get('d_fail') or []) if x['sig'] == df['sig']] or [df]
            payload = {'property': args.prop, 'kind': 'failing-input', 'signature': dfs[0]['sig'],
                       'what': dfs[0]['what'], 'case': small, 'impl_obs': rr.get('obs'),
                       'seed': seed, 'tier': args.tier, 'broken_obligations': broken,
                       'all_failures_on_run': len(run.d_fail)}
            p = write_replay(ctx, 'fail-%s-seed%d.json' % (dfs[0]['sig'].replace('/', '_')[:40], seed), payload)
            violations = len(run.d_fail)
            print('VIOLATION property=%s replay=%s' % (args.prop, p))
            rc = 1
        elif broken:
            payload = {'property': args.prop, 'kind': 'broken-obligation', 'broken': broken,
                       'theorems': ctx.lean.obligations, 'generated_tables_changed': ctx.lean.gen_changed,
                       'lake_output_tail': ctx.lean.build_output[-3000:],
                       'correspondence_disagreements': [
                           {'case': c, 'impl': i, 'model': m} for c, i, m in run.k_fail[:5]],
                       'cases_the_harness_could_not_evaluate': run.crashes[:3],
                       'seed': seed, 'tier': args.tier}
            p = write_replay(ctx, 'broken-seed%d.json' % seed, payload)
            violations = 1
            print('VIOLATION property=%s replay=%s no-failing-input-found' % (args.prop, p))
            rc = 1
        ev = write_evidence(ctx, run, t0, violations)
        cov = ev['coverage']
        log('%s tier=%s seed=%d: obligations %d/%d, cases %d (non-trivial distinct %d), validated against model %d, '
            'K-disagreements %d, D-failures %d, %.1fs' % ('PASS' if rc == 0 else 'FAIL', args.tier, seed,
                                                         cov['discharged'], cov['obligations'], cov['evaluations'],
                                                         cov['distinct_nontrivial'], cov['traces_validated_against_impl'],
                                                         len(run.k_fail), len(run.d_fail), time.time() - t0))
        return rc
    except HarnessError as e:
        print('HARNESS ERROR: %s' % e, file=sys.stderr)
        return 2
    except Exception as e:
        # setup() / generate() / model_line() raised.  While a tie to the source is broken (or when a guard raised BrokenTie, or
        # the exception passed through the workspace copy of the repository) this is put down to the changed implementation
        # and reported as a broken obligation; otherwise it is a defect of the machinery.
        tb = traceback.format_exc()
        through_repo = bool(_REPO_COPY) and any(os.path.realpath(f.filename).startswith(_REPO_COPY)
                                                for f in traceback.extract_tb(sys.exc_info()[2]))
        lean = getattr(ctx, 'lean', None)
        if lean is not None and not args.replay and (lean.broken or isinstance(e, common.BrokenTie) or through_repo):
            broken = list(lean.broken) + ['the harness could not run: %s: %s' % (type(e).__name__, str(e)[:300])]
            payload = {'property': args.prop, 'kind': 'broken-obligation', 'broken': broken, 'theorems': lean.obligations,
                       'generated_tables_changed': lean.gen_changed, 'traceback': tb[-4000:], 'seed': seed, 'tier': args.tier}
            p = write_replay(ctx, 'broken-seed%d.json' % seed, payload)
            print('VIOLATION property=%s replay=%s no-failing-input-found' % (args.prop, p))
            print('[%s] FAIL tier=%s seed=%d: %s' % (args.prop, args.tier, seed, broken[-1]))
            return 1
        sys.stderr.write(tb)
        return 2
    finally:
        if run is not None:
            run.close_pool()
        if ws is not None:
            ws.cleanup()


if __name__ == '__main__':
    sys.exit(main())
