"""C05 — Prebuild followed by text generation reproduces the program.

A case is a name-resolved OAL action body (harness/gen_oal_action.py: abstract program + surface style) placed
in one of four homes (function, bridge, operation, derived attribute) of a synthetic ooaofooa model.

  impl   text1 --oal.parse--> tree1 ;  prebuild_action / prebuild_model ; gen_text_action --> text2 ;
         text2 --oal.parse--> tree2 ;  text2 prebuilt again in a fresh model --> text3
  D      (i)  text2 parses;  (ii) canon(tree1) == canon(tree2), compared strictly (every field, every length);
         (iii) text3 == text2.   canon is implemented here in Python, independently of the Lean model.
  K      tokens of text2 (real PLY lexer) == Lean genTokens(canon tree1);
         canon(tree2) == Lean parseGen(those tokens);  Python canon(tree1) == Lean canon(tree1);
         Lean `supported` holds of the normal form (the case lies in the theorems' domain).
"""
import hashlib
import random

import gen_oal_action as G
import oal_sexp
from sexp import Sym, dumps

PROP = 'C05'
RULE = ('random name-resolved action bodies (quick: 1-10 top-level statements, thorough: up to 25; nesting depth <= 3) '
        'over assignments to transients / attributes / self attributes / array elements (1-2 dimensions), instance-handle copies, if/elif/else, while, '
        'for each, break/continue, create (with and without variable), delete, relate/unrelate (+phrase, +using), '
        'select any/many from instances (+where with selected), select one/any/many related by 1-3 step chains '
        '(+where), return, control stop, function/bridge/class-operation/instance-operation invocations as statements '
        'and as values with 0-3 named parameters, parameter reads (also of user-defined types), enumerators, qualified '
        'constants, in the four homes; every fifth body (plus focused families) also holds event statements - generate to '
        'class / assigner / creator / instance, create event instance, generate <event variable>, with 0-3 data items; a '
        'sixth of the fresh names re-use a name whose block has ended (a new variable); '
        'plus one focused family per statement kind and home; about a quarter of the variable / handle / set names are the name of another variable of the body in a different letter case (x4 / X4: distinct variables, possibly of other kind or type, also across nested blocks; neither canon folds identifier case); the model has enumerations sharing enumerator names, a constant named like an enumerator and two constant specifications with a constant of the same name, all read in one body; string literals hold backslashes, percent signs, ticks, tabs and comment openers (OAL strings have no escapes); instance handles / sets / loop and event variables are sometimes NAMED LIKE a constant of the model (read after the select / create that declares them); the named actual parameters of about 40 % of the calls with two or more parameters are written in another order than the declaration (statement, value and nested positions); surface spelling varied (keyword case, assign/then/loop/'
        'instances of, ticked or bare phrases, redundant parentheses, comments). Non-trivial: >= 2 statements and >= 12 '
        'tokens regenerated; distinct = distinct body text per home')
EXHAUSTIVE = {'quick': False, 'thorough': False}
ASSUMPTIONS = [
    'programs are name-resolved against the synthetic base model (every class, attribute, relationship number, '
    'function, bridge, operation, parameter, enumerator, constant exists; external-entity and class key letters are '
    'disjoint; identifiers are not OAL keywords; relationship numbers are written canonically R<n>)',
    'event statements always state the event meaning (the regenerated text prints the meaning of the model); polymorphic '
    'events (E*) and `generate` of anything but a plain event variable are not generated',
    'port messages (send), structured-type members, arrays of instance handles and bare (unqualified) constant names are '
    'outside the generated domain',
    'PLY lexing/LALR parsing is exercised, not modelled: the Lean parser is a recursive-descent parser for the '
    'generator output language, tied to the real parser by the correspondence run',
]
TRUSTED_EXTRA = ['harness/gen_oal_action.py (program generator, base model, Python canon and strict tree comparator)',
                 'harness/oal_sexp.py (generic tree encoder)']
CHUNK = 400
CASE_TIMEOUT_S = 30
BUDGET_S = {'quick': 60, 'thorough': 780}

_rig = None
_EES = G.ee_names()
_CLASSES = G.class_names()


def setup(ctx):
    global _rig
    _rig = G.Rig()


def _case(rng, i, home, size, feats=None, vary=True, events=False, bare=False, structs=False):
    g = G.ProgramGen(rng, home, size, feats, events, bare, structs)
    prog = g.program()
    return {'home': home, 'prog': prog, 'style': rng.randint(0, 2 ** 30), 'vary': vary,
            'via_model': rng.random() < 0.15, 'events': events, 'gstats': dict(g.stats)}


FOCUS = [['assign'], ['assign', 'array'], ['array', 'assign'], ['assign', 'if'], ['assign', 'while', 'break', 'continue'], ['create', 'delete'],
         ['create', 'relate', 'unrelate'], ['select_from', 'select_from_where'],
         ['select_from', 'create', 'select_rel', 'select_rel_where'], ['select_from', 'for', 'assign'],
         ['invoke'], ['assign_call'], ['create', 'select_from', 'assign_inst'], ['create', 'attr', 'self_attr'],
         ['return', 'control'], ['create_nv']]


EVENT_FOCUS = [['gen_evt'], ['create_evt', 'gen_pre'], ['create', 'gen_evt', 'create_evt', 'gen_pre'],
               ['assign', 'create_evt', 'if', 'gen_pre']]


def generate(ctx, n_quick=1350, multi=True, bare=False):
    rng = ctx.rng.fork('focus')
    per = ctx.pick(3, 30)
    for fi, feats in enumerate(FOCUS):
        for home in G.HOMES:
            for j in range(per):
                yield _case(rng.fork(fi, home, j), 0, home, rng.fork(fi, home, j, 's').randint(2, 6), set(feats),
                            bare=bare and 'array' in feats)
    for fi, feats in enumerate(EVENT_FOCUS):
        for home in G.HOMES:
            for j in range(per):
                yield _case(rng.fork('e', fi, home, j), 0, home, rng.fork('e', fi, home, j, 's').randint(2, 6),
                            set(feats), events=True)
    rng = ctx.rng.fork('multi')
    for i in range(ctx.pick(40, 1000) if multi else 0):
        r = rng.fork(i)
        common = r.random() < 0.5
        g = G.ProgramGen(r, 'common' if common else 'function', r.randint(1, 6), None, r.random() < 0.3)
        yield {'multi': True, 'home': 'function', 'homes': list(MULTI_ALL if common else MULTI_PARAM), 'prog': g.program(),
               'style': r.randint(0, 2 ** 30), 'vary': r.random() < 0.7, 'gstats': dict(g.stats)}
    rng = ctx.rng.fork('random')
    n = ctx.pick(n_quick, 40000)
    maxsize = ctx.pick(10, 25)
    for i in range(n):
        if ctx.out_of_time():
            return
        r = rng.fork(i)
        # every fifth body may also hold event statements
        yield _case(r, i, G.HOMES[i % len(G.HOMES)], r.randint(1, maxsize), None, vary=r.random() < 0.85,
                    events=(i % 5 == 4), bare=bare and (i % 3 == 0), structs=(i % 7 == 3))


def text_of(case):
    return G.render(case['prog'], random.Random(case['style']), case.get('vary', True))


def _enc(tree):
    return oal_sexp.encode(tree)


MULTI_PARAM = ['function', 'bridge', 'operation', 'cop']
MULTI_ALL = ['function', 'bridge', 'operation', 'cop', 'derived', 'state']


def run_multi(case):
    """one body in every kind of action home of ONE model, prebuilt by one prebuild_model run: every home regenerates
    the same text, and that text parses to the original tree (modulo canon)"""
    rig = _rig
    body = text_of(case)
    c1 = G.canon_py(_enc(rig.parse(body)), _EES, _CLASSES)
    m, homes = rig.fresh()
    for hn in case['homes']:
        homes[hn].Action_Semantics_internal = body
        homes[hn].Suc_Pars = 1
    try:
        rig.prebuild.prebuild_model(m)
    except Exception as e:
        if type(e) is Exception and str(e).startswith(('Unknown transient', 'Unknown identifier')):
            return {'obs': [Sym('out-of-domain'), str(e)], 'd_fail': [], 'nontrivial': False, 'stats': {'out_of_domain': 1}}
        raise
    fails = []
    texts = {}
    for hn in case['homes']:
        texts[hn] = rig.sourcegen.gen_text_action(homes[hn])
    first = case['homes'][0]
    for hn in case['homes']:
        if texts[hn] != texts[first] and len(fails) < 3:
            fails.append({'sig': 'home-dependent-text',
                          'what': 'the same body regenerates differently in the %s home and in the %s home of one model\n'
                                  '--- body\n%s\n--- %s\n%s\n--- %s\n%s' % (first, hn, body, first, texts[first], hn, texts[hn])})
    for hn in case['homes']:
        try:
            c2 = G.canon_py(_enc(rig.parse(texts[hn])), _EES, _CLASSES)
        except rig.oal.ParseException as e:
            fails.append({'sig': 'regen-unparseable', 'what': 'the text regenerated in the %s home does not parse (%s)\n%s'
                                                               % (hn, e, texts[hn])})
            break
        d = G.first_difference(c1, c2)
        if d:
            fails.append({'sig': 'tree-differs', 'what': 'in the %s home (one of %d actions of one model) the regenerated text '
                                                          'parses to a different tree: %s\n--- body\n%s\n--- regenerated\n%s'
                                                          % (hn, len(case['homes']), d, body, texts[hn])})
            break
    return {'obs': Sym('multi'), 'd_fail': fails[:3], 'nontrivial': True,
            'key': 'multi:' + hashlib.sha1(body.encode()).hexdigest()[:16],
            'stats': dict({'multi_action_models': 1, 'multi_actions': len(case['homes'])},
                          **dict(('gen_' + k, v) for k, v in (case.get('gstats') or {}).items()))}


def run_impl(case):
    if case.get('multi'):
        return run_multi(case)
    rig = _rig
    text1 = text_of(case)
    tree1 = rig.parse(text1)          # generator output always parses; a ParseException here is a harness bug
    c1 = G.canon_py(_enc(tree1), _EES, _CLASSES)
    fails = []
    try:
        m, h, text2 = rig.translate(case['home'], text1, case.get('via_model', False))
    except G.OutOfDomain as e:
        # never a verdict: a generated case that gets here shows up as a correspondence disagreement (generator bug)
        return {'obs': [Sym('out-of-domain'), str(e)], 'd_fail': [], 'nontrivial': False, 'stats': {'out_of_domain': 1}}
    toks = [[Sym(t), v] for t, v in rig.tokens(text2)]
    again = rig.sourcegen.gen_text_action(h)
    if again != text2:
        fails.append({'sig': 'regen-unstable',
                      'what': 'generating the text of the same prebuilt action a second time gives another text\n--- first\n%s\n'
                              '--- second\n%s' % (text2, again)})
    c2 = Sym('none')
    try:
        tree2 = rig.parse(text2)
        c2 = G.canon_py(_enc(tree2), _EES, _CLASSES)
    except rig.oal.ParseException as e:
        fails.append({'sig': 'regen-unparseable',
                      'what': 'the regenerated text does not parse (%s)\n--- original (%s home)\n%s\n--- regenerated\n%s'
                              % (e, case['home'], text1, text2)})
        tree2 = None
    if tree2 is not None:
        d = G.first_difference(c1, c2)
        if d:
            fails.append({'sig': 'tree-differs',
                          'what': 'the regenerated text parses to a different tree: %s\n--- original (%s home)\n%s\n'
                                  '--- regenerated\n%s' % (d, case['home'], text1, text2)})
        try:
            _, _, text3 = rig.translate(case['home'], text2, False)
        except Exception as e:      # the regenerated text is in the domain iff the trees agree
            if not d:
                raise
            text3 = None
        if text3 is not None and text3 != text2:
            fails.append({'sig': 'regen-not-idempotent',
                          'what': 'translating the regenerated text again changes it\n--- text2\n%s\n--- text3\n%s'
                                  % (text2, text3)})
    nstm = G.count_statements(case['prog'])
    stats = {'home_' + case['home']: 1, 'statements': nstm, 'tokens': len(toks)}
    _kind_stats(case['prog'], stats)
    _gen_stats(case, text1, stats)
    return {'obs': [toks, c2, c1, Sym('T')], 'd_fail': fails[:3], 'nontrivial': nstm >= 2 and len(toks) >= 12,
            'key': case['home'] + ':' + hashlib.sha1(text1.encode()).hexdigest()[:16], 'stats': stats}


def _gen_stats(case, text, stats):
    """what the generator did for this case (ProgramGen.stats) and surface features of the rendered text"""
    for k, v in (case.get('gstats') or {}).items():
        stats['gen_' + k] = stats.get('gen_' + k, 0) + v
    stats.update(G.text_stats(text))
    if case.get('events'):
        stats['bodies_with_event_statements_enabled'] = 1
    if case.get('via_model'):
        stats['via_prebuild_model'] = 1


def _kind_stats(prog, stats):
    for st in prog:
        if st[0] == 's':
            w = st[1].split(' ')
            k = w[0] if w[0] in ('create', 'delete', 'relate', 'unrelate', 'select', 'return', 'control', 'break',
                                 'continue', 'bridge', 'transform', 'generate') else \
                ('invoke' if '(' in w[0] else 'assign')
            if k == 'create' and w[1] == 'event':
                k = 'create_event'
            if k == 'select':
                k = 'select_related' if ' related by ' in st[1] else 'select_from'
                if ' where ' in st[1]:
                    k += '_where'
            stats['stmt_' + k] = stats.get('stmt_' + k, 0) + 1
            if '::' in st[1] or '(' in st[1]:
                stats['with_invocation_or_parens'] = stats.get('with_invocation_or_parens', 0) + 1
        else:
            stats['stmt_' + st[0]] = stats.get('stmt_' + st[0], 0) + 1
            if st[0] == 'if':
                stats['elif_clauses'] = stats.get('elif_clauses', 0) + len(st[3])
                _kind_stats(st[2], stats)
                for _, b in st[3]:
                    _kind_stats(b, stats)
                if st[4] is not None:
                    _kind_stats(st[4], stats)
            elif st[0] == 'while':
                _kind_stats(st[2], stats)
            else:
                _kind_stats(st[3], stats)


def model_line(case):
    if case.get('multi'):
        return None
    tree1 = _rig.parse(text_of(case))
    return dumps([Sym('c05'), [_EES, _CLASSES, [[k, v] for k, v in sorted(G.event_meanings().items())]], _enc(tree1)])


def model_obs(case, ans):
    return ans


def shrink_candidates(case):
    for prog in _shrink_prog(case['prog']):
        c = dict(case)
        c['prog'] = prog
        yield c
    if case.get('vary', True):
        c = dict(case)
        c['vary'] = False
        yield c


def _shrink_prog(prog):
    for i in range(len(prog)):
        yield prog[:i] + prog[i + 1:]
    for i, st in enumerate(prog):
        if st[0] == 's':
            continue
        blocks = {'if': [2], 'while': [2], 'for': [3]}[st[0]]
        # replace the compound statement by the contents of one of its blocks
        for bi in blocks:
            yield prog[:i] + st[bi] + prog[i + 1:]
        if st[0] == 'if':
            for j in range(len(st[3])):
                yield prog[:i] + [[st[0], st[1], st[2], st[3][:j] + st[3][j + 1:], st[4]]] + prog[i + 1:]
            if st[4] is not None:
                yield prog[:i] + [[st[0], st[1], st[2], st[3], None]] + prog[i + 1:]
            for j, (c, b) in enumerate(st[3]):
                for b2 in _shrink_prog(b):
                    yield prog[:i] + [[st[0], st[1], st[2], st[3][:j] + [[c, b2]] + st[3][j + 1:], st[4]]] + prog[i + 1:]
            if st[4] is not None:
                for b2 in _shrink_prog(st[4]):
                    yield prog[:i] + [[st[0], st[1], st[2], st[3], b2]] + prog[i + 1:]
        for bi in blocks:
            for b2 in _shrink_prog(st[bi]):
                st2 = list(st)
                st2[bi] = b2
                yield prog[:i] + [st2] + prog[i + 1:]
